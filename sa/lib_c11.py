"""Private helpers of sa/rules/c11.py: a C-string/byte-buffer memory model and libc
models on top of Engine I, so that the literal readers of tokenize.c / unicode.c /
preprocess.c can be interpreted on concrete spellings (the finite decision tables
of C11 6.4.4 / 6.4.5) while selected quantities (the magnitude of an integer
constant) stay symbolic.

Memory model: a C buffer is an `Arr` whose label is 'mem:<element size>'; a pointer
into it is `_Ref(ElemPlace(arr, index))` (Engine I's own pointer-to-element value, so
pointer arithmetic, differences and comparisons are the interpreter's).  `char`
elements are stored as signed values (x86-64 `char`).
"""
from .interp import (Interp, Obj, Arr, Sym, Term, _Ref, ElemPlace, VarPlace, _ValPlace, Unsupported,
                     Infeasible, wrap_int, is_opaque, View)
from .build import AnalysisBroken

# glibc <ctype.h> classification bits (little endian), used through __ctype_b_loc()
CTYPE_BITS = {'_ISupper': 0x100, '_ISlower': 0x200, '_ISalpha': 0x400, '_ISdigit': 0x800, '_ISxdigit': 0x1000,
              '_ISspace': 0x2000, '_ISprint': 0x4000, '_ISgraph': 0x8000, '_ISblank': 0x1, '_IScntrl': 0x2,
              '_ISpunct': 0x4, '_ISalnum': 0x8}


def _ctype_word(c):
    """classification of byte c in the C locale (ISO C 7.4)"""
    if c < 0 or c > 127:
        return 0
    ch = chr(c)
    w = 0
    up = 'A' <= ch <= 'Z'
    lo = 'a' <= ch <= 'z'
    dg = '0' <= ch <= '9'
    if up: w |= 0x100
    if lo: w |= 0x200
    if up or lo: w |= 0x400
    if dg: w |= 0x800
    if dg or ch in 'abcdefABCDEF': w |= 0x1000
    if ch in ' \t\n\v\f\r': w |= 0x2000
    if 32 <= c < 127: w |= 0x4000
    if 33 <= c < 127: w |= 0x8000
    if ch in ' \t': w |= 0x1
    if c < 32 or c == 127: w |= 0x2
    if 33 <= c < 127 and not (up or lo or dg): w |= 0x4
    if up or lo or dg: w |= 0x8
    return w


_CTYPE_TABLE = [_ctype_word(i - 128) if i >= 128 else 0 for i in range(384)]


def c_tolower(c):
    """ISO C 7.4.2.1 in the C locale, as a total function on int: an upper-case letter maps to its lower-case letter, every other
    value (EOF, the other bytes, and the negative values a signed char produces) to itself"""
    return c + 32 if 65 <= c <= 90 else c


def c_toupper(c):
    """ISO C 7.4.2.2 in the C locale, total on int"""
    return c - 32 if 97 <= c <= 122 else c


# glibc's __ctype_tolower_loc()/__ctype_toupper_loc() tables (int32, indexed -128..255): what <ctype.h> inlines when optimising
_TOLOWER_TABLE = [c_tolower(i - 128) for i in range(384)]
_TOUPPER_TABLE = [c_toupper(i - 128) for i in range(384)]

# the classification functions of <ctype.h> called as functions (`(isdigit)(c)`, a function pointer, or a libc whose <ctype.h> has no
# macros): the bit of the same table the macros read
CTYPE_FUNCS = {'isupper': 0x100, 'islower': 0x200, 'isalpha': 0x400, 'isdigit': 0x800, 'isxdigit': 0x1000, 'isspace': 0x2000,
               'isprint': 0x4000, 'isgraph': 0x8000, 'isblank': 0x1, 'iscntrl': 0x2, 'ispunct': 0x4, 'isalnum': 0x8}


def schar(b):
    b &= 0xff
    return b - 256 if b > 127 else b


def mem(esz, elems):
    return Arr(list(elems), label='mem:%d' % esz)


def esz_of(arr):
    l = arr.label or ''
    if l.startswith('mem:'):
        return int(l[4:])
    return None


def ptr(arr, i=0):
    return _Ref(ElemPlace(arr, i))


def cstring(data):
    """pointer to a fresh NUL-terminated char buffer holding bytes `data`"""
    if isinstance(data, str):
        data = data.encode('utf-8', 'surrogatepass')
    return ptr(mem(1, [schar(b) for b in data] + [0]))


class WatchedBytes(list):
    """element list of a char buffer that remembers the highest index read through it (by the interpreted
    code, `ElemPlace.get`, and by the libc models, `cbytes`); slices and iteration are not counted"""
    __slots__ = ('hi',)

    def __init__(self, elems):
        list.__init__(self, elems)
        self.hi = -1

    def __getitem__(self, i):
        if isinstance(i, int) and not isinstance(i, bool) and i > self.hi:
            self.hi = i
        return list.__getitem__(self, i)


REDZONE = [10] * 16 + [0]


def watched_cstring(data):
    """(pointer, watch, index of the terminator): a char buffer holding `data`, its terminating NUL, and behind it
    a red zone that does not belong to the string (what follows a real buffer is arbitrary memory; the red zone is
    line feeds and a NUL so that a scanner that runs over the terminator still stops).  watch.hi > index of the
    terminator after a run <=> the run read memory behind the string"""
    if isinstance(data, str):
        data = data.encode('utf-8', 'surrogatepass')
    w = WatchedBytes([schar(b) for b in data] + [0] + REDZONE)
    a = mem(1, [])
    a.elems = w
    return ptr(a), w, len(data)


def arr_of(v):
    """(Arr, index) of a pointer value, or None"""
    if isinstance(v, _Ref) and isinstance(v.place, ElemPlace) and isinstance(v.place.arr, Arr) and isinstance(v.place.i, int):
        return v.place.arr, v.place.i
    if isinstance(v, Arr):
        return v, 0
    return None


def cbytes(v, n=None):
    """bytes (0..255) of the C string (n None: up to NUL, exclusive) or of the first n chars at pointer v"""
    if isinstance(v, str):
        a = [ord(c) & 0xff for c in v] + [0]
        i = 0
    else:
        ai = arr_of(v)
        if ai is None:
            raise Unsupported('C string expected, got %r' % (v,))
        a, i = ai[0].elems, ai[1]
    out = []
    while True:
        if n is not None and len(out) >= n:
            break
        if i >= len(a) or i < 0:
            if n is None:
                raise Unsupported('unterminated buffer read')
            out.append(0); i += 1
            continue
        x = a[i]
        if not isinstance(x, int):
            raise Unsupported('non-concrete byte %r in buffer' % (x,))
        x &= 0xff
        if n is None and x == 0:
            break
        out.append(x)
        i += 1
    return out


def advance(v, k):
    """pointer v + k chars"""
    if isinstance(v, str):
        return v[k:] if k <= len(v) else ''
    return v.shift(k)


def set_out(it, ref, val):
    """*ref = val for an out-parameter that may be NULL"""
    if isinstance(ref, int) and ref == 0:
        return
    if isinstance(ref, _Ref):
        ref.place.set(it, val)
        return
    raise Unsupported('out parameter %r' % (ref,))


# ------------------------------------------------------------------ number syntax ---
def _digit_val(b):
    c = chr(b)
    if '0' <= c <= '9':
        return ord(c) - 48
    if 'a' <= c <= 'z':
        return ord(c) - 87
    if 'A' <= c <= 'Z':
        return ord(c) - 55
    return 99


def scan_strtoul(bs, base):
    """(value, consumed) per ISO C 7.22.1.4 for the byte list bs"""
    i = 0
    while i < len(bs) and chr(bs[i]) in ' \t\n\v\f\r':
        i += 1
    neg = False
    if i < len(bs) and chr(bs[i]) in '+-':
        neg = bs[i] == 45
        i += 1
    j = i
    if base in (0, 16) and j + 2 < len(bs) + 1 and bs[j:j + 1] == [48] and j + 1 < len(bs) and chr(bs[j + 1]) in 'xX' \
            and j + 2 < len(bs) and _digit_val(bs[j + 2]) < 16:
        j += 2
        base = 16
    elif base == 0:
        base = 8 if bs[j:j + 1] == [48] else 10
    v = 0
    k = j
    while k < len(bs) and _digit_val(bs[k]) < base:
        v = v * base + _digit_val(bs[k])
        k += 1
    if k == j:
        if j != i:      # "0x" without digits: the "0" is the subject sequence
            return 0, i + 1
        return 0, 0
    return (-v if neg else v), k


def scan_float(bs):
    """number of bytes of the longest prefix of bs that strtod/strtold accept (ISO C 7.22.1.3; no inf/nan)"""
    s = ''.join(chr(b) for b in bs)
    import re
    m = re.match(r'[ \t\n\v\f\r]*[+-]?(0[xX]([0-9a-fA-F]+\.?[0-9a-fA-F]*|\.[0-9a-fA-F]+)([pP][+-]?[0-9]+)?|([0-9]+\.?[0-9]*|\.[0-9]+)([eE][+-]?[0-9]+)?)', s)
    return m.end() if m else 0


# ------------------------------------------------------------------------- models ---
ERANGE = 34      # <errno.h> of x86-64 Linux


def make_models(int_value=None, on_float=None, extra=None, errno0=0):
    """libc models.  int_value(it, ctx, text, base, value) -> value to return from strtoul & co
    (default: the concrete value saturated to 64 bits).  on_float(it, ctx, fname, text) -> value."""

    # errno0: what an earlier library call left in errno when the run starts (no function of the standard library ever sets it to zero, ISO C 7.5p3)
    errno_cell = {'v': errno0}

    def m_strlen(it, ctx, n, a):
        return len(cbytes(a[0]))

    def _cmp(x, y):
        for p, q in zip(x, y):
            if p != q:
                return -1 if p < q else 1
            if p == 0:
                return 0
        return 0

    def m_strcmp(it, ctx, n, a):
        return _cmp(cbytes(a[0]) + [0], cbytes(a[1]) + [0])

    def _need_int(v, what):
        if isinstance(v, View):
            v = it_settle(v)
        if not isinstance(v, int):
            raise Unsupported('%s is not concrete: %r' % (what, v))
        return v

    def it_settle(v):
        while isinstance(v, View) and len(v.cell.cands) == 1:
            v = v.proj(v.cell.cands[0])
        return v

    def _strn(v, k):
        b = cbytes(v) + [0]
        return b[:k]

    def m_strncmp(it, ctx, n, a):
        k = _need_int(a[2], 'strncmp length')
        return _cmp(_strn(a[0], k), _strn(a[1], k))

    def m_strncasecmp(it, ctx, n, a):
        k = _need_int(a[2], 'strncasecmp length')
        low = lambda bs: [b + 32 if 65 <= b <= 90 else b for b in bs]
        return _cmp(low(_strn(a[0], k)), low(_strn(a[1], k)))

    def m_memcmp(it, ctx, n, a):
        k = _need_int(a[2], 'memcmp length')
        x, y = cbytes(a[0], k), cbytes(a[1], k)
        for p, q in zip(x, y):
            if p != q:
                return -1 if p < q else 1
        return 0

    def m_strchr(it, ctx, n, a):
        c = _need_int(a[1], 'strchr character') & 0xff
        b = cbytes(a[0]) + [0]
        for i, x in enumerate(b):
            if x == c:
                return advance(a[0], i)
        return 0

    def m_memchr(it, ctx, n, a):
        c = _need_int(a[1], 'memchr character') & 0xff
        k = _need_int(a[2], 'memchr length')
        for i, x in enumerate(cbytes(a[0], k)):
            if x == c:
                return advance(a[0], i)
        return 0

    def m_strstr(it, ctx, n, a):
        h, nd = cbytes(a[0]), cbytes(a[1])
        for i in range(len(h) - len(nd) + 1):
            if h[i:i + len(nd)] == nd:
                return advance(a[0], i)
        return 0

    def m_ctype(it, ctx, n, a):
        return _Ref(_ValPlace(ptr(mem(2, _CTYPE_TABLE), 128)))

    def m_tolower_loc(it, ctx, n, a):
        return _Ref(_ValPlace(ptr(mem(4, _TOLOWER_TABLE), 128)))

    def m_toupper_loc(it, ctx, n, a):
        return _Ref(_ValPlace(ptr(mem(4, _TOUPPER_TABLE), 128)))

    def _charmap(fname, f):
        def m(it, ctx, n, a):
            return f(_need_int(a[0], '%s argument' % fname))
        return m

    def _charclass(fname, bit):
        def m(it, ctx, n, a):
            c = _need_int(a[0], '%s argument' % fname)
            return (_ctype_word(c) & bit) if 0 <= c <= 255 else 0
        return m

    def m_isascii(it, ctx, n, a):
        return 1 if (_need_int(a[0], 'isascii argument') & ~0x7f) == 0 else 0

    def _strtoint(signed):
        def m(it, ctx, n, a):
            bs = cbytes(a[0])
            base = _need_int(a[2], 'strtoul base')
            v, k = scan_strtoul(bs, base)
            set_out(it, a[1], advance(a[0], k))
            ctx.emit('strtoint', n.callee(), ''.join(chr(b) for b in bs[:k]), base)
            # ISO C 7.22.1.4p8: a correct value outside the range of representable values sets errno to ERANGE
            if (v >= (1 << 63) or v < -(1 << 63)) if signed else v >= (1 << 64):
                errno_cell['v'] = ERANGE
            if int_value is not None:
                return int_value(it, ctx, ''.join(chr(b) for b in bs[:k]), base, v)
            if signed:
                return max(-(1 << 63), min((1 << 63) - 1, v))
            return min(v, (1 << 64) - 1) if v >= 0 else (v & ((1 << 64) - 1))
        return m

    def m_errno(it, ctx, n, a):
        # `errno` is (*__errno_location()) in glibc: one int object per set of models (the runs of this module do not fork on it)
        return _Ref(VarPlace(errno_cell, 'v'))

    def _strtofloat(fname):
        def m(it, ctx, n, a):
            bs = cbytes(a[0])
            k = scan_float(bs)
            if len(a) > 1:
                set_out(it, a[1], advance(a[0], k))
            text = ''.join(chr(b) for b in bs[:k])
            ctx.emit('strtofloat', fname, text)
            if on_float is not None:
                return on_float(it, ctx, fname, text)
            return Sym('%s(%s)' % (fname, text), 'long double')
        return m

    def _pointee_size(it, n):
        """element size implied by the pointer type a fresh allocation is converted to; None for a struct"""
        p = n.parent
        t = None
        while p is not None and p.kind in ('ImplicitCastExpr', 'CStyleCastExpr', 'ParenExpr'):
            t = p.dtype or p.type
            if t and t.strip().endswith('*') and not t.startswith('void'):
                break
            p = p.parent
        t = (t or '').replace('const ', '').strip()
        if not t.endswith('*'):
            return 1, None
        base = t[:-1].strip()
        if base.endswith('*'):
            return 8, None
        b = base.replace('struct ', '')
        if b in it.unit.records:
            return None, b
        from .interp import int_type
        ity = int_type(base)
        if ity:
            return max(1, ity[0] // 8), None
        td = it.unit.typedefs.get(base)
        ity = int_type(td) if td else None
        if ity:
            return max(1, ity[0] // 8), None
        return 1, None

    def m_calloc(it, ctx, n, a):
        esz, rec = _pointee_size(it, n)
        if rec is not None:
            return Obj(rec, lazy=False)
        total = None
        if n.callee() == 'calloc' and isinstance(a[0], int) and isinstance(a[1], int):
            total = a[0] * a[1]
        elif n.callee() == 'malloc' and isinstance(a[0], int):
            total = a[0]
        cnt = (total + esz - 1) // esz if total is not None and 0 <= total < (1 << 20) else 0
        arr = mem(esz, [0] * cnt)
        ctx.emit('alloc', arr, total, n.line)
        return ptr(arr)

    def m_realloc(it, ctx, n, a):
        if arr_of(a[0]) is not None:
            return a[0]
        esz, rec = _pointee_size(it, n)
        return ptr(mem(esz or 8, []))

    def m_memcpy(it, ctx, n, a):
        k = _need_int(a[2], 'memcpy length')
        d, s = arr_of(a[0]), arr_of(a[1])
        if d is None or (s is None and not isinstance(a[1], str)):
            raise Unsupported('memcpy on %r / %r' % (a[0], a[1]))
        # the unit of the index is the pointee type of each pointer expression; buffers remember
        # their element size, so translate everything to bytes
        def unit_of(node, arr):
            t = (node.strip().dtype or node.strip().type or '').replace('const ', '').strip()
            x = node
            while x.kind in ('ImplicitCastExpr', 'ParenExpr') and x.inner:
                x = x.inner[0]
                t = (x.dtype or x.type or t).replace('const ', '').strip()
                if not t.startswith('void'):
                    break
            from .interp import int_type
            if t.endswith('*'):
                b = t[:-1].strip()
                ity = int_type(b) or (int_type(it.unit.typedefs.get(b)) if it.unit.typedefs.get(b) else None)
                if ity:
                    return max(1, ity[0] // 8)
            return None
        args = n.args()
        if isinstance(a[1], str):
            sbytes = cbytes(a[1], k)
        else:
            sarr, si = s
            ses = esz_of(sarr) or 1
            su = unit_of(args[1], sarr) or ses
            off = si * su
            raw = []
            for e in sarr.elems:
                if not isinstance(e, int):
                    raise Unsupported('memcpy of non-concrete element')
                raw += list((e & ((1 << (8 * ses)) - 1)).to_bytes(ses, 'little'))
            if off + k > len(raw):
                ctx.emit('overread', off + k - len(raw), n.line)
                raw += [0] * (off + k - len(raw))
            sbytes = raw[off:off + k]
        darr, di = d
        des = esz_of(darr) or 1
        du = unit_of(args[0], darr) or des
        off = di * du
        raw = []
        for e in darr.elems:
            raw += list(((e if isinstance(e, int) else 0) & ((1 << (8 * des)) - 1)).to_bytes(des, 'little'))
        alloc = len(raw)
        if off + k > len(raw):
            raw += [0] * (off + k - len(raw))
            if (off + k) % des:
                raw += [0] * (des - (off + k) % des)
        raw[off:off + k] = sbytes
        if off + k > alloc:
            ctx.emit('overflow', off + k - alloc, n.line)
        darr.elems[:] = [int.from_bytes(bytes(raw[j:j + des]), 'little') for j in range(0, len(raw), des)]
        if des == 1:
            darr.elems[:] = [schar(x) for x in darr.elems]
        return a[0]

    def m_memset(it, ctx, n, a):
        k = _need_int(a[2], 'memset length')
        c = _need_int(a[1], 'memset value') & 0xff
        d = arr_of(a[0])
        if d is None:
            raise Unsupported('memset on %r' % (a[0],))
        arr, i = d
        es = esz_of(arr) or 1
        if (i * es) % es or k % es:
            raise Unsupported('memset of a partial element')
        word = int.from_bytes(bytes([c] * es), 'little')
        for j in range(k // es):
            ElemPlace(arr, i + j).set(it, schar(word) if es == 1 else word)
        return a[0]

    def m_strcasecmp(it, ctx, n, a):
        low = lambda bs: [b + 32 if 65 <= b <= 90 else b for b in bs]
        return _cmp(low(cbytes(a[0])) + [0], low(cbytes(a[1])) + [0])

    models = {
        'memset': m_memset, 'memmove': m_memcpy, 'strcasecmp': m_strcasecmp,
        'strlen': m_strlen, 'strcmp': m_strcmp, 'strncmp': m_strncmp, 'strncasecmp': m_strncasecmp,
        'memcmp': m_memcmp, 'strchr': m_strchr, 'memchr': m_memchr, 'strstr': m_strstr, '__ctype_b_loc': m_ctype,
        'strtoul': _strtoint(False), 'strtoull': _strtoint(False), 'strtol': _strtoint(True), 'strtoll': _strtoint(True),
        'strtold': _strtofloat('strtold'), 'strtod': _strtofloat('strtod'), 'strtof': _strtofloat('strtof'),
        'calloc': m_calloc, 'malloc': m_calloc, 'realloc': m_realloc, 'memcpy': m_memcpy, '__errno_location': m_errno,
    }
    models.update({'tolower': _charmap('tolower', c_tolower), 'toupper': _charmap('toupper', c_toupper),
                   '__ctype_tolower_loc': m_tolower_loc, '__ctype_toupper_loc': m_toupper_loc,
                   'isascii': m_isascii, 'toascii': _charmap('toascii', lambda c: c & 0x7f)})
    for _f, _bit in CTYPE_FUNCS.items():
        models[_f] = _charclass(_f, _bit)
    if extra:
        models.update(extra)
    return models


_PRINTERS = {}
DIAG_UNIT = 'tokenize.c'
DIAG_CORE = 'verror_at'


def diagnostic_printers(P):
    """functions of tokenize.c that print through verror_at and return to their caller (warn_tok and whatever is added beside it);
    error/error_at/error_tok end the run and are the interpreter's noreturn functions"""
    k = id(P)
    if k not in _PRINTERS:
        out = []
        try:
            u = P.unit(DIAG_UNIT)
        except AnalysisBroken:
            u = None
        if u is not None:
            for f, fd in sorted(u.functions.items()):
                if f in ('error', 'error_at', 'error_tok', DIAG_CORE):
                    continue
                if fd.calls(DIAG_CORE) and not fd.calls({'exit', '_exit', 'abort'}):
                    out.append(f)
        _PRINTERS[k] = out
    return list(_PRINTERS[k])


class CInterp(Interp):
    """Engine I plus the <ctype.h> enumerators (declared outside the repository, so the unit's own
    enum table does not know them)."""

    crashes = None

    def __init__(self, program, unit, cfg=None):
        # functions that print a diagnostic and RETURN (warn_tok) are not followed (they format with <stdarg.h> and write to a stream):
        # their calls are recorded as ('call', name, ...) events and leave the run as it is
        cfg = dict(cfg or {})
        cfg['opaque'] = list(cfg.get('opaque', ())) + diagnostic_printers(program)
        Interp.__init__(self, program, unit, cfg)

    def deref_target(self, b, n):
        c = b
        while isinstance(c, View) and len(c.cell.cands) == 1:
            c = c.proj(c.cell.cands[0])
        if isinstance(c, int) and not isinstance(c, bool) and c == 0 and n.kind == 'MemberExpr':
            if self.crashes is None:
                self.crashes = []
            self.crashes.append('%s:%d' % (self.unit.name, n.line))
        return Interp.deref_target(self, b, n)

    def _layout(self, t, depth=0):
        """(size, align) of C type t on x86-64, or None"""
        import re
        from .interp import int_type
        t = (t or '').replace('const ', '').replace('volatile ', '').strip()
        if depth > 6 or not t:
            return None
        m = re.match(r'^(.*?)\s*\[(\d+)\]$', t)
        if m:
            e = self._layout(m.group(1), depth + 1)
            return (e[0] * int(m.group(2)), e[1]) if e else None
        if t.endswith('*') or '(*)' in t:
            return (8, 8)
        ity = int_type(t)
        if ity:
            b = max(1, ity[0] // 8)
            return (b, b)
        if t in ('float',):
            return (4, 4)
        if t in ('double',):
            return (8, 8)
        if t == 'long double':
            return (16, 16)
        b = t.replace('struct ', '').replace('enum ', '').strip()
        if b in self.unit.enum_types and b not in self.unit.records:
            return (4, 4)
        if t.startswith('union '):
            return None
        rec = self.unit.records.get(b)
        if rec is not None:
            off, al = 0, 1
            for (fn_, ft, bf) in rec:
                if bf:
                    return None
                l = self._layout(ft, depth + 1)
                if l is None:
                    return None
                off = (off + l[1] - 1) // l[1] * l[1] + l[0]
                al = max(al, l[1])
            return ((off + al - 1) // al * al, al) if rec else None
        td = self.unit.typedefs.get(b)
        if td and td != t:
            return self._layout(td, depth + 1)
        return None

    def sizeof(self, t, n=None):
        v = Interp.sizeof(self, t, n)
        if isinstance(v, int):
            return v
        l = self._layout(t)
        return l[0] if l else v

    _defs = {}

    def find_def(self, name):
        k = (id(self.prog), self.unit.name, name)
        if k not in CInterp._defs:
            CInterp._defs[k] = Interp.find_def(self, name)
        return CInterp._defs[k]

    def e_CallExpr(self, n, env):
        # the runs of this module are concrete: a call whose effect is unknown (external function without a
        # model) would silently produce an arbitrary result, so refuse it -> "cannot tell", never a verdict
        name = n.callee()
        if name is not None and name not in self.cut and name not in self.models and name not in self.noreturn \
                and name not in self.opaque_fns and name not in ('free', '__builtin_expect'):
            if self.find_def(name)[1] is None:
                raise Unsupported('call to %s, which is neither defined in the repository nor modelled (%s:%d)' % (name, self.unit.name, n.line))
        return Interp.e_CallExpr(self, n, env)

    def binop(self, op, a, b, n):
        # a comparison of an opaque integer is signed or unsigned according to the C type the operands
        # were converted to; keep that in the term so that the decision can be evaluated later
        if op in ('==', '!=', '<', '<=', '>', '>=') and (is_opaque(a) or is_opaque(b)) and len(n.inner) == 2:
            from .interp import int_type
            ity = int_type(n.inner[0].dtype or n.inner[0].type)
            if ity:
                tag = 'as:%d%s' % (ity[0], 's' if ity[1] else 'u')
                if is_opaque(a):
                    a = Term(tag, a)
                if is_opaque(b):
                    b = Term(tag, b)
        return Interp.binop(self, op, a, b, n)

    def e_DeclRefExpr(self, n, env):
        if n.ref_kind == 'EnumConstantDecl' and n.ref_name in CTYPE_BITS and self.unit.enum_value(n.ref_name) is None:
            return CTYPE_BITS[n.ref_name]
        return Interp.e_DeclRefExpr(self, n, env)


def run1(it, fname, args, unit=None):
    """run fname on concrete arguments; exactly one outcome is expected.
    returns (ctx, outcome); raises AnalysisBroken if the run forks or dies"""
    res = it.explore(fname, (lambda ctx: args(ctx)) if callable(args) else (lambda ctx: list(args)), max_paths=64, unit=unit)
    if not res and getattr(it, 'crashes', None):
        # fully concrete run that ends in `NULL->field`: the compiler itself would crash here
        return it.ctx, ('crash', 'NULL pointer dereference', it.crashes[-1])
    if len(res) != 1:
        raise AnalysisBroken('%s: %d outcomes on a concrete input (expected exactly 1): %s' % (
            fname, len(res), '; '.join('/'.join(c.trail[-3:]) for c, _ in res[:3])))
    return res[0]


# -------------------------------------------------------------------- inspection ---
def type_sig(it, t):
    """(kind name, size, is_unsigned) of a Type object; arrays: ('TY_ARRAY', size, base sig, len)"""
    t = it.settle(t) if isinstance(t, View) else t
    if not isinstance(t, Obj):
        return None
    names = {v: k for k, v in it.unit.enums.items() if k.startswith('TY_')}
    k = t.fields.get('kind', 0)
    kn = names.get(k, k)
    if kn == 'TY_ARRAY':
        return ('TY_ARRAY', t.fields.get('size', 0), type_sig(it, t.fields.get('base')), t.fields.get('array_len', 0))
    return (kn, t.fields.get('size', 0), 1 if t.fields.get('is_unsigned', 0) else 0)


def tokens(it, tok, limit=64):
    out = []
    while isinstance(tok, View):
        tok = it.settle(tok)
        if isinstance(tok, View):
            raise AnalysisBroken('token list is not concrete')
    while isinstance(tok, Obj) and len(out) < limit:
        out.append(tok)
        tok = tok.fields.get('next', 0)
        if isinstance(tok, View):
            tok = it.settle(tok)
    return out


def tok_text(tok):
    loc, ln = tok.fields.get('loc'), tok.fields.get('len', 0)
    if not isinstance(ln, int):
        return None
    return bytes(cbytes(loc, ln))


def buf_units(v, count):
    """first `count` elements of the buffer v points to, as unsigned numbers of the buffer's element size"""
    ai = arr_of(v)
    if ai is None:
        return None
    a, i = ai
    es = esz_of(a) or 1
    out = []
    for k in range(count):
        e = a.elems[i + k] if i + k < len(a.elems) else None
        if not isinstance(e, int):
            out.append(None)
        else:
            out.append(e & ((1 << (8 * es)) - 1))
    return es, out


def buf_bytes(v, nbytes):
    ai = arr_of(v)
    if ai is None:
        return None
    a, i = ai
    es = esz_of(a) or 1
    raw = []
    for e in a.elems[i:]:
        if not isinstance(e, int):
            return None
        raw += list((e & ((1 << (8 * es)) - 1)).to_bytes(es, 'little'))
    if len(raw) < nbytes:
        return None
    return raw[:nbytes]


# ------------------------------------------------------- bundled headers (R11.15) ---
def header_typedefs(P, names):
    """typedefs of the bundled headers (include/*.h) whose name is in `names`, read through clang's AST with clang's own
    predefined macros switched off (-undef: a header that relies on a predefined macro is not interpretable here).
    returns [(header, name, spelled type, line, invalid?)]"""
    import os, json, subprocess
    inc = os.path.join(P.repo, 'include')
    if not os.path.isdir(inc):
        raise AnalysisBroken('directory include/ vanished')
    out = []
    for h in sorted(os.listdir(inc)):
        if not h.endswith('.h'):
            continue
        path = os.path.join(inc, h)
        p = subprocess.run(['clang-14', '-x', 'c', '-std=c11', '-w', '-undef', '-nostdinc', '-I', inc, '-fsyntax-only', '-Xclang', '-ast-dump=json', path],
                           capture_output=True, text=True)
        try:
            top = json.loads(p.stdout)
        except ValueError:
            raise AnalysisBroken('clang produced no AST for include/%s: %s' % (h, p.stderr[-200:]))
        cur, line = None, 0
        real = os.path.realpath(path)
        for d in top.get('inner', []):
            loc = d.get('loc', {})
            loc = loc.get('expansionLoc') or loc
            if loc.get('file'):
                cur = loc['file']
            if loc.get('line'):
                line = loc['line']
            if d.get('kind') != 'TypedefDecl' or d.get('isImplicit') or d.get('name') not in names:
                continue
            t = d.get('type', {})
            own = cur is not None and os.path.realpath(cur) == real
            out.append(('include/' + (h if own else os.path.basename(cur or h)), d['name'], t.get('desugaredQualType') or t.get('qualType') or '', line, bool(d.get('isInvalid'))))
    seen, res = set(), []
    for e in out:       # a header included by another one is reported once
        if e[:2] not in seen:
            seen.add(e[:2])
            res.append(e)
    return res


def c_int_type(spelling):
    """(bits, is_unsigned) of a C integer type as clang spells it (an _Atomic qualifier does not change the value type)"""
    import re
    from .interp import int_type
    t = (spelling or '').strip()
    m = re.match(r'^_Atomic\((.*)\)$', t)
    if m:
        t = m.group(1).strip()
    t = t.replace('_Atomic ', '').strip()
    t = {'unsigned short int': 'unsigned short', 'short int': 'short', 'long int': 'long', 'unsigned long int': 'unsigned long', 'signed int': 'int',
         'signed': 'int', 'signed short': 'short', 'signed long': 'long'}.get(t, t)
    ity = int_type(t)
    if ity is None or ity[0] < 8:
        return None
    return (ity[0], 0 if ity[1] else 1)
