"""R11.22 helper: the errno protocol of the numeric conversion functions (ISO C 7.22.1.3p10, 7.22.1.4p8, 7.5p3).

strtoul & co report a range error ONLY through errno and never clear it.  A read of errno that is to say something about one
conversion therefore needs, on every path, a store `errno = 0` before that conversion with no call between the store and the
conversion (any library function may set errno, 7.5p3), and no call between the conversion and the read.

Decided by a forward flow analysis over the statement structure of every function of every unit (no line numbers, no source text):
the state at a program point is the SET of what may be true of errno there

    D  unknown (function entry, after a call of a function that is not defined in the program, after a store of a non-zero value)
    R  zero: `errno = 0` was the last thing that could touch it
    K  a conversion ran in state R and nothing ran since (a read of errno speaks about that conversion)
    S  a conversion ran in state D (or directly after another conversion) and nothing ran since (a read sees whatever an EARLIER call left there)
    U  the analysis lost track (inlining depth)

if / switch / loops / && || ?: join by union, loops and gotos are iterated to a fixpoint, break / continue / return / noreturn
calls end the flow.  Calls of functions defined in the program that (transitively) touch errno or convert are followed into the
body (depth <= 4); calls of functions defined in the program that reach no function outside it leave errno alone.
"""
from .build import AnalysisBroken

ERRNO_FN = '__errno_location'
CONVERSIONS = frozenset(('strtol', 'strtoul', 'strtoll', 'strtoull', 'strtoimax', 'strtoumax', 'strtoq', 'strtouq', 'strtod', 'strtof', 'strtold',
                         'wcstol', 'wcstoul', 'wcstoll', 'wcstoull', 'wcstod', 'wcstof', 'wcstold', 'wcstoimax', 'wcstoumax'))
NORETURN = frozenset(('error', 'error_at', 'error_tok', 'exit', '_exit', 'abort', '__assert_fail'))
MAX_DEPTH = 4
EMPTY = frozenset()


def _is_errno_lvalue(n):
    """n is `errno`, i.e. *__errno_location() behind parentheses / casts"""
    n = n.strip_all()
    if n.kind == 'UnaryOperator' and n.opcode == '*' and n.inner:
        c = n.inner[0].strip_all()
        return c.kind == 'CallExpr' and c.callee() == ERRNO_FN
    return False


class Program:
    """call graph facts of all units: which functions are defined, which touch errno / convert, which reach the outside"""

    def __init__(self, P):
        self.defs = {}          # name -> (unit, FunctionDecl with body)
        for un in P.unit_names:
            u = P.unit(un)
            for name, fd in u.functions.items():
                if name not in self.defs and u.body(name) is not None:
                    self.defs[name] = (u, fd)
        self.callees = {}
        self.indirect = set()
        for name, (u, fd) in self.defs.items():
            cs = set()
            for n in u.body(name).walk():
                if n.kind == 'CallExpr':
                    c = n.callee()
                    if c is None:
                        self.indirect.add(name)
                    else:
                        cs.add(c)
            self.callees[name] = cs
        # address taken: a reference to the function that is not the callee of a direct call
        self.addr_taken = set()
        for name, (u, fd) in self.defs.items():
            refs, calls = {}, {}
            for n in u.body(name).walk():
                if n.kind == 'DeclRefExpr' and n.ref_kind == 'FunctionDecl':
                    refs[n.ref_name] = refs.get(n.ref_name, 0) + 1
                elif n.kind == 'CallExpr' and n.callee() is not None:
                    calls[n.callee()] = calls.get(n.callee(), 0) + 1
            for f, k in refs.items():
                if k > calls.get(f, 0):
                    self.addr_taken.add(f)
        for un in P.unit_names:
            for g in P.unit(un).globals.values():
                for n in g.walk():
                    if n.kind == 'DeclRefExpr' and n.ref_kind == 'FunctionDecl':
                        self.addr_taken.add(n.ref_name)
        # relevant: transitively contains a read/store of errno or a conversion
        self.relevant = set(f for f, cs in self.callees.items() if cs & CONVERSIONS or ERRNO_FN in cs)
        # outside: may reach a function that is not defined in the program (library), or an indirect call
        self.outside = set(f for f, cs in self.callees.items() if f in self.indirect or any(c not in self.defs and c != ERRNO_FN for c in cs))
        changed = True
        while changed:
            changed = False
            for f, cs in self.callees.items():
                if f not in self.relevant and cs & self.relevant:
                    self.relevant.add(f); changed = True
                if f not in self.outside and cs & self.outside:
                    self.outside.add(f); changed = True


class Flow:
    def __init__(self, prog, root):
        self.prog = prog
        self.root = root
        self.reads = []         # (function of the read, state set, conversions that may be the subject, line, unit)
        self.stack = []
        self.conv_seen = set()  # names of conversions that ran on some path so far (for the message / key)
        self.nconv = 0
        self.callsites = {}     # relevant function -> states at its call sites seen in this flow

    # --- states
    @staticmethod
    def _map(st, f):
        return frozenset(f(x) for x in st)

    def after_conversion(self, st, name):
        # a second conversion without a reset in between: errno may hold the range error of the FIRST one, so a read after it says nothing about the second
        return self._map(st, lambda x: {'R': 'K:' + name, 'U': 'U'}.get(x, 'S:' + name))

    def after_outside_call(self, st):
        return frozenset('D') if st else st

    # --- function
    def function(self, name, st):
        u, fd = self.prog.defs[name]
        body = u.body(name)
        self.stack.append((name, u))
        fr = {'ret': set(), 'gotos': set(), 'labels_in': EMPTY}
        for _ in range(6):
            fr['gotos_new'] = set()
            fr['ret'] = set()
            n0 = len(self.reads)
            out = self.stmt(body, st, fr, None)
            new = frozenset(fr['gotos_new'])
            if new <= fr['labels_in']:
                break
            fr['labels_in'] = fr['labels_in'] | new
            del self.reads[n0:]      # re-run with the larger label state; reads are recorded by the last run
        self.stack.pop()
        return frozenset(out) | frozenset(fr['ret'])

    # --- statements
    def stmt(self, s, st, fr, lp):
        if s is None or not st and s.kind not in ('CompoundStmt', 'LabelStmt', 'CaseStmt', 'DefaultStmt', 'SwitchStmt', 'IfStmt', 'ForStmt', 'WhileStmt', 'DoStmt'):
            return st
        k = s.kind
        if k == 'CompoundStmt':
            for c in s.inner:
                st = self.stmt(c, st, fr, lp)
            return st
        if k == 'DeclStmt':
            for d in s.inner:
                for c in d.inner:
                    st = self.expr(c, st)
            return st
        if k == 'ReturnStmt':
            for c in s.inner:
                st = self.expr(c, st)
            fr['ret'] |= st
            return EMPTY
        if k == 'BreakStmt':
            if lp is not None:
                lp['brk'] |= st
            return EMPTY
        if k == 'ContinueStmt':
            if lp is not None:
                lp['cont'] |= st
            return EMPTY
        if k == 'GotoStmt' or k == 'IndirectGotoStmt':
            fr['gotos_new'] |= st
            return EMPTY
        if k == 'LabelStmt':
            st = frozenset(st) | fr['labels_in']
            for c in s.inner:
                st = self.stmt(c, st, fr, lp)
            return st
        if k == 'IfStmt':
            parts = s.inner
            st = self.expr(parts[0], st)
            a = self.stmt(parts[1], st, fr, lp) if len(parts) > 1 else st
            b = self.stmt(parts[2], st, fr, lp) if len(parts) > 2 else st
            return frozenset(a) | frozenset(b)
        if k in ('WhileStmt', 'DoStmt', 'ForStmt'):
            return self.loop(s, st, fr, lp)
        if k == 'SwitchStmt':
            st = self.expr(s.inner[0], st)
            me = {'brk': set(), 'cont': lp['cont'] if lp is not None else set(), 'entry': frozenset(st), 'default': False}
            out = self.stmt(s.inner[-1], EMPTY, fr, me) if len(s.inner) > 1 else EMPTY
            out = frozenset(out) | frozenset(me['brk'])
            if not me['default']:
                out |= frozenset(st)
            return out
        if k in ('CaseStmt', 'DefaultStmt'):
            if lp is not None and 'entry' in lp:
                st = frozenset(st) | lp['entry']
                if k == 'DefaultStmt':
                    lp['default'] = True
            else:
                st = frozenset(st) | frozenset('U')
            return self.stmt(s.inner[-1], st, fr, lp) if s.inner else st
        if k in ('NullStmt', 'AttributedStmt') and not s.inner:
            return st
        # expression statement (or a statement kind that only wraps children)
        return self.expr(s, st)

    def loop(self, s, st, fr, lp):
        if s.kind == 'ForStmt':
            raw = s.d.get('inner', [])
            slots, it = [], iter(s.inner)
            for r in raw:
                slots.append(next(it) if (isinstance(r, dict) and r) else None)
            init, _cv, cond, inc, body = (slots + [None] * 5)[:5]
        elif s.kind == 'WhileStmt':
            init, cond, inc, body = None, s.inner[0], None, s.inner[-1]
        else:
            init, cond, inc, body = None, s.inner[-1], None, s.inner[0]
        if init is not None:
            st = self.stmt(init, st, fr, lp)
        head = frozenset(st)
        brk = set()
        for _ in range(8):
            me = {'brk': set(), 'cont': set()}
            n0 = len(self.reads)
            cur = head
            if s.kind != 'DoStmt' and cond is not None:
                cur = self.expr(cond, cur)
            exit_ = frozenset(cur) if s.kind != 'DoStmt' else EMPTY
            cur = self.stmt(body, cur, fr, me)
            cur = frozenset(cur) | frozenset(me['cont'])
            if inc is not None:
                cur = self.expr(inc, cur)
            if s.kind == 'DoStmt' and cond is not None:
                cur = self.expr(cond, cur)
                exit_ = frozenset(cur)
            brk = me['brk']
            new = head | frozenset(cur)
            if new == head:
                break
            head = new
            del self.reads[n0:]
        if cond is None and s.kind != 'DoStmt':
            exit_ = EMPTY
        return frozenset(exit_) | frozenset(brk)

    # --- expressions
    def expr(self, e, st):
        if e is None or not st:
            return st
        k = e.kind
        if k == 'BinaryOperator' and e.opcode in ('&&', '||'):
            a = self.expr(e.inner[0], st)
            b = self.expr(e.inner[1], a)
            return frozenset(a) | frozenset(b)
        if k in ('ConditionalOperator', 'BinaryConditionalOperator') and len(e.inner) >= 3:
            c = self.expr(e.inner[0], st)
            return frozenset(self.expr(e.inner[-2], c)) | frozenset(self.expr(e.inner[-1], c))
        if k == 'BinaryOperator' and e.opcode == '=' and _is_errno_lvalue(e.inner[0]):
            st = self.expr(e.inner[1], st)
            v = e.inner[1].strip_all().int_value() if hasattr(e.inner[1].strip_all(), 'int_value') else None
            return frozenset('R') if v == 0 else frozenset('D')
        if k == 'CallExpr':
            for c in e.inner:
                st = self.expr(c, st)
            return self.call(e, st)
        if k in ('StmtExpr',):
            for c in e.inner:
                st = self.stmt(c, st, {'ret': set(), 'gotos_new': set(), 'labels_in': EMPTY}, None)
            return st
        if k in ('UnaryExprOrTypeTraitExpr',):      # sizeof: unevaluated
            return st
        for c in e.inner:
            st = self.expr(c, st) if not c.kind.endswith('Stmt') else self.stmt(c, st, {'ret': set(), 'gotos_new': set(), 'labels_in': EMPTY}, None)
        return st

    def call(self, e, st):
        name = e.callee()
        if name == ERRNO_FN:
            # a store `errno = v` never comes here (handled at the assignment); compound assignments and everything else read it
            fn, u = self.stack[-1]
            self.reads.append((fn, frozenset(st), frozenset(self.conv_seen), e.line, u))
            return st
        if name in CONVERSIONS:
            self.conv_seen.add(name)
            self.nconv += 1
            return self.after_conversion(st, name)
        if name in NORETURN:
            return EMPTY
        if name is not None and name in self.prog.defs:
            if name in self.prog.relevant:
                self.callsites.setdefault(name, set()).update(st)
                if len(self.stack) >= MAX_DEPTH or any(f == name for f, _ in self.stack):
                    return frozenset('U')
                return self.function(name, st)
            if name not in self.prog.outside:
                return st
        return self.after_outside_call(st)


def analyse(P):
    """{(unit name, function of the read, conversion names): (verdict, root, line, state)} for every read of errno that on every path directly
    follows a conversion; verdict in 'ok' | 'no-reset' | 'unknown'.  The state in which a function is entered is the union of the states at its
    call sites (fixpoint over the program); functions without a caller, main and functions whose address is taken are entered with D."""
    prog = Program(P)
    roots = sorted(prog.relevant)
    called = set()
    for f, cs in prog.callees.items():
        called |= cs
    entry = {f: (EMPTY if (f in called and f not in prog.addr_taken and f != 'main') else frozenset('D')) for f in roots}
    rank = {'ok': 0, 'unknown': 1, 'no-reset': 2}
    for _ in range(12):
        found = {}
        nconv = 0
        seen = {}
        for r in roots:
            if not entry[r]:
                continue
            fl = Flow(prog, r)
            fl.function(r, entry[r])
            nconv += fl.nconv
            for f, sts in fl.callsites.items():
                seen.setdefault(f, set()).update(sts)
            for fn, st, _convs, line, u in fl.reads:
                kinds = frozenset(x[0] for x in st)
                convs = frozenset(x[2:] for x in st if x[0] in 'KS')
                if not st or not kinds <= frozenset('KSU') or not convs:
                    continue        # on some path no conversion is the last thing that ran before this read: errno after a failed open() etc. is not this rule's subject
                v = 'no-reset' if 'S' in kinds else ('unknown' if 'U' in kinds else 'ok')
                key = (u.name, fn, '+'.join(sorted(convs)))
                old = found.get(key)
                if old is None or rank[v] > rank[old[0]] or (rank[v] == rank[old[0]] and r == fn):
                    found[key] = (v, r, line, ' '.join(sorted(st)))
        grown = False
        for f, sts in seen.items():
            if f in entry and not frozenset(sts) <= entry[f]:
                entry[f] = entry[f] | frozenset(sts)
                grown = True
        if not grown:
            return found, nconv, prog
    raise AnalysisBroken('errno flow: the entry states of the functions did not settle')
