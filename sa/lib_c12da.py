"""C12 R12.18 - definite assignment of automatic objects (private helper of sa/rules/c12.py).

Clause: the output depends only on input and options, so no value may be read from an automatic object that is not written on every
path to the read (what such an object holds is stack residue: it changes with the address-space layout, the call history and the
previous iteration of the enclosing loop).

Decided over the typed AST, flow-sensitively and for every function of the compiler:
  * tracked places: every automatic local declared WITHOUT an initialiser whose type is an arithmetic / enumerated / pointer type (one
    place), or a struct (one place per first-level non-array member; an assignment of the whole object covers all of them).  Arrays and
    unions are not tracked (unions: R12.13).
  * state = set of places written on every path so far (intersection at joins; an unreachable point is the top element).  Branch
    conditions are followed through `&&`, `||`, `!`, `?:` and integer constants; `break`, `continue`, `return`, `goto` (labels get the
    meet of all gotos, iterated to a fixpoint), `switch` with fall-through and a missing `default`, calls of functions that do not
    return (declared noreturn, or every path of whose body ends in such a call).  A declaration without initialiser inside a loop body
    makes the object indeterminate again on every iteration.
  * `&x` handed to a call writes x only if the callee writes through that parameter on every returning path (summary computed by the
    same analysis over the callee's body, transitively through parameters handed on, least fixpoint over the whole program; a table
    for the C library).  Any other `&x` (stored in a pointer, handed to a callee that writes only on some paths) leaves the state as it is:
    a later read by name is still required to be preceded by writes by name on every path.
A read is an lvalue-to-rvalue conversion of the place (or of a part of it), `op=`, `++`, `--`.
"""

SCALAR_WORDS = ('int', 'long', 'short', 'char', 'unsigned', 'signed', 'float', 'double', '_Bool', 'bool', 'size_t', 'ssize_t',
                'int8_t', 'int16_t', 'int32_t', 'int64_t', 'uint8_t', 'uint16_t', 'uint32_t', 'uint64_t', 'intptr_t', 'uintptr_t', 'ptrdiff_t',
                'off_t', 'pid_t', 'time_t', 'mode_t')
NORETURN_LIBC = ('exit', '_exit', '_Exit', 'quick_exit', 'abort', '__assert_fail', 'longjmp', 'execv', 'execvp', 'execve', 'execl', 'execlp',
                 '__builtin_unreachable', '__builtin_trap')
# C library: function -> positions of the pointer parameters through which it stores on every (successful or not) return;
# functions that store only on success are listed with the positions too: their callers test the result before they read (a failed
# stat / wait leaves the object unwritten, which the callers of the compiler handle by ending the run or by testing the result first)
LIBC_WRITES = {
    'strtol': (1,), 'strtoul': (1,), 'strtoll': (1,), 'strtoull': (1,), 'strtod': (1,), 'strtold': (1,), 'strtof': (1,),
    'open_memstream': (0, 1), 'getline': (), 'stat': (1,), 'lstat': (1,), 'fstat': (1,), 'wait': (0,), 'waitpid': (1,),
    'localtime_r': (1,), 'gmtime_r': (1,), 'ctime_r': (1,), 'time': (0,), 'pipe': (0,), 'memset': (0,), 'memcpy': (0,), 'va_start': (0,),
    '__builtin_va_start': (0,), 'sscanf': (), 'glob': (3,), 'regcomp': (0,), 'sigemptyset': (0,), 'clock_gettime': (1,), 'gettimeofday': (0,),
}


def _unq(t):
    t = (t or '')
    for q in ('const ', 'volatile ', 'restrict ', '_Atomic '):
        t = t.replace(q, '')
    return t.replace(' const', '').replace(' restrict', '').replace(' volatile', '').strip()


def _bare(t):
    t = _unq(t)
    for p in ('struct ', 'enum '):
        if t.startswith(p):
            t = t[len(p):]
    return t.strip()


def place_class(vd):
    """'scalar' | 'record' | None for a VarDecl"""
    t = _unq(vd.dtype or vd.type)
    if not t or t.endswith(']'):
        return None
    if t.endswith('*') or '(*' in t:
        return 'scalar'
    if t.startswith('enum '):
        return 'scalar'
    if t.startswith('struct '):
        return 'record'
    if t.startswith('union '):
        return None
    if all(w in SCALAR_WORDS for w in t.split()):
        return 'scalar'
    for nm in (t, _unq(vd.type)):
        if nm in vd.unit.records:
            if 'union' in (vd.unit.typedefs.get(nm) or ''):
                return None
            return 'record'     # typedef of an untagged struct
    return None


def _record_fields(vd):
    """first-level members [(name, is_trackable)] of the struct type of a local, None when the record is not known"""
    t = _unq(vd.dtype or vd.type)
    tag = t[len('struct '):].strip() if t.startswith('struct ') else t
    u = vd.unit
    if t.startswith('union ') or 'union ' in _unq(vd.type or ''):
        return None
    for k in (tag, _unq(vd.type or '')):
        if k in u.records:
            return [(f[0], not _unq(f[1]).endswith(']')) for f in u.records[k]]
    return None


def _for_slots(n):
    raw = n.d.get('inner', [])
    slots, itr = [], iter(n.inner)
    for r in raw:
        slots.append(next(itr) if (isinstance(r, dict) and r) else None)
    while len(slots) < 5:
        slots.append(None)
    return slots


def _meet(a, b):
    if a is None:
        return b
    if b is None:
        return a
    return a & b


class _Frame:
    __slots__ = ('kind', 'breaks', 'conts', 'sw_in', 'has_default')

    def __init__(self, kind, sw_in=None):
        self.kind = kind
        self.breaks = None
        self.conts = None
        self.sw_in = sw_in
        self.has_default = False


class FnDA:
    """one run of the analysis over one function body"""

    def __init__(self, world, u, fname, fd):
        self.W = world
        self.u, self.fname, self.fd = u, fname, fd
        self.tracked = {}       # VarDecl id -> (VarDecl, class, fields or None)
        self.params = {}        # ParmVarDecl id -> index (pointer parameters only, never reassigned / address-taken)
        self.reads = []         # (node, var name, part, reason)
        self.ok_reads = 0
        self.nplaces = 0
        self.label_in = {}
        self.returns = None     # meet of the states at return statements / the end of the body
        self.returned = False
        self.frames = []
        self.how = {}           # VarDecl id -> remark about an address that was handed on
        self.aliased = {}       # VarDecl id -> unqualified type, for tracked locals whose address is kept in a pointer (not just handed to a call)
        body = None
        idx = 0
        for c in fd.inner:
            if c.kind == 'ParmVarDecl':
                if _unq(c.dtype or c.type).endswith('*'):
                    self.params[c.id] = idx
                idx += 1
            elif c.kind == 'CompoundStmt':
                body = c
        self.body = body
        if body is None:
            return
        for n in body.walk():
            if n.kind == 'VarDecl' and n.d.get('storageClass') not in ('static', 'extern') and 'init' not in n.d:
                cl = place_class(n)
                if cl == 'record':
                    fl = _record_fields(n)
                    if fl is None:
                        continue
                    self.tracked[n.id] = (n, cl, fl)
                    self.nplaces += 1
                elif cl == 'scalar':
                    self.tracked[n.id] = (n, cl, None)
                    self.nplaces += 1
            # a pointer parameter that is changed or whose address is taken no longer names the caller's object
            if (n.kind == 'BinaryOperator' and n.opcode == '=') or n.kind == 'CompoundAssignOperator' or (n.kind == 'UnaryOperator' and n.opcode in ('++', '--', '&')):
                t = n.inner[0].strip() if n.inner else None
                if t is not None and t.kind == 'DeclRefExpr' and t.ref_id in self.params:
                    del self.params[t.ref_id]

        for n in body.walk():
            if n.kind == 'UnaryOperator' and n.opcode == '&' and n.inner:
                r = n.inner[0]
                while r.kind in ('ParenExpr', 'MemberExpr', 'ArraySubscriptExpr') and r.inner and not (r.kind == 'MemberExpr' and r.d.get('isArrow')):
                    r = r.inner[0].strip() if r.kind == 'ArraySubscriptExpr' else r.inner[0]
                if not (r.kind == 'DeclRefExpr' and r.ref_id in self.tracked and r is n.inner[0].strip()):
                    continue
                cur, par = n, n.parent
                while par is not None and par.kind in ('ImplicitCastExpr', 'ParenExpr', 'CStyleCastExpr'):
                    cur, par = par, par.parent
                if par is not None and par.kind == 'CallExpr' and par.inner and par.inner[0] is not cur:
                    continue
                vd0 = self.tracked[r.ref_id][0]
                self.aliased[r.ref_id] = set(_bare(x) for x in (vd0.dtype, vd0.type) if x)

    # ---- places
    def _all_of(self, vid):
        vd, cl, fl = self.tracked[vid]
        if cl == 'scalar':
            return frozenset([vid])
        return frozenset([(vid, '*')] + [(vid, f) for f, ok in fl if ok])

    def _lv_place(self, lv):
        """(var id, member or None, exact) for an lvalue expression that names a tracked local or a part of it; None otherwise.
        exact: the expression is the place itself (not a part of a member)"""
        n = lv
        chain = []
        while True:
            if n.kind == 'ParenExpr' and n.inner:
                n = n.inner[0]
            elif n.kind == 'MemberExpr' and not n.d.get('isArrow') and n.inner:
                chain.append(n.name); n = n.inner[0]
            elif n.kind == 'ArraySubscriptExpr' and n.inner:
                b = n.inner[0]
                if b.kind == 'ImplicitCastExpr' and b.cast_kind == 'ArrayToPointerDecay' and b.inner:
                    chain.append('[]'); n = b.inner[0]
                else:
                    return None
            elif n.kind == 'DeclRefExpr':
                break
            else:
                return None
        if n.ref_id in self.tracked:
            vd, cl, fl = self.tracked[n.ref_id]
            if cl == 'scalar':
                return (n.ref_id, None, not chain)
            if not chain:
                return (n.ref_id, None, True)
            m = chain[-1]
            if m == '[]' or not any(f == m and ok for f, ok in fl):
                return (n.ref_id, '#untracked', False)
            return (n.ref_id, m, len(chain) == 1)
        if n.ref_id in self.params and not chain:
            return None
        return None

    def _deref_param(self, lv):
        """index of the pointer parameter p when lv is `*p` / `p[0]` (the caller's object as a whole), else None"""
        n = lv
        while n.kind == 'ParenExpr' and n.inner:
            n = n.inner[0]
        if n.kind == 'UnaryOperator' and n.opcode == '*' and n.inner:
            t = n.inner[0].strip()
            if t.kind == 'DeclRefExpr' and t.ref_id in self.params:
                return self.params[t.ref_id]
        if n.kind == 'ArraySubscriptExpr' and len(n.inner) == 2:
            t = n.inner[0].strip()
            if t.kind == 'DeclRefExpr' and t.ref_id in self.params and n.inner[1].int_value() == 0:
                return self.params[t.ref_id]
        return None

    def _param_field(self, lv):
        """(parameter index, first-level member or None for the whole object, exact) when lv is `p->m...` / `*p` on an unchanged pointer parameter p"""
        n = lv
        chain = []
        while True:
            if n.kind == 'ParenExpr' and n.inner:
                n = n.inner[0]
            elif n.kind == 'MemberExpr' and n.inner:
                chain.append(n.name)
                if n.d.get('isArrow'):
                    t = n.inner[0].strip()
                    if t.kind == 'DeclRefExpr' and t.ref_id in self.params:
                        return (self.params[t.ref_id], chain[-1], len(chain) == 1)
                    return None
                n = n.inner[0]
            elif n.kind == 'ArraySubscriptExpr' and n.inner:
                b = n.inner[0]
                if b.kind == 'ImplicitCastExpr' and b.cast_kind == 'ArrayToPointerDecay' and b.inner:
                    return None         # an element of an array member: arrays are not followed
                return None
            else:
                break
        i = self._deref_param(n)
        if i is not None:
            return (i, chain[-1] if chain else None, not chain)
        return None

    def _write(self, lv, s):
        if s is None:
            return None
        r = lv.strip()
        if r.kind == 'DeclRefExpr':
            dead = [x for x in s if isinstance(x, tuple) and x[0] == 'le' and r.ref_id in x[1:]]
            if dead:
                s = s - frozenset(dead)
        p = self._lv_place(lv)
        if p is not None:
            vid, m, exact = p
            if not exact or m == '#untracked':
                return s
            if m is None:
                return s | self._all_of(vid)
            return s | frozenset([(vid, m)])
        i = self._deref_param(lv)
        if i is not None:
            return s | frozenset([('param', i)])
        pf = self._param_field(lv)
        if pf is not None and pf[2] and pf[1] is not None:
            return s | frozenset([('pf', pf[0], pf[1])])
        if self.aliased:
            # a store through a pointer of the object's type counts as a store into a local whose address is kept in such a pointer
            # (which object the pointer designates is not followed: this errs on the side of 'written')
            n = lv
            while n.kind == 'ParenExpr' and n.inner:
                n = n.inner[0]
            if n.kind == 'MemberExpr' and n.d.get('isArrow') and n.inner:
                bt = _unq(n.inner[0].dtype or n.inner[0].type)
                for vid, t in self.aliased.items():
                    if bt.endswith('*') and _bare(bt[:-1]) in t and any(f == n.name and ok for f, ok in (self.tracked[vid][2] or ())):
                        s = s | frozenset([(vid, n.name)])
            elif n.kind == 'UnaryOperator' and n.opcode == '*' and n.inner:
                bt = _unq(n.inner[0].dtype or n.inner[0].type)
                for vid, t in self.aliased.items():
                    if bt.endswith('*') and _bare(bt[:-1]) in t:
                        s = s | self._all_of(vid)
        return s

    def _check_read(self, lv, s, node):
        if s is None:
            return
        p = self._lv_place(lv)
        if p is None:
            pf = self._param_field(lv)
            if pf is not None and ('param', pf[0]) not in s and (pf[1] is None or ('pf', pf[0], pf[1]) not in s):
                # the caller's object is read before this function stored into it: the caller must have written it
                self.requires.add((pf[0], pf[1]))
            return
        vid, m, exact = p
        vd, cl, fl = self.tracked[vid]
        if m == '#untracked':
            return
        if cl == 'scalar':
            ok = vid in s
            part = None
        elif m is None:
            # the whole struct is copied: every tracked member must have been written
            missing = [f for f, t in fl if t and (vid, f) not in s]
            ok = (vid, '*') in s or not missing
            part = None if ok else 'members-' + '+'.join(missing[:3])
        else:
            ok = (vid, m) in s or (vid, '*') in s
            part = m
        if ok:
            self.ok_reads += 1
        else:
            self.reads.append((node, vd.name, part, self.how.get(vid)))

    # ---- expressions
    def ev(self, e, s):
        k = e.kind
        if k in ('UnaryExprOrTypeTraitExpr', 'OffsetOfExpr', 'IntegerLiteral', 'StringLiteral', 'CharacterLiteral', 'FloatingLiteral'):
            return s
        if k == 'ImplicitCastExpr' and e.cast_kind == 'LValueToRValue' and e.inner:
            lv = e.inner[0]
            s = self._ev_lvalue(lv, s)
            self._check_read(lv, s, e)
            return s
        if k == 'BinaryOperator':
            op = e.opcode
            if op == '=':
                s = self.ev(e.inner[1], s)
                s = self._ev_lvalue(e.inner[0], s)
                return self._write(e.inner[0], s)
            if op in ('&&', '||'):
                t, f = self.cond(e, s)
                return _meet(t, f)
            if op == ',':
                return self.ev(e.inner[1], self.ev(e.inner[0], s))
            return self.ev(e.inner[1], self.ev(e.inner[0], s))
        if k == 'CompoundAssignOperator':
            s = self.ev(e.inner[1], s)
            s = self._ev_lvalue(e.inner[0], s)
            self._check_read(e.inner[0], s, e)
            return self._write(e.inner[0], s)
        if k == 'UnaryOperator':
            op = e.opcode
            if op in ('++', '--'):
                s = self._ev_lvalue(e.inner[0], s)
                self._check_read(e.inner[0], s, e)
                return self._write(e.inner[0], s)
            if op == '&':
                p = self._lv_place(e.inner[0])
                if p is not None:
                    self.how.setdefault(p[0], 'its address is taken (%s) but no write through that address is certain' % e.src()[:40])
                return self._ev_lvalue(e.inner[0], s)
            if op == '!':
                t, f = self.cond(e, s)
                return _meet(t, f)
        if k in ('ConditionalOperator', 'BinaryConditionalOperator') and len(e.inner) == 3:
            t, f = self.cond(e.inner[0], s)
            return _meet(self.ev(e.inner[1], t), self.ev(e.inner[2], f))
        if k == 'CallExpr':
            return self._call(e, s)
        if k == 'StmtExpr':
            for c in e.inner:
                s = self.stmt(c, s)
            return s
        for c in e.inner:
            if c.kind.endswith('Expr') or c.kind.endswith('Operator') or c.kind.endswith('Literal'):
                s = self.ev(c, s)
        return s

    def _ev_lvalue(self, lv, s):
        """evaluate the sub-expressions of an lvalue that are read (index, pointer operand), not the designated object itself"""
        n = lv
        while True:
            if n.kind == 'ParenExpr' and n.inner:
                n = n.inner[0]
            elif n.kind == 'MemberExpr' and not n.d.get('isArrow') and n.inner:
                n = n.inner[0]
            elif n.kind == 'ArraySubscriptExpr' and len(n.inner) == 2:
                b = n.inner[0]
                s = self.ev(n.inner[1], s)
                if b.kind == 'ImplicitCastExpr' and b.cast_kind == 'ArrayToPointerDecay' and b.inner:
                    n = b.inner[0]
                else:
                    return self.ev(b, s)
            elif n.kind == 'DeclRefExpr':
                return s
            else:
                return self.ev(n, s)

    def _addr_arg(self, a):
        """the lvalue x when the argument is `&x` (through casts / parentheses), else None"""
        n = a
        while n.kind in ('ImplicitCastExpr', 'ParenExpr', 'CStyleCastExpr') and n.inner:
            if n.kind == 'ImplicitCastExpr' and n.cast_kind == 'LValueToRValue':
                return None
            n = n.inner[-1]
        if n.kind == 'UnaryOperator' and n.opcode == '&' and n.inner:
            return n.inner[0]
        return None

    def _call(self, e, s):
        cal = e.callee()
        args = e.args()
        if cal is None and e.inner:
            s = self.ev(e.inner[0], s)
        ck = self.W.k(self.u, cal) if cal is not None else None
        writes = self.W.writes.get(ck, ()) if cal is not None else ()
        after = []
        req = self.W.requires.get(ck, ()) if cal is not None else ()
        wf = self.W.wfields.get(ck, ()) if cal is not None else ()
        for i, a in enumerate(args):
            lv = self._addr_arg(a)
            if lv is not None and s is not None and lv.strip().kind == 'DeclRefExpr':
                # whoever gets the address may change the object: an order known of it is known no longer
                dead = [x for x in s if isinstance(x, tuple) and x[0] == 'le' and lv.strip().ref_id in x[1:]]
                if dead:
                    s = s - frozenset(dead)
            if lv is not None and (self._lv_place(lv) is not None):
                s = self._ev_lvalue(lv, s)
                p = self._lv_place(lv)
                if s is not None and p[2] and p[1] is None:
                    vd, cl, fl = self.tracked[p[0]]
                    for (j, f) in sorted(req, key=str):
                        if j != i:
                            continue
                        if cl == 'scalar':
                            ok = f is None and p[0] in s
                            if f is not None:
                                continue
                        elif f is None:
                            ok = (p[0], '*') in s or all((p[0], g) in s for g, t in fl if t)
                        else:
                            if not any(g == f and t for g, t in fl):
                                continue
                            ok = (p[0], f) in s or (p[0], '*') in s
                        if ok:
                            self.ok_reads += 1
                        else:
                            self.reads.append((e, vd.name, f, '%s() reads it through the address it is given' % cal))
                    if cl == 'record':
                        for (j, f) in wf:
                            if j == i and any(g == f and t for g, t in fl):
                                after.append(('field', p[0], f))
                if i in writes:
                    after.append(lv)
                else:
                    self.how.setdefault(p[0], 'its address is handed to %s(), which does not write through it on every path' % (cal or 'a function pointer'))
                continue
            # a pointer parameter handed on unchanged: the callee's writes are writes to the caller's object
            t = a.strip()
            if t.kind == 'DeclRefExpr' and t.ref_id in self.params:
                me = self.params[t.ref_id]
                if s is not None and ('param', me) not in s:
                    for (j, f) in req:
                        if j == i and (f is None or ('pf', me, f) not in s):
                            self.requires.add((me, f))
                for (j, f) in wf:
                    if j == i:
                        after.append(('pf', me, f))
                if i in writes:
                    after.append(('param', me))
                    continue
            s = self.ev(a, s)
        if s is None:
            return None
        if cal is not None and ck in self.W.noreturn:
            return None
        for lv in after:
            if isinstance(lv, tuple) and lv[0] == 'field':
                s = s | frozenset([(lv[1], lv[2])])
            elif isinstance(lv, tuple):
                s = s | frozenset([lv])
            else:
                s = self._write(lv, s)
        # the callee leaves *a <= *b behind for two of its out-parameters: remember it for the two locals (until either is written again)
        for (i, j) in self.W.ordered.get(ck, ()) if cal is not None else ():
            if i < len(args) and j < len(args):
                a, b = self._addr_arg(args[i]), self._addr_arg(args[j])
                a = a.strip() if a is not None else None
                b = b.strip() if b is not None else None
                if a is not None and b is not None and a.kind == 'DeclRefExpr' and b.kind == 'DeclRefExpr' and a.ref_id != b.ref_id:
                    s = s | frozenset([('le', a.ref_id, b.ref_id)])
        return s

    def cond(self, e, s):
        if s is None:
            return (None, None)
        n = e
        while n.kind in ('ParenExpr', 'ImplicitCastExpr', 'ConstantExpr') and n.inner and not (n.kind == 'ImplicitCastExpr' and n.cast_kind == 'LValueToRValue'):
            n = n.inner[0]
        if n.kind == 'UnaryOperator' and n.opcode == '!':
            t, f = self.cond(n.inner[0], s)
            return (f, t)
        if n.kind == 'BinaryOperator' and n.opcode == '&&':
            t1, f1 = self.cond(n.inner[0], s)
            t2, f2 = self.cond(n.inner[1], t1)
            return (t2, _meet(f1, f2))
        if n.kind == 'BinaryOperator' and n.opcode == '||':
            t1, f1 = self.cond(n.inner[0], s)
            t2, f2 = self.cond(n.inner[1], f1)
            return (_meet(t1, t2), f2)
        if n.kind in ('IntegerLiteral', 'CharacterLiteral'):
            v = n.int_value()
            return (s, None) if v else (None, s)
        s2 = self.ev(n, s)
        ck = self.W.k(self.u, n.callee()) if n.kind == 'CallExpr' and n.callee() else None
        if ck is not None and s2 is not None and ck in self.W.writes_true:
            # the callee stores through these parameters on every path on which it returns non-zero
            t = s2
            for i in self.W.writes_true[ck]:
                if i >= len(n.args()):
                    continue
                a = n.args()[i]
                lv = self._addr_arg(a)
                if lv is not None and self._lv_place(lv) is not None:
                    t = self._write(lv, t)
                elif a.strip().kind == 'DeclRefExpr' and a.strip().ref_id in self.params:
                    t = t | frozenset([('param', self.params[a.strip().ref_id])])
            return (t, s2)
        return (s2, s2)

    # ---- statements
    def _runs_once(self, ini, c, s):
        """`for (j = lo; j <= hi; ...)` entered in a state that knows lo <= hi: the body runs at least once"""
        if ini is None or c is None:
            return False
        jv = lo = None
        if ini.kind == 'DeclStmt' and len(ini.inner) == 1 and ini.inner[0].kind == 'VarDecl' and 'init' in ini.inner[0].d:
            x = [y for y in ini.inner[0].inner if not y.kind.endswith('Attr')]
            jv, lo = ini.inner[0].id, (x[-1].strip() if x else None)
        elif ini.kind == 'BinaryOperator' and ini.opcode == '=':
            l = ini.inner[0].strip()
            jv, lo = (l.ref_id if l.kind == 'DeclRefExpr' else None), ini.inner[1].strip()
        cc = c.strip()
        if jv is None or lo is None or lo.kind != 'DeclRefExpr' or cc.kind != 'BinaryOperator' or cc.opcode != '<=':
            return False
        a, b = cc.inner[0].strip(), cc.inner[1].strip()
        if not (a.kind == 'DeclRefExpr' and a.ref_id == jv and b.kind == 'DeclRefExpr'):
            return False
        return ('le', lo.ref_id, b.ref_id) in s

    def _loop_frame(self):
        for f in reversed(self.frames):
            if f.kind == 'loop':
                return f
        return None

    def stmt(self, n, s):
        k = n.kind
        if k == 'CompoundStmt':
            for c in n.inner:
                s = self.stmt(c, s)
            return s
        if k == 'DeclStmt':
            for c in n.inner:
                if c.kind != 'VarDecl':
                    continue
                if c.id in self.tracked:
                    if s is not None:
                        s = s - self._all_of(c.id)
                    continue
                if 'init' in c.d and c.d.get('storageClass') != 'static':
                    ini = [x for x in c.inner if not x.kind.endswith('Attr')]
                    if ini:
                        s = self.ev(ini[-1], s)
            return s
        if k == 'IfStmt':
            t, f = self.cond(n.inner[0], s)
            a = self.stmt(n.inner[1], t)
            b = self.stmt(n.inner[2], f) if len(n.inner) > 2 else f
            return _meet(a, b)
        if k == 'WhileStmt':
            t, f = self.cond(n.inner[0], s)
            fr = _Frame('loop'); self.frames.append(fr)
            self.stmt(n.inner[1], t)
            self.frames.pop()
            return _meet(f, fr.breaks)
        if k == 'DoStmt':
            fr = _Frame('loop'); self.frames.append(fr)
            b = self.stmt(n.inner[0], s)
            self.frames.pop()
            t, f = self.cond(n.inner[1], _meet(b, fr.conts))
            return _meet(f, fr.breaks)
        if k == 'ForStmt':
            ini, cv, c, inc, body = _for_slots(n)[:5]
            if ini is not None:
                s = self.stmt(ini, s)
            if c is not None:
                t, f = self.cond(c, s)
            else:
                t, f = s, None
            fr = _Frame('loop'); self.frames.append(fr)
            b = self.stmt(body, t) if body is not None else t
            self.frames.pop()
            if inc is not None:
                self.ev(inc, _meet(b, fr.conts))
            if s is not None and self._runs_once(ini, c, s):
                self.once_loops += 1
                return _meet(_meet(b, fr.conts), fr.breaks)
            return _meet(f, fr.breaks)
        if k == 'SwitchStmt':
            s1 = self.ev(n.inner[0], s)
            fr = _Frame('switch', sw_in=s1); self.frames.append(fr)
            out = self.stmt(n.inner[-1], None)
            self.frames.pop()
            out = _meet(out, fr.breaks)
            if not fr.has_default:
                out = _meet(out, s1)
            return out
        if k in ('CaseStmt', 'DefaultStmt'):
            fr = None
            for f in reversed(self.frames):
                if f.kind == 'switch':
                    fr = f; break
            if fr is not None:
                s = _meet(s, fr.sw_in)
                if k == 'DefaultStmt':
                    fr.has_default = True
            return self.stmt(n.inner[-1], s)
        if k == 'BreakStmt':
            if self.frames and s is not None:
                fr = self.frames[-1]
                fr.breaks = s if fr.breaks is None else (fr.breaks & s)
            return None
        if k == 'ContinueStmt':
            fr = self._loop_frame()
            if fr is not None and s is not None:
                fr.conts = s if fr.conts is None else (fr.conts & s)
            return None
        if k == 'ReturnStmt':
            for c in n.inner:
                s = self.ev(c, s)
            if s is not None:
                self.returned = True
                self.returns = s if self.returns is None else (self.returns & s)
                if not (n.inner and n.inner[0].int_value() == 0):
                    self.returns_true = s if self.returns_true is None else (self.returns_true & s)
            return None
        if k == 'GotoStmt':
            lid = n.d.get('targetLabelDeclId')
            if s is not None:
                self.label_in[lid] = s if self.label_in.get(lid) is None else (self.label_in[lid] & s)
            return None
        if k == 'LabelStmt':
            lid = n.d.get('declId')
            s = _meet(s, self.prev_label_in.get(lid))
            for c in n.inner:
                s = self.stmt(c, s)
            return s
        if k in ('NullStmt', 'GCCAsmStmt'):
            return s
        if k == 'AttributedStmt':
            for c in n.inner:
                if not c.kind.endswith('Attr'):
                    s = self.stmt(c, s)
            return s
        if k == 'IndirectGotoStmt':
            return None
        return self.ev(n, s)

    def run(self):
        """-> (set of parameter indices written on every returning path, returns at all?)"""
        if self.body is None:
            return (frozenset(), True)
        self.prev_label_in = {}
        for _ in range(8):
            self.reads = []; self.ok_reads = 0; self.how = {}; self.once_loops = 0; self.requires = set()
            self.label_in = {}; self.returns = None; self.returns_true = None; self.returned = False; self.frames = []
            end = self.stmt(self.body, frozenset())
            if end is not None:
                self.returned = True
                self.returns = end if self.returns is None else (self.returns & end)
            if self.label_in == self.prev_label_in:
                break
            self.prev_label_in = dict(self.label_in)
        else:
            self.unstable = True
        ws = frozenset(p[1] for p in (self.returns or ()) if isinstance(p, tuple) and p[0] == 'param')
        self.wf = frozenset((p[1], p[2]) for p in (self.returns or ()) if isinstance(p, tuple) and p[0] == 'pf')
        self.ws_true = frozenset(p[1] for p in (self.returns_true or ()) if isinstance(p, tuple) and p[0] == 'param')
        return (ws, self.returned)


def _single_assignment_local(fd, ref):
    """the DeclRefExpr names a local that gets its value from its initialiser and is never changed or address-taken"""
    if ref.kind != 'DeclRefExpr' or ref.ref_kind not in ('VarDecl', 'ParmVarDecl'):
        return False
    decl = [n for n in fd.walk() if n.kind in ('VarDecl', 'ParmVarDecl') and n.id == ref.ref_id]
    if not decl or decl[0].d.get('storageClass') in ('static', 'extern') or (decl[0].kind == 'VarDecl' and 'init' not in decl[0].d):
        return False
    for n in fd.walk():
        if (n.kind == 'BinaryOperator' and n.opcode == '=') or n.kind == 'CompoundAssignOperator' or (n.kind == 'UnaryOperator' and n.opcode in ('++', '--', '&')):
            t = n.inner[0].strip() if n.inner else None
            if t is not None and t.kind == 'DeclRefExpr' and t.ref_id == ref.ref_id:
                return False
    return True


def _ordered_pairs(W, u, fname, fd):
    """{(i, j)}: the function stores L through parameter i once, unconditionally, and every store through parameter j is `*p_i` itself or a local H
    for which an earlier statement of the same block ends the run when H < L (L, H: locals that keep the value of their initialiser).
    The order of L and H is taken to survive the conversion to the parameter's element type (both are array positions checked against one length)."""
    a = FnDA(W, u, fname, fd)
    if a.body is None or len(a.params) < 2:
        return set()
    stores = {}
    order = {}
    for n in a.body.walk():
        order[id(n)] = len(order)
        if n.kind == 'BinaryOperator' and n.opcode == '=':
            i = a._deref_param(n.inner[0])
            if i is not None:
                stores.setdefault(i, []).append(n)
    out = set()
    for i, si in stores.items():
        if len(si) != 1 or si[0].parent is not a.body:
            continue
        L = si[0].inner[1].strip_all()
        if not _single_assignment_local(fd, L):
            continue
        for j, sj in stores.items():
            if j == i:
                continue
            good = True
            for st in sj:
                if order[id(st)] < order[id(si[0])]:
                    good = False; break
                r = st.inner[1].strip_all()
                if a._deref_param(r) == i:
                    continue
                if not _single_assignment_local(fd, r):
                    good = False; break
                blk = st.parent
                guarded = False
                if blk is not None and blk.kind == 'CompoundStmt':
                    for sib in blk.inner:
                        if sib is st:
                            break
                        if sib.kind != 'IfStmt' or len(sib.inner) != 2:
                            continue
                        c = sib.inner[0].strip()
                        if c.kind != 'BinaryOperator' or c.opcode not in ('<', '>'):
                            continue
                        x, y = c.inner[0].strip(), c.inner[1].strip()
                        if c.opcode == '>':
                            x, y = y, x
                        if not (x.kind == 'DeclRefExpr' and y.kind == 'DeclRefExpr' and x.ref_id == r.ref_id and y.ref_id == L.ref_id):
                            continue
                        body = sib.inner[1]
                        while body.kind == 'CompoundStmt' and len(body.inner) == 1:
                            body = body.inner[0]
                        if body.kind == 'CallExpr' and body.callee() and W.k(u, body.callee()) in W.noreturn:
                            guarded = True
                if not guarded:
                    good = False; break
            if good and sj:
                out.add((i, j))
    return out


class World:
    def k(self, u, name):
        if (u.name, name) in self.multi:
            return '%s/%s' % (u.name, name)
        if name in self.multi_names:
            return '?/%s' % name       # called from a unit that does not define it: which definition is meant is not resolved, no summary
        return name

    """whole-program summaries: writes[f] = parameter positions f stores through on every returning path; noreturn = functions that never return"""

    def __init__(self, units):
        self.units = units
        self.writes = dict(LIBC_WRITES)
        self.noreturn = set(NORETURN_LIBC)
        self.writes_true = {}   # function -> parameter positions stored through on every path that returns a value other than the constant 0
        self.requires = {}      # function -> {(i, member | None)}: on some path the object behind parameter i (its member) is read before the function stored into it
        self.wfields = {}       # function -> {(i, member)}: stored into on every returning path
        self.ordered = {}       # function -> {(i, j)}: on every return *param_i <= *param_j
        self.fns = []
        seen = set()
        cnt = {}
        for u in units:
            for fname in u.functions:
                cnt.setdefault(fname, []).append(u.name)
        # a name defined in several units (file-scope statics): each unit's calls go to its own definition
        self.multi = set((un, f) for f, uns in cnt.items() if len(uns) > 1 for un in uns)
        self.multi_names = set(f for (un, f) in self.multi)
        for u in units:
            for name, fdl in u.fdecls.items():
                if 'noreturn' in (fdl.type or '') or any(c.kind in ('NoReturnAttr', 'C11NoReturnAttr') for c in fdl.inner):
                    self.noreturn.add(name)
            for fname0, fd in u.functions.items():
                fname = self.k(u, fname0)
                if 'noreturn' in (fd.type or '') or any(c.kind in ('NoReturnAttr', 'C11NoReturnAttr') for c in fd.inner):
                    self.noreturn.add(fname)
                self.fns.append((u, fname0, fd))
                # greatest fixpoint: 'stores through parameter i on every RETURNING path' may assume the same of the calls it makes (induction on
                # the depth of the recursion of a terminating call); start from every pointer parameter and take summaries down
                idx, ptrs = 0, []
                for c in fd.inner:
                    if c.kind == 'ParmVarDecl':
                        if _unq(c.dtype or c.type).endswith('*'):
                            ptrs.append(idx)
                        idx += 1
                if fname not in seen:
                    seen.add(fname)
                    self.writes[fname] = frozenset(ptrs)
                else:
                    self.writes[fname] = self.writes[fname] & frozenset(ptrs)
        self.rounds = 0
        changed = True
        while changed and self.rounds < 40:
            changed = False
            self.rounds += 1
            per = {}
            for (u, fname0, fd) in self.fns:
                fname = self.k(u, fname0)
                a = FnDA(self, u, fname0, fd)
                ws, returns = a.run()
                per.setdefault(fname, []).append((ws, returns, a.body is not None))
                if a.body is not None:
                    wt = getattr(a, 'ws_true', frozenset()) - ws
                    old = self.writes_true.get(fname)
                    if len(per[fname]) > 1 and old is not None:
                        wt = wt & old
                    if (wt or old) and wt != old:
                        self.writes_true[fname] = wt; changed = True
            for fname, lst in per.items():
                if fname in self.noreturn:
                    continue
                if all(b and not r for (w, r, b) in lst):
                    self.noreturn.add(fname); changed = True
                    continue
                ws = None
                for (w, r, b) in lst:
                    if r:
                        ws = w if ws is None else (ws & w)
                ws = (ws or frozenset()) & self.writes.get(fname, frozenset())
                if ws != self.writes.get(fname):
                    self.writes[fname] = ws; changed = True
        self.stable = not changed
        # members stored through a parameter on every returning path (least fixpoint), then what is read through a parameter before it is stored (least fixpoint)
        for table in ('wfields', 'requires'):
            changed, n = True, 0
            while changed and n < 40:
                changed = False; n += 1
                per = {}
                for (u, fname0, fd) in self.fns:
                    fname = self.k(u, fname0)
                    a = FnDA(self, u, fname0, fd)
                    ws, returns = a.run()
                    if a.body is None:
                        continue
                    if table == 'wfields':
                        if returns:
                            per[fname] = a.wf if fname not in per else (per[fname] & a.wf)
                    else:
                        per[fname] = per.get(fname, frozenset()) | frozenset(a.requires)
                tab = getattr(self, table)
                for fname, v in per.items():
                    if v != tab.get(fname, frozenset()):
                        tab[fname] = v | tab.get(fname, frozenset()) if table == 'requires' else v
                        changed = True
            self.stable = self.stable and not changed
        for (u, fname, fd) in self.fns:
            o = _ordered_pairs(self, u, fname, fd)
            if o:
                self.ordered[self.k(u, fname)] = o

    def results(self):
        for (u, fname, fd) in self.fns:
            a = FnDA(self, u, fname, fd)
            a.run()
            yield (u, fname, fd, a)
