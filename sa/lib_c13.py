"""Guard-fact engine for C13 (private helper of sa/rules/c13.py).

A forward, path-sensitive (bounded disjunctive) analysis over clang's typed AST
of one function.  It tracks, per access path (`node->lhs->ty`, `*label`, a
local, a global), two kinds of facts that the code itself establishes:

  * nullness   NN (tested / dereferenced / address-of), NULL (tested null or
               assigned a null constant), N (may be null: value comes from a
               nullable source), U (assigned something unknown)
  * value sets for enum-/int-typed paths (`x->kind in {TY_PTR, TY_ARRAY}`)

Facts come from `if`, `switch`, `&&`, `||`, `?:`, `!`, `== / !=`, early
`return`, calls to noreturn functions (`error*`, `exit`, `__assert_fail`...),
loops (fixpoint with widening).  Assignments kill every fact on the assigned
path and its extensions and copy the facts of the right-hand side path
(`lhs = rhs` renames).  Calls kill paths rooted at variables passed by address
and at globals the callee assigns directly.

Integer values of the input (W.zero_fields, functions derived to return them, parameters that receive them unchecked) are
tracked with the same nullness lattice (N = may be 0, NN = tested non-zero): `note_div` classifies the divisor of every
integer division, `mustdiv` summarises parameters a function divides by, tests of evaluator results (W.evaluators) are
remembered in St.pc as 'value-of(<node path>)' outcomes, and boolean flags that are only set for validated kinds
(derive_flag_kinds) refine the owner's kind where they are tested.

Nothing here looks at source text, line numbers or identifier spelling of
locals: paths are rooted at declaration ids; keys render roots by their type.
"""
from .build import AnalysisBroken

CAP = 24          # max disjuncts kept per program point
LOOP_ROUNDS = 3   # loop iterations with full disjuncts before widening

NORETURN_LIBC = frozenset(['exit', '_exit', '_Exit', 'abort', '__assert_fail', 'quick_exit', 'longjmp', '__builtin_unreachable', '__builtin_trap'])

# libc functions that read through these pointer arguments unconditionally
LIBC_MUSTDEREF = {
    'strlen': (0,), 'strcmp': (0, 1), 'strncmp': (0, 1), 'strcasecmp': (0, 1), 'strncasecmp': (0, 1),
    'memcmp': (0, 1), 'memcpy': (0, 1), 'strdup': (0,), 'strndup': (0,), 'strchr': (0,), 'strrchr': (0,),
    'strstr': (0, 1), 'strcpy': (0, 1), 'strcat': (0, 1), 'strncpy': (0, 1), 'atoi': (0,), 'strtoul': (0,), 'strtol': (0,),
    'strtod': (0,), 'strtold': (0,), 'fclose': (0,), 'fputs': (0, 1), 'fprintf': (0, 1), 'vfprintf': (0, 1),
    'printf': (0,), 'puts': (0,), 'fputc': (1,), 'getc': (0,), 'fgetc': (0,), 'fread': (0, 3), 'fwrite': (0, 3),
    'sprintf': (0, 1), 'snprintf': (2,), 'execvp': (0, 1), 'getline': (0, 1, 2), 'ftell': (0,), 'fseek': (0,),
    'fileno': (0,), 'ferror': (0,), 'feof': (0,),
}
LIBC_NULLABLE_RET = frozenset(['strchr', 'strrchr', 'strstr', 'memchr', 'strpbrk', 'fopen', 'fdopen', 'getenv', 'fgets',
                               'popen', 'opendir', 'realpath', 'bsearch'])

TRANSPARENT = ('ParenExpr', 'ConstantExpr')


def is_ptr_type(t):
    return bool(t) and t.rstrip().endswith('*')


def is_int_type(n):
    """the expression node has an integer type (not floating, not a pointer)"""
    t = (n.dtype or n.type or '')
    return bool(t) and 'double' not in t and 'float' not in t and '*' not in t and '[' not in t and '(' not in t


def rec_of(t):
    """record/typedef name a (pointer-to-)struct type is spelled with, else None"""
    if not t:
        return None
    s = t.replace('const ', '').replace('struct ', '').replace('union ', '').strip()
    while s.endswith('*'):
        s = s[:-1].strip()
    if not s or ' ' in s or '(' in s or '[' in s:
        return None
    return s


def pointee(t):
    s = (t or '').rstrip()
    if s.endswith('*'):
        return s[:-1].rstrip()
    return None


class Val:
    __slots__ = ('path', 'nul', 'src', 'vs', 'const', 'ename', 'rk', 'ctype', 'addr_of', 'objk', 'zp')

    def __init__(self, path=None, nul=None, src=None, vs=None, const=None, ename=None, rk=None, ctype=None, addr_of=None, objk=None, zp=None):
        self.path = path      # access path of the lvalue this value was read from
        self.nul = nul        # None | 'NN' | 'NULL' | 'N' | 'U'
        self.src = src        # provenance of a nullable value: (kind, text)
        self.vs = vs          # value set fact ('in', frozenset) | ('notin', frozenset)
        self.const = const    # concrete int
        self.ename = ename    # enumerator name of the constant
        self.rk = rk          # kind of a freshly constructed object: enumerator name or ('param', i)
        self.ctype = ctype
        self.addr_of = addr_of
        self.objk = objk      # kind of the freshly constructed object this struct value was read from (`*new_x(K)`)
        self.zp = zp          # integer value that is zero exactly when this path is zero (`path * 8`, `-path`)


UNKNOWN = Val()


class St:
    __slots__ = ('nul', 'vs', 'ali', 'pc')

    def __init__(self, nul=None, vs=None, ali=None, pc=None):
        self.nul = nul if nul is not None else {}
        self.vs = vs if vs is not None else {}
        self.ali = ali if ali is not None else {}   # local -> path it was copied from
        self.pc = pc if pc is not None else {}      # pure predicate call -> (truth, arg paths)

    def copy(self):
        return St(dict(self.nul), dict(self.vs), dict(self.ali), dict(self.pc))

    def key(self):
        return (frozenset((k, v[0]) for k, v in self.nul.items()), frozenset(self.vs.items()), frozenset(self.ali.items()),
                frozenset((k, v[0]) for k, v in self.pc.items()))

    def kill(self, p):
        alt = p[:-2] + '->' if p.endswith('[]') else None
        for d in (self.nul, self.vs):
            dead = [q for q in d if _ext(p, q) or (alt and q.startswith(alt))]
            for q in dead:
                del d[q]
        dead = [q for q, o in self.ali.items() if _ext(p, q) or _ext(p, o) or (alt and (q.startswith(alt) or o.startswith(alt)))]
        for q in dead:
            del self.ali[q]
        for q, f in [(q, f) for q, f in self.vs.items() if f[0] == 'rel']:
            r = frozenset(x for x in f[1] if not (_ext(p, x) or (alt and x.startswith(alt))))
            if len(r) != len(f[1]):
                if r:
                    self.vs[q] = ('rel', r)
                else:
                    del self.vs[q]
        if self.pc:
            dead = [k for k, (t, ps) in self.pc.items() if any(_ext(p, q) or (alt and q.startswith(alt)) for q in ps)]
            for k in dead:
                del self.pc[k]

    def copy_facts(self, src, dst):
        if src == dst or _ext(dst, src) or _ext(src, dst):
            return
        n = len(src)
        for d in (self.nul, self.vs):
            add = [(dst + q[n:], v) for q, v in d.items() if _ext(src, q) and q != src]
            for q, v in add:
                d[q] = v


def _ext(p, q):
    """q is p or an extension of p"""
    if not q.startswith(p):
        return False
    return len(q) == len(p) or q[len(p)] in '-.[#'


def _root(q):
    i = 0
    while i < len(q) and q[i] not in '-.[#':
        i += 1
    return q[:i]


def join_states(sts):
    if len(sts) == 1:
        return sts[0]
    first = sts[0]
    nul = {}
    for k, v in first.nul.items():
        vals = [v]
        ok = True
        for s in sts[1:]:
            w = s.nul.get(k)
            if w is None:
                ok = False
                break
            vals.append(w)
        if not ok:
            nul[k] = ('U', None)
            continue
        tags = set(x[0] for x in vals)
        if len(tags) == 1:
            nul[k] = v
        else:
            # the disjuncts disagree: the correlation that tells them apart is lost by this (forced) merge, so the
            # path is "unknown" from here on (never "may be null": a merge must not create an alarm)
            nul[k] = ('U', None)
    for s in sts[1:]:
        for k in s.nul:
            if k not in first.nul:
                nul[k] = ('U', None)
    vs = {}
    for k, v in first.vs.items():
        acc = v
        ok = True
        for s in sts[1:]:
            w = s.vs.get(k)
            if w is None:
                ok = False
                break
            acc = _vs_union(acc, w)
            if acc is None:
                ok = False
                break
        if ok:
            vs[k] = acc
    ali = {k: v for k, v in first.ali.items() if all(s.ali.get(k) == v for s in sts[1:])}
    pc = {k: v for k, v in first.pc.items() if all(s.pc.get(k) == v for s in sts[1:])}
    # did the merge lose a guard (outcome of a pure call, a kind set)?  Then a branch that was infeasible for each disjunct
    # becomes reachable for the merged state: values that "may be NULL" must not be judged there any more.
    lost = any(len(s.pc) != len(pc) for s in sts) or any(k.endswith('->kind') and (k not in vs or vs[k] != s.vs[k]) for s in sts for k in s.vs)
    if lost:
        for k, v in list(nul.items()):
            if v[0] == 'N':
                nul[k] = ('U', None)
    return St(nul, vs, ali, pc)


def _vs_union(a, b):
    if a[0] == 'rel' or b[0] == 'rel':
        # relational bounds (`x#lt` / `x#le`: x is below each of these paths): what holds on both sides
        if a[0] != b[0]:
            return None
        c = a[1] & b[1]
        return ('rel', c) if c else None
    if a[0] == 'in' and b[0] == 'in':
        return ('in', a[1] | b[1])
    if a[0] == 'notin' and b[0] == 'notin':
        c = a[1] & b[1]
        return ('notin', c) if c else None
    i, n = (a, b) if a[0] == 'in' else (b, a)
    c = n[1] - i[1]
    return ('notin', c) if c else None


def norm(sts):
    if len(sts) <= 1:
        return sts
    out = []
    seen = set()
    for s in sts:
        k = s.key()
        if k not in seen:
            seen.add(k)
            out.append(s)
    if len(out) > CAP:
        # too many disjuncts.  First merge states that agree on the facts that matter for the rules (outcomes of repeated
        # pure calls, nullness of values from nullable sources, kind sets); they differ only in incidental flags.
        groups = {}
        for st in out:
            sig = (frozenset((k, v[0]) for k, v in st.pc.items()),
                   frozenset((k, v[0]) for k, v in st.nul.items() if v[1] is not None or v[0] == 'NULL'),
                   frozenset((k, v) for k, v in st.vs.items() if k.endswith('->kind')))
            groups.setdefault(sig, []).append(st)
        out = [join_states(g) if len(g) > 1 else g[0] for g in groups.values()]
    if len(out) > CAP:
        out = [join_states(out)]
    return out


class World:
    """program-wide tables shared by all function analyses"""

    def __init__(self, P):
        self.P = P
        self.units = {n: P.unit(n) for n in P.unit_names}
        self.fn_unit = {}        # function name -> [unit names defining it]
        for un, u in self.units.items():
            for f in u.functions:
                self.fn_unit.setdefault(f, []).append(un)
        self.noreturn = set(NORETURN_LIBC)
        for u in self.units.values():
            for f, fd in u.fdecls.items():
                if any(c.kind in ('C11NoReturnAttr', 'NoReturnAttr') for c in fd.inner):
                    self.noreturn.add(f)
        self.nullable_fields = {}   # (record, field) -> {'implied': (kindfield, frozenset) | None}
        self.nullable_globals = {}  # name -> text
        self.nullable_params = {}   # (fname, i) -> src
        self.nullable_rets = {f: ('ret', 'the result of %s() may be NULL' % f) for f in LIBC_NULLABLE_RET}
        self.mustderef = {}         # (fname, i) -> True
        self.mustnn = {}            # (fname, i) -> 'Record.field': the function stores its i-th parameter, unconditionally, into a pointer field that is not in the nullable
                                    #   table (so every reader takes it for non-null), or hands it on to such a parameter (transitive)
        self.establishes = {}       # (fname, i) -> frozenset of ('->field', 'Record.field') (fields of the nullable table): on every normal return the function has assigned the field
                                    #   of what its i-th parameter points to, or the owner has a kind for which the field is not optional (derived from the return states)
        for f, idx in LIBC_MUSTDEREF.items():
            for i in idx:
                self.mustderef[(f, i)] = True
        self.ret_kind = {}          # fname -> enumerator name | ('param', i)
        self.gwrites = {}           # fname -> set of globals assigned directly
        self.assumed_nonnull = {}   # (unit, function) -> set of type-rooted paths assumed non-null
        self.ret_vals = {}          # fname -> frozenset of enumerators the function can return
        self.global_vals = {}       # global -> frozenset of enumerators it can hold
        self.fact_summ = {}         # fname -> {'T': [disjunct], 'F': [...], 'A': [...]}; disjunct = (nul facts, vs facts) keyed by (param idx, suffix)
        self.end_marker = {}        # record -> (kind field, enumerator of the end marker, link field): lists ended by a marker element, not by NULL
        self.nonempty_strs = set()  # (fname, parameter index): every call passes a non-empty string literal
        self.len_predicates = {}    # fname -> (index of the element parameter, index of the string parameter | None, 'true' | 'return'):
                                    #   the function is true / returns only if the element is not the end marker (with a string: if the string is not empty)
        self.kept = {}              # fname -> {'pred': bool, 'T'|'F'|'A': set of parameter indices the function never stores through on that outcome}
        self.entry_facts = {}       # (unit, fname) -> set of (parameter index, suffix): every caller passes an element that is not the end marker
        self.cursor_compare = {}    # (unit, fname) -> why: in this function `c != e` for two cursors means c is before e in the list (c is not the marker)
        self.zero_fields = {}       # (record, field) -> why: integer fields that hold a value of the input (any value, 0 included)
        self.zero_rets = {}         # fname -> src: integer functions that can return such a value (derived, transitively)
        self.zero_params = {}       # (fname, i) -> src: integer parameters that receive such a value unchecked at some call (used for divisions in the callee only)
        self.mustdiv = {}           # (fname, i) -> True: the function divides by its i-th parameter unconditionally (one-level summaries, transitive)
        self.out_taint = {}         # (fname, i) -> (src, lower bound on every return, upper bound on every return): on every normal return the function has stored a value
                                    #   of the input through its i-th (pointer) parameter; the bounds say whether a test that excludes negative values / that limits it from
                                    #   above dominates every return (derived in solve from the return states; used for host array indices)
        self.flag_kinds = {}        # (record, boolean field) -> {suffix ending in ->kind: kinds}: every store of `true` into the flag happens where the owner's
                                    #   sub-object has one of these kinds (validated at construction); derived by derive_flag_kinds
        self.truth_helpers = {}     # fname -> index of the Node parameter: on every path the function returns 1 exactly where a test of an evaluator's
                                    #   result for that parameter was non-zero, 0 where it was zero (derived in solve from the return states)
        self.evaluators = set()     # functions that compute the value of an expression node (first parameter): outcomes of tests on their results are remembered
        self.enum_universe = {}
        for u in self.units.values():
            for en, names in u.enum_types.items():
                self.enum_universe.setdefault(en, frozenset(names))
        self._scan_gwrites()
        self._scan_len_specs()
        self.recursive = self._recursive_functions()
        self.pure = self._pure_functions()
        # calls whose reaching states are kept for the rules: diagnostics, assertions, constructors, size dispatchers
        self.record_calls = set(['error', 'error_tok', 'warn_tok', 'new_type', '__assert_fail'])
        for u in self.units.values():
            for f, fd in u.functions.items():
                for c in fd.calls('error'):
                    a = c.args()
                    if a and (a[0].str_value() or '').startswith('internal error'):
                        self.record_calls.add(f)

    def nonempty_string_params(self):
        """(function, parameter index) such that every call in the program passes a non-empty string literal (or the caller's
        own parameter with that property); functions whose address is taken are excluded"""
        sites = {}          # (f, i) -> [('lit', bool) | ('param', (g, j)) | ('other',)]
        taken = set()
        for un, u in self.units.items():
            for g, fd in u.functions.items():
                gp = {c.id: k for k, c in enumerate(x for x in fd.inner if x.kind == 'ParmVarDecl')}
                callee_refs = set()
                for c in fd.calls():
                    f = c.callee()
                    if f is None:
                        continue
                    x = c.inner[0].strip_all() if c.inner else None
                    if x is not None:
                        callee_refs.add(id(x))
                    if f not in self.fn_unit:
                        continue
                    for i, a in enumerate(c.args()):
                        if not (a.type or '').replace('const ', '').replace(' ', '').startswith('char*'):
                            continue
                        lit = a.str_value()
                        x = a.strip_all()
                        if lit is not None:
                            sites.setdefault((f, i), []).append(('lit', len(lit) > 0))
                        elif x.kind == 'DeclRefExpr' and x.ref_kind == 'ParmVarDecl' and x.ref_id in gp:
                            sites.setdefault((f, i), []).append(('param', (g, gp[x.ref_id])))
                        else:
                            sites.setdefault((f, i), []).append(('other',))
                for n in fd.walk():
                    if n.kind == 'DeclRefExpr' and n.ref_kind == 'FunctionDecl' and id(n) not in callee_refs:
                        taken.add(n.ref_name)
                # a parameter that the function assigns is not its caller's string any more
                for n in fd.walk():
                    if n.kind in ('BinaryOperator', 'CompoundAssignOperator', 'UnaryOperator') and (n.opcode in ('=', '++', '--') or n.kind == 'CompoundAssignOperator'):
                        t = n.inner[0].strip()
                        if t.kind == 'DeclRefExpr' and t.ref_id in gp:
                            sites.setdefault((g, gp[t.ref_id]), []).append(('other',))
        good = set(k for k, l in sites.items() if k[0] not in taken and len(self.fn_unit.get(k[0], ())) == 1 and all(x[0] != 'other' and x != ('lit', False) for x in l))
        changed = True
        while changed:
            changed = False
            for k in list(good):
                if any(x[0] == 'param' and x[1] not in good for x in sites[k]):
                    good.discard(k)
                    changed = True
        return good

    def _pure_functions(self):
        """functions whose result depends only on their arguments and what they point to, and that write nothing but
        their own locals (syntactic: no store through a pointer/global, callees pure)"""
        libc = set(['strcmp', 'strncmp', 'strcasecmp', 'strncasecmp', 'memcmp', 'strlen', 'isalpha', 'isdigit', 'isalnum', 'isspace', 'isxdigit', 'ispunct', 'tolower', 'toupper'])
        cand = {}
        for un, u in self.units.items():
            for f, fd in u.functions.items():
                if len(self.fn_unit.get(f, ())) != 1:
                    continue
                ok = True
                callees = set()
                for n in fd.walk():
                    tgt = None
                    if n.kind in ('BinaryOperator', 'CompoundAssignOperator') and (n.opcode == '=' or n.kind == 'CompoundAssignOperator'):
                        tgt = n.inner[0]
                    elif n.kind == 'UnaryOperator' and n.opcode in ('++', '--'):
                        tgt = n.inner[0]
                    elif n.kind == 'UnaryOperator' and n.opcode == '&':
                        t = n.inner[0].strip()
                        if not (t.kind == 'DeclRefExpr' and t.ref_kind == 'FunctionDecl'):
                            ok = False
                    elif n.kind == 'CallExpr':
                        c = n.callee()
                        if c is None:
                            ok = False
                        else:
                            callees.add(c)
                    elif n.kind == 'VarDecl' and n.d.get('storageClass') == 'static':
                        ok = False
                    if tgt is not None:
                        t = tgt.strip()
                        if not (t.kind == 'DeclRefExpr' and t.ref_kind in ('VarDecl', 'ParmVarDecl') and t.ref_id not in u.by_id):
                            ok = False
                    if not ok:
                        break
                if ok and any(n.kind == 'DeclRefExpr' and n.ref_kind == 'VarDecl' and n.ref_id in u.by_id for n in fd.walk()):
                    ok = False      # reads a global
                if ok:
                    cand[f] = callees
        changed = True
        while changed:
            changed = False
            for f in list(cand):
                if any(c not in cand and c not in libc for c in cand[f]):
                    del cand[f]
                    changed = True
        return set(cand) | libc

    def _recursive_functions(self):
        """functions on a cycle of the direct call graph (no return-fact summaries for those)"""
        g = {}
        for un, u in self.units.items():
            for f, fd in u.functions.items():
                g.setdefault(f, set()).update(c.callee() for c in fd.calls() if c.callee() in self.fn_unit)
        index, low, onst, st, out = {}, {}, set(), [], set()
        counter = [0]
        import sys
        sys.setrecursionlimit(max(10000, sys.getrecursionlimit()))

        def strong(v):
            index[v] = low[v] = counter[0]
            counter[0] += 1
            st.append(v)
            onst.add(v)
            for w in g.get(v, ()):
                if w not in index:
                    strong(w)
                    low[v] = min(low[v], low[w])
                elif w in onst:
                    low[v] = min(low[v], index[w])
            if low[v] == index[v]:
                comp = []
                while True:
                    w = st.pop()
                    onst.discard(w)
                    comp.append(w)
                    if w == v:
                        break
                if len(comp) > 1 or v in g.get(v, ()):
                    out.update(comp)
        for v in list(g):
            if v not in index:
                strong(v)
        return out

    def resolve(self, unit, fname):
        """unit that defines fname as seen from `unit`"""
        if fname in unit.functions:
            return unit
        for un in self.fn_unit.get(fname, ()):
            return self.units[un]
        return None

    def _scan_len_specs(self):
        """pointer fields of records whose storage is allocated with an element count that is itself reachable from the owner:
        `X->F = calloc(X->H, ..)` or `X->G = Y; X->F = calloc(Y->H, ..)` (Y never assigned) gives len(X->F) == X->H / X->G->H.
        len_specs: (record, field) -> set of suffixes (None for an allocation site whose count is not such a path); len_names: the
        last components of the suffixes (fields that hold an element count)"""
        self.len_specs = {}
        self.len_names = set()
        for un, u in self.units.items():
            for f, fd in u.functions.items():
                links, writes, sites = {}, set(), []
                for n in fd.walk():
                    if n.kind == 'UnaryOperator' and n.opcode in ('++', '--', '&'):
                        t = n.inner[0].strip()
                        if t.kind == 'DeclRefExpr':
                            writes.add(t.ref_id)
                    if not (n.kind == 'BinaryOperator' and n.opcode == '='):
                        if n.kind == 'CompoundAssignOperator':
                            t = n.inner[0].strip()
                            if t.kind == 'DeclRefExpr':
                                writes.add(t.ref_id)
                        continue
                    l = n.inner[0].strip()
                    r = n.inner[1].strip_all()
                    if l.kind == 'DeclRefExpr':
                        writes.add(l.ref_id)
                        continue
                    if l.kind != 'MemberExpr' or not l.d.get('isArrow'):
                        continue
                    b = l.inner[0].strip()
                    if b.kind != 'DeclRefExpr' or b.ref_kind not in ('VarDecl', 'ParmVarDecl'):
                        continue
                    if r.kind == 'DeclRefExpr' and r.ref_kind in ('VarDecl', 'ParmVarDecl'):
                        links.setdefault((b.ref_id, r.ref_id), set()).add(l.name)
                    elif r.kind == 'CallExpr' and r.callee() in ('calloc',) and is_ptr_type(l.type) and len(r.args()) == 2:
                        sites.append((l, b, r.args()[0].strip_all()))
                for l, b, cnt in sites:
                    rec = rec_of(pointee(b.type or ''))
                    if rec is None:
                        continue
                    suf = None
                    chain, y = '', cnt
                    while y.kind == 'MemberExpr' and y.d.get('isArrow'):
                        chain = '->' + y.name + chain
                        y = y.inner[0].strip()
                    if chain and y.kind == 'DeclRefExpr' and y.ref_kind in ('VarDecl', 'ParmVarDecl'):
                        if y.ref_id == b.ref_id:
                            suf = chain
                        elif y.ref_id not in writes and len(links.get((b.ref_id, y.ref_id), ())) == 1:
                            suf = '->%s%s' % (list(links[(b.ref_id, y.ref_id)])[0], chain)
                    self.len_specs.setdefault((rec, l.name), set()).add(suf)
                    if suf:
                        self.len_names.add(suf.rsplit('->', 1)[1])
        self.len_specs = {k: v for k, v in self.len_specs.items() if any(v)}

    def _scan_gwrites(self):
        for un, u in self.units.items():
            for f, fd in u.functions.items():
                ws = set()
                for n in fd.walk():
                    tgt = None
                    if n.kind in ('BinaryOperator', 'CompoundAssignOperator') and (n.opcode == '=' or n.kind == 'CompoundAssignOperator'):
                        tgt = n.inner[0]
                    elif n.kind == 'UnaryOperator' and n.opcode in ('++', '--'):
                        tgt = n.inner[0]
                    if tgt is None:
                        continue
                    t = tgt.strip()
                    if t.kind == 'DeclRefExpr' and t.ref_kind == 'VarDecl' and t.ref_id in u.by_id:
                        ws.add(t.ref_name)
                self.gwrites.setdefault(f, set()).update(ws)


class Engine:
    """analysis of one function"""

    def __init__(self, W, unit, fname, hooks=None):
        self.W = W
        self.u = unit
        self.fname = fname
        self.fd = unit.functions[fname]
        self.params = [c for c in self.fd.inner if c.kind == 'ParmVarDecl']
        self.param_idx = {p.id: i for i, p in enumerate(self.params)}
        self.hooks = hooks or {}
        self.brk = []
        self.cnt = []
        self.sw = []
        self.depth = 0
        self.exited = False
        self.assigned_params = set()
        # results
        self.derefs = {}      # (node id, how) -> dict
        self.mustderef = set()
        self.null_args = {}   # (callee, i) -> src
        self.muststore = {}   # parameter index -> 'Record.field' it is stored into unconditionally (field assumed non-null by every reader)
        self.nnsinks = {}     # (node id, how) -> dict: a may-be-NULL value of a nullable *field* stored into such a field / handed to such a parameter
        self.returns = []     # (nul, src, rk)
        self.stores = []      # (record, field, vs-of-kind or None, node)
        self.reads = []       # (node, record, field, kind vs, base path)
        self.calls = []       # (node, callee, state, argvals)
        self.roots = {}       # root path -> (type, display)
        self._haslabel = {}
        self.undecided = []
        self.exit_states = []
        self.exit_vals = []    # (path of the returned value | None, state) per value return (keep_exit_states)
        self.keep_exit_states = bool(self.hooks.get('keep_exit_states'))
        self.ret_facts = []    # (const value or None, state) per normal return
        # pure calls whose outcome is worth remembering: the same call text occurs at least twice in this function
        cnt = {}
        for c in self.fd.calls():
            cal = c.callee()
            if cal in W.pure:
                k = (cal, tuple(a.src() for a in c.args()))
                cnt[k] = cnt.get(k, 0) + 1
        self.repeated_pure = set(k for k, n in cnt.items() if n >= 2)
        self.ret_consts = []   # per value-return: frozenset of enumerators | None (unknown)
        self.gstores = []      # (global name, frozenset of enumerators | None)
        self.links = []        # (MemberExpr, base path, base known not to be the end marker, kind fact) per load of a marker-ended list's link field
        # host arithmetic (division by a value of the input)
        self.divs = {}         # (node id, how) -> dict: integer divisions / arguments handed to a parameter the callee divides by
        self.mustdiv = set()   # indices of parameters this function divides by unconditionally
        self.zrets = []        # sources of may-be-zero input values this function returns
        self.zero_args = {}    # (callee, i) -> src: may-be-zero input values handed on unchecked
        self.fstores = []      # (record, field, class, src, node): stores of integer values into record fields
        self.idxs = {}         # subscript node id -> dict: host array subscripts whose index is a value of the input held in a variable (lower / upper bound known on every path?)
        self.lidx = {}         # subscript node id -> dict: subscripts of an array field whose element count is a path from its owner (W.len_specs): is the index known to be below it?
        self.evlocals = {}     # local (declared with an initializer, never assigned again) -> key of the evaluator call it holds
        self.ev_black = set()
        self.flag_stores = []  # (record, boolean field, constant stored | None, {suffix->kind: kinds known on the owner at the store})
        self.path_rec = {}     # path of a field -> record that owns it

    # ---- paths ---------------------------------------------------------------
    def root_path(self, n):
        """path of a DeclRefExpr to a variable"""
        rid = n.ref_id
        name = n.ref_name
        if rid in self.u.by_id:
            p = 'G:' + name
        else:
            p = '%s@%s' % (name, rid)
        if p not in self.roots:
            self.roots[p] = n.type
        return p

    def show(self, path):
        """type-rooted, stable rendering of a path (no local names, no ids)"""
        if path is None:
            return '?'
        i = 0
        while i < len(path) and path[i] not in '-.[':
            i += 1
        root, rest = path[:i], path[i:]
        if root.startswith('G:'):
            return root[2:] + rest
        t = self.roots.get(root)
        pid = root.split('@', 1)[1] if '@' in root else None
        if pid in self.param_idx:
            return 'param#%d(%s)%s' % (self.param_idx[pid] + 1, (t or '?').replace(' ', ''), rest)
        r = rec_of(t)
        if r and rest.startswith('->'):
            return r + rest
        return '(%s)%s' % ((t or '?').replace(' ', ''), rest)

    # ---- reporting -----------------------------------------------------------
    def check_deref(self, S, v, node, how):
        """the value v is about to be dereferenced at node"""
        if v is None:
            return
        nul = v.nul
        if v.path is not None:
            # unconditional dereference of a parameter (for one-level summaries)
            root = v.path
            if '@' in root and root.split('@', 1)[1] in self.param_idx and root not in self.assigned_params:
                if self.depth == 0 and not self.exited:
                    self.mustderef.add(self.param_idx[root.split('@', 1)[1]])
        if nul in ('N', 'NULL') or (nul == 'NN' and v.src is not None):
            key = (node.id, how)
            rec = self.derefs.get(key)
            bad = nul in ('N', 'NULL')
            if rec is None or (bad and not rec['bad']):
                self.derefs[key] = {'node': node, 'how': how, 'bad': bad, 'nul': nul, 'src': v.src, 'path': v.path,
                                    'ctx': self.context(S), 'expr': node.src()}
        if v.path is not None:
            S.nul[v.path] = ('NN', v.src)

    def context(self, S):
        """singleton kind facts on paths rooted at parameters: names the switch arm / guard we are in"""
        out = []
        for p, f in S.vs.items():
            if f[0] == 'in' and len(f[1]) == 1:
                root = p.split('-', 1)[0].split('.', 1)[0]
                pid = root.split('@', 1)[1] if '@' in root else None
                if pid in self.param_idx and p.count('->') == 1:
                    v = list(f[1])[0]
                    if isinstance(v, str) and self.u.enum_of.get(v) in ('NodeKind', 'TypeKind'):
                        out.append(v)
        return ','.join(sorted(out))

    # ---- defaults --------------------------------------------------------------
    def default_nul(self, S, path, node, base_path=None, rec=None, field=None):
        """nullness of a path with no explicit fact"""
        if rec is not None:
            e = self.W.nullable_fields.get((rec, field))
            if e is not None:
                scope = e.get('scope')
                if scope is not None and (self.u.name, self.fname) not in scope and self.fname not in scope:
                    return None, None
                if self.show(path) in self.W.assumed_nonnull.get((self.u.name, self.fname), ()):
                    return None, None
                ow = e.get('only_when')
                if ow:
                    kf = S.vs.get(base_path + '->' + ow[0]) if base_path is not None else None
                    if not (kf and kf[0] == 'in' and kf[1] <= ow[1]):
                        return None, None
                return 'N', ('field', '%s.%s' % (rec, field), e.get('why', ''), base_path, getattr(node, 'line', None))
            z = self.W.zero_fields.get((rec, field))
            if z is not None:
                return 'N', ('zero', '%s.%s' % (rec, field), z)
            return None, None
        return None, None

    # ---- expressions -------------------------------------------------------------
    def ev(self, e, S):
        """evaluate e in state S (owned). returns [(state, Val)]"""
        m = getattr(self, 'e_' + e.kind, None)
        if m is None:
            return self.e_generic(e, S)
        return m(e, S)

    def ev_list(self, es, S):
        """evaluate expressions left to right: [(state, [vals])]"""
        cur = [(S, [])]
        for e in es:
            nxt = []
            for s, vs in cur:
                for s2, v in self.ev(e, s):
                    nxt.append((s2, vs + [v]))
            cur = nxt
        return cur

    def e_generic(self, e, S):
        kids = [c for c in e.inner if c.kind.endswith('Expr') or c.kind.endswith('Operator') or c.kind.endswith('Literal')]
        return [(s, UNKNOWN) for s, _ in self.ev_list(kids, S)]

    def e_ParenExpr(self, e, S):
        return self.ev(e.inner[0], S)

    e_ConstantExpr = e_ParenExpr

    def e_IntegerLiteral(self, e, S):
        return [(S, Val(const=int(e.value)))]

    e_CharacterLiteral = e_IntegerLiteral

    def e_FloatingLiteral(self, e, S):
        return [(S, UNKNOWN)]

    def e_StringLiteral(self, e, S):
        return [(S, Val(nul='NN'))]

    e_PredefinedExpr = e_StringLiteral

    def e_UnaryExprOrTypeTraitExpr(self, e, S):
        return [(S, UNKNOWN)]

    e_OffsetOfExpr = e_UnaryExprOrTypeTraitExpr

    def e_ImplicitCastExpr(self, e, S):
        ck = e.cast_kind
        if ck == 'NullToPointer':
            out = self.ev(e.inner[0], S)
            return [(s, Val(nul='NULL', const=0)) for s, _ in out]
        out = self.ev(e.inner[0], S)
        if ck in ('ArrayToPointerDecay', 'FunctionToPointerDecay'):
            return [(s, Val(nul='NN', addr_of=v.path)) for s, v in out]
        if ck in ('IntegralToBoolean', 'FloatingToBoolean'):
            res = []
            for s, v in out:
                if (v.path is None and isinstance(v.ctype, tuple) and v.ctype[0].startswith('value-of(')) or (v.path is not None and v.path in self.evlocals):
                    # the truth value of an evaluator's result (`return eval(node);` from a bool function, `bool b = eval(x);`)
                    T, F = self.truth(s, v)
                    res += [(t, Val(const=1)) for t in T] + [(f, Val(const=0)) for f in F]
                else:
                    res.append((s, v))
            return res
        return out

    def e_CStyleCastExpr(self, e, S):
        if e.cast_kind == 'NullToPointer':
            return [(s, Val(nul='NULL', const=0)) for s, _ in self.ev(e.inner[-1], S)]
        out = self.ev(e.inner[-1], S)
        if e.cast_kind in ('ToVoid',):
            return [(s, UNKNOWN) for s, _ in out]
        if e.cast_kind in ('IntegralToPointer',):
            return [(s, Val(nul='NULL', const=0) if v.const == 0 else UNKNOWN) for s, v in out]
        return out

    def e_DeclRefExpr(self, e, S):
        rk = e.ref_kind
        if rk == 'EnumConstantDecl':
            return [(S, Val(const=self.u.enum_value(e.ref_name), ename=e.ref_name))]
        if rk == 'FunctionDecl':
            return [(S, Val(nul='NN'))]
        if rk not in ('VarDecl', 'ParmVarDecl'):
            return [(S, UNKNOWN)]
        p = self.root_path(e)
        t = e.type or ''
        if '[' in t and not is_ptr_type(t):
            return [(S, Val(path=p, nul='NN', ctype=t))]
        f = S.nul.get(p)
        v = Val(path=p, ctype=t, vs=S.vs.get(p))
        if f is not None:
            v.nul, v.src = (f[0] if f[0] != 'U' else None), f[1]
        else:
            pid = e.ref_id
            if pid in self.param_idx and p not in self.assigned_params:
                i = self.param_idx[pid]
                src = self.W.nullable_params.get((self.fname, i))
                if src is not None and is_ptr_type(t):
                    v.nul, v.src = 'N', src
                zsrc = self.W.zero_params.get((self.fname, i))
                if zsrc is not None and not is_ptr_type(t) and len(self.W.fn_unit.get(self.fname, ())) == 1:
                    v.nul, v.src = 'N', zsrc
                if v.vs is None and not is_ptr_type(t):
                    v.rk = ('param', i)
            elif p.startswith('G:') and e.ref_name in self.W.nullable_globals:
                v.nul, v.src = 'N', ('global', e.ref_name, self.W.nullable_globals[e.ref_name])
        if v.vs is None and p.startswith('G:'):
            gv = self.W.global_vals.get(e.ref_name)
            if gv:
                v.vs = ('in', gv)
        return [(S, v)]

    def member_val(self, S, e, bv):
        """value of MemberExpr e whose base evaluated to bv (already checked)"""
        arrow = bool(e.d.get('isArrow'))
        bp = bv.path
        f = e.name
        t = e.type or ''
        bt = e.inner[0].type or ''
        rec = rec_of(pointee(bt) if arrow else bt)
        if bp is None:
            path = None
        elif arrow:
            path = bp + '->' + f
        elif bp.endswith('[]'):
            path = bp[:-2] + '->' + f
        else:
            path = bp + '.' + f
        v = Val(path=path, ctype=t)
        if path is not None and rec is not None and t in ('_Bool', 'bool'):
            self.path_rec[path] = rec
        if '[' in t and not is_ptr_type(t):
            v.nul = 'NN'
            return v
        base_for_kind = None
        if path is not None:
            base_for_kind = path[:-(len(f) + 2)] if path.endswith('->' + f) else None
            fact = S.nul.get(path)
            v.vs = S.vs.get(path)
            if rec is not None and base_for_kind is not None:
                e0 = self.W.nullable_fields.get((rec, f))
                imp = e0.get('implied') if e0 else None
                if imp:
                    kf = S.vs.get(base_for_kind + '->' + imp[0])
                    if kf and kf[0] == 'in' and kf[1] <= imp[1]:
                        # type invariant: the field is set for these kinds
                        if fact is not None and fact[0] == 'NULL':
                            return None     # this path has seen the field NULL and the owner of such a kind: excluded by the invariant
                        v.nul, v.src = 'NN', ('field', '%s.%s' % (rec, f), '')
                        return v
            if fact is not None:
                v.nul, v.src = (fact[0] if fact[0] != 'U' else None), fact[1]
                return v
        if rec is not None:
            n, src = self.default_nul(S, path, e, base_for_kind, rec, f)
            if n is not None:
                v.nul, v.src = n, src
        return v

    def e_MemberExpr(self, e, S):
        out = []
        arrow = bool(e.d.get('isArrow'))
        for s, bv in self.ev(e.inner[0], S):
            if arrow:
                self.check_deref(s, bv, e, '->' + (e.name or '?'))
            v = self.member_val(s, e, bv)
            if v is None:
                continue
            self.note_read(s, e, bv, v)
            if arrow and self.W.end_marker:
                self.note_link(s, e, bv)
            out.append((s, v))
        return out

    def note_link(self, S, e, bv):
        """load of the link field of a list that is ended by a marker element: is the element known not to be the marker?"""
        rec = rec_of(pointee(e.inner[0].type or ''))
        em = self.W.end_marker.get(rec)
        if em is None or e.name != em[2]:
            return
        kf = S.vs.get(bv.path + '->' + em[0]) if bv.path is not None else None
        if kf is None:
            proven = False
        elif kf[0] == 'in':
            proven = em[1] not in kf[1]
        else:
            proven = em[1] in kf[1]
        self.links.append((e, bv.path, proven, kf))

    def note_read(self, S, e, bv, v):
        if not e.d.get('isArrow'):
            return
        rec = rec_of(pointee(e.inner[0].type or ''))
        if rec in ('Node', 'Type') and bv.path is not None:
            kf = S.vs.get(bv.path + '->kind')
            self.reads.append((e, rec, e.name, kf, bv.path, v.nul))

    def e_UnaryOperator(self, e, S):
        op = e.opcode
        sub = e.inner[0]
        if op == '*':
            out = []
            for s, v in self.ev(sub, S):
                if is_ptr_type(sub.type) and 'FunctionToPointerDecay' != sub.cast_kind:
                    self.check_deref(s, v, e, '*')
                p = v.path + '[]' if v.path is not None else None
                r = Val(path=p, ctype=e.type)
                if p is not None:
                    f = s.nul.get(p)
                    if f is not None:
                        r.nul, r.src = (f[0] if f[0] != 'U' else None), f[1]
                    r.vs = s.vs.get(p)
                elif isinstance(v.rk, str):
                    r.objk = v.rk
                out.append((s, r))
            return out
        if op == '&':
            return [(s, Val(nul='NN', addr_of=p)) for s, p, _ in self.lv(sub, S, store=False, addr=True)]
        if op == '!':
            T, F = self.cond(sub, S)
            return [(s, Val(const=1)) for s in T] + [(s, Val(const=0)) for s in F]
        if op in ('++', '--'):
            out = []
            for s, p, _ in self.lv(sub, S):
                if p is not None:
                    f = s.nul.get(p)
                    keep = (p + ('#lb' if op == '++' else '#ub')) in s.vs
                    self.assign_path(s, p, UNKNOWN, sub)
                    if f is not None and f[1] is not None and f[1][0] == 'zero' and f[0] in ('N', 'NN', 'NULL') and not is_ptr_type(sub.type):
                        # a counter that started at a value of the input still depends on it: stepping up keeps the lower bound, stepping down the upper one
                        s.nul[p] = ('N', f[1])
                        if keep:
                            s.vs[p + ('#lb' if op == '++' else '#ub')] = ('in', frozenset([1]))
                out.append((s, UNKNOWN))
            return out
        if op in ('-', '+', '~'):
            out = []
            for s, v in self.ev(sub, S):
                c = None
                if v.const is not None:
                    c = -v.const if op == '-' else (v.const if op == '+' else ~v.const)
                r = Val(const=c)
                if op != '~' and c is None and not is_ptr_type(sub.type):
                    r.nul, r.src, r.zp = v.nul, v.src, (v.path if v.path is not None else v.zp)   # -x is zero exactly when x is
                out.append((s, r))
            return out
        return self.ev(sub, S)   # __extension__ and friends

    def lv(self, e, S, store=True, addr=False):
        """evaluate e as an lvalue: [(state, path|None, expr)]; the final location is not loaded.
        addr: only the address is formed (no access through the base)"""
        e0 = e
        while e.kind in TRANSPARENT:
            e = e.inner[0]
        k = e.kind
        if k == 'DeclRefExpr':
            if e.ref_kind in ('VarDecl', 'ParmVarDecl'):
                return [(S, self.root_path(e), e)]
            return [(S, None, e)]
        if k == 'MemberExpr':
            out = []
            arrow = bool(e.d.get('isArrow'))
            if arrow:
                for s, bv in self.ev(e.inner[0], S):
                    if not addr:
                        self.check_deref(s, bv, e, '->' + (e.name or '?'))
                    out.append((s, (bv.path + '->' + e.name) if bv.path is not None else None, e))
            else:
                for s, bp, _ in self.lv(e.inner[0], S, store=store, addr=addr):
                    if bp is None:
                        p = None
                    elif bp.endswith('[]'):
                        p = bp[:-2] + '->' + e.name
                    else:
                        p = bp + '.' + e.name
                    out.append((s, p, e))
            return out
        if k == 'UnaryOperator' and e.opcode == '*':
            out = []
            for s, v in self.ev(e.inner[0], S):
                if not addr:
                    self.check_deref(s, v, e, '*')
                out.append((s, v.path + '[]' if v.path is not None else None, e))
            return out
        if k == 'ArraySubscriptExpr':
            out = []
            for s, (bv, iv) in self.ev_list(e.inner[:2], S):
                if not addr:
                    self.check_deref(s, bv, e, '[]')
                    self.note_index(s, e, iv)
                    if self.W.len_specs:
                        self.note_len_index(s, e, bv, iv)
                base = bv.path if bv.path is not None else bv.addr_of
                if base is not None and iv.const is not None:
                    if bv.path is not None:
                        p = base + ('[]' if iv.const == 0 else '[%d]' % iv.const)
                    else:
                        p = base + '[%d]' % iv.const
                else:
                    p = None
                out.append((s, p, e))
            return out
        if k in ('ImplicitCastExpr', 'CStyleCastExpr'):
            return self.lv(e.inner[-1], S, store=store, addr=addr)
        return [(s, None, e) for s, _ in self.ev(e, S)]

    def e_ArraySubscriptExpr(self, e, S):
        out = []
        for s, p, _ in self.lv(e, S, store=False):
            r = Val(path=p, ctype=e.type)
            if p is not None:
                f = s.nul.get(p)
                if f is not None:
                    r.nul, r.src = (f[0] if f[0] != 'U' else None), f[1]
                r.vs = s.vs.get(p)
            out.append((s, r))
        return out

    def enum_set(self, v):
        """enumerators a value can be, or None"""
        if v.ename is not None:
            return frozenset([v.ename])
        if v.vs is not None and v.vs[0] == 'in' and v.vs[1] and all(isinstance(x, str) for x in v.vs[1]):
            return v.vs[1]
        return None

    def assign_path(self, S, p, v, node, decl=False):
        """store value v into path p"""
        if p.startswith('G:') and not any(c in p for c in '-.['):
            self.gstores.append((p[2:], self.enum_set(v)))
        root_end = 0
        while root_end < len(p) and p[root_end] not in '-.[':
            root_end += 1
        if root_end == len(p) and not decl:
            self.assigned_params.add(p)
        if root_end == len(p):
            if decl and isinstance(v.ctype, tuple) and v.path is None and v.ctype[0].startswith('value-of(') and p not in self.ev_black:
                self.evlocals[p] = v.ctype
            elif not decl:
                self.evlocals.pop(p, None)
                self.ev_black.add(p)
        moved = None
        if v.path is not None and v.path != p and _ext(p, v.path):
            # cursor advance `p = p->next`: what is known about the successor is known about the cursor afterwards
            n = len(v.path)
            moved = [(d is S.vs, q[n:], f) for d in (S.nul, S.vs) for q, f in d.items() if _ext(v.path, q) and q != v.path]
        S.kill(p)
        if moved:
            for is_vs, suf, f in moved:
                (S.vs if is_vs else S.nul)[p + suf] = f
        if v.nul is not None:
            S.nul[p] = (v.nul, v.src)
        else:
            S.nul[p] = ('U', None)
        if v.path is not None:
            S.copy_facts(v.path, p)
            w = S.vs.get(v.path)
            if w is not None:
                S.vs[p] = w
            if not _ext(p, v.path):
                S.ali[p] = S.ali.get(v.path, v.path)
        if v.addr_of is not None:
            # p = &x  : *p is x
            S.copy_facts(v.addr_of, p + '[]')
            f = S.nul.get(v.addr_of)
            if f is not None:
                S.nul[p + '[]'] = f
        if v.ename is not None:
            S.vs[p] = ('in', frozenset([v.ename]))
        elif v.const is not None and v.path is None:
            S.vs[p] = ('in', frozenset([v.const]))
        elif v.vs is not None and v.path is None:
            S.vs[p] = v.vs
        elif v.rk is not None and isinstance(v.rk, tuple) and v.path is not None and v.vs is None:
            S.vs[p] = ('in', frozenset([v.rk]))
        if v.rk is not None and v.path is None:
            S.vs[p + '->kind'] = ('in', frozenset([v.rk]))
        if v.objk is not None and v.path is None and p.endswith('[]'):
            S.vs[p[:-2] + '->kind'] = ('in', frozenset([v.objk]))      # `*p = *new_x(K)`: whole-struct copy of a fresh object of kind K

    def alias_store(self, S, p):
        """`R->f = v` was stored while another pointer variable Q is a plain copy of R (neither assigned since): Q->f is the same location"""
        i = p.find('->')
        if i <= 0:
            return
        R, rest = p[:i], p[i:]
        if any(c in R for c in '.[#'):
            return
        peers = [q for q, o in S.ali.items() if o == R and q != R and not any(c in q for c in '-.[#')]
        o = S.ali.get(R)
        if o is not None and o != R and not any(c in o for c in '-.[#'):
            peers.append(o)
        for q in peers:
            S.kill(q + rest)
            for d in (S.nul, S.vs):
                for k, f in [(k, f) for k, f in d.items() if _ext(p, k)]:
                    d[q + rest + k[len(p):]] = f

    def note_store(self, S, lhs, p):
        e = lhs
        while e.kind in TRANSPARENT:
            e = e.inner[0]
        if e.kind == 'MemberExpr' and e.d.get('isArrow') and p is not None:
            rec = rec_of(pointee(e.inner[0].type or ''))
            if rec in ('Node', 'Type'):
                bp = p[:-(len(e.name) + 2)]
                self.stores.append((rec, e.name, S.vs.get(bp + '->kind'), e))

    def e_BinaryOperator(self, e, S):
        op = e.opcode
        a, b = e.inner[0], e.inner[1]
        if op == '=':
            out = []
            for s, p, le in self.lv(a, S):
                for s2, v in self.ev(b, s):
                    if p is not None:
                        self.assign_path(s2, p, v, e)
                        self.note_store(s2, a, p)
                        self.alias_store(s2, p)
                    self.note_fstore(s2, a, v, e, p)
                    nf = self.nn_field(a)
                    if nf is not None:
                        self.note_sink(s2, v, e, 'store', nf)
                    out.append((s2, Val(path=p, nul=v.nul, src=v.src, const=v.const, ename=v.ename, vs=v.vs)))
            return out
        if op == ',':
            out = []
            for s, _ in self.ev(a, S):
                out += self.ev(b, s)
            return out
        if op in ('&&', '||', '==', '!='):
            T, F = self.cond(e, S)
            return [(s, Val(const=1)) for s in T] + [(s, Val(const=0)) for s in F]
        out = []
        for s, (va, vb) in self.ev_list([a, b], S):
            r = Val()
            if op in ('+', '-') and is_ptr_type(e.type):
                pv = va if is_ptr_type(a.type) else vb
                r.nul, r.src = pv.nul, pv.src
                if r.nul is None:
                    r.nul = None
            elif va.const is not None and vb.const is not None:
                try:
                    x, y = va.const, vb.const
                    r.const = {'+': lambda: x + y, '-': lambda: x - y, '*': lambda: x * y, '&': lambda: x & y, '|': lambda: x | y,
                               '^': lambda: x ^ y, '<<': lambda: x << y if 0 <= y < 64 else None, '>>': lambda: x >> y if 0 <= y < 64 else None,
                               '<': lambda: int(x < y), '>': lambda: int(x > y), '<=': lambda: int(x <= y), '>=': lambda: int(x >= y),
                               '/': lambda: int(x / y) if y else None, '%': lambda: (x - int(x / y) * y) if y else None}.get(op, lambda: None)()
                except Exception:
                    r.const = None
            if op == '*' and r.const is None and is_int_type(e):
                ca, cb = self.zclass(s, va), self.zclass(s, vb)
                if 'z' in (ca, cb):
                    r.nul, r.src = 'N', (va.src if ca == 'z' else vb.src)        # a product with a may-be-zero factor
                elif ca == 'nz' and cb == 'nz':
                    r.nul = 'NN'
                    r.src = va.src if (va.src and va.src[0] in ZSRC) else (vb.src if (vb.src and vb.src[0] in ZSRC) else None)
                for x, cx, y in ((va, ca, vb), (vb, cb, va)):
                    if cx == 'nz' and x.const is not None and x.path is None:
                        r.zp = y.path if y.path is not None else y.zp             # path * c is zero exactly when path is
            if op in ('/', '%') and is_int_type(e):
                self.note_div(s, e, op, va, vb, b)
            out.append((s, r))
        return out

    # ---- host arithmetic ---------------------------------------------------------
    def zclass(self, S, v):
        """'nz' the integer value is known not to be 0 | 'z' it comes from a source that can be 0 and no fact excludes it | 'zero' | None (not known)"""
        if v is None:
            return None
        if v.const is not None and v.path is None:
            return 'nz' if v.const != 0 else 'zero'
        for q in (v.path, v.zp):
            if q is None:
                continue
            for q2 in (q, S.ali.get(q)):
                if q2 is None:
                    continue
                f = S.nul.get(q2)
                if f is not None and f[0] == 'NN':
                    return 'nz'
                w = S.vs.get(q2)
                if w is not None and ((w[0] == 'in' and 0 not in w[1] and all(isinstance(x, int) for x in w[1])) or (w[0] == 'notin' and 0 in w[1])):
                    return 'nz'
        if v.nul == 'NN':
            return 'nz'
        if v.nul in ('N', 'NULL') and v.src is not None and v.src[0] in ZSRC:
            return 'z'
        if v.nul == 'NULL' and v.path is not None:
            return 'zero'
        return None

    def excludes(self, S, v, c):
        """a value-set fact says that the value is not the constant c"""
        if v.const is not None and v.path is None:
            return v.const != c
        for q in (v.path,):
            if q is None:
                continue
            for q2 in (q, S.ali.get(q)):
                w = S.vs.get(q2) if q2 is not None else None
                if w is not None and ((w[0] == 'in' and c not in w[1] and all(isinstance(x, int) for x in w[1])) or (w[0] == 'notin' and c in w[1])):
                    return True
        return False

    def note_div(self, S, node, how, va, vb, dnode):
        """an integer division / remainder whose divisor evaluated to vb (how: '/', '%', or 'argN of f()' for a parameter the callee divides by)"""
        cls = self.zclass(S, vb)
        q = vb.path if vb.path is not None else vb.zp
        if q is not None and cls != 'nz':
            root = S.ali.get(q, q)
            if '@' in root and root.split('@', 1)[1] in self.param_idx and root not in self.assigned_params and self.depth == 0 and not self.exited:
                self.mustdiv.add(self.param_idx[root.split('@', 1)[1]])
        t = (node.dtype or node.type or '')
        signed = 'unsigned' not in t and t not in ('_Bool', 'bool')
        ovf = None
        if how in ('/', '%') and signed and va is not None:
            inp = lambda v: v.src is not None and v.src[0] in ZSRC
            if inp(va) and inp(vb) and va.const is None and vb.const is None:
                # both operands are values of the input: the most negative value divided by -1 traps on the host like a zero divisor
                ovf = 'ok' if self.excludes(S, vb, -1) else 'bad'
        rel = any((x + '#rel') in S.vs for x in (vb.path, vb.zp, S.ali.get(vb.path) if vb.path else None) if x)
        key = (node.id, how)
        rank = {'zero': 4, 'z': 3, None: 2, 'nz': 1}
        new = {'node': node, 'how': how, 'cls': cls, 'src': vb.src, 'path': q, 'alias': S.ali.get(q) if q else None, 'ctx': self.context(S), 'signed': signed, 'ovf': ovf, 'rel': rel,
               'dnode': dnode, 'const': vb.const if vb.path is None else None}
        old = self.divs.get(key)
        if old is not None:
            # the same site reached in another state: the worst classification is kept
            worse, other = (new, old) if rank[new['cls']] > rank[old['cls']] else (old, new)
            worse = dict(worse)
            worse['ovf'] = 'bad' if 'bad' in (old['ovf'], new['ovf']) else (worse['ovf'] or other['ovf'])
            worse['rel'] = old['rel'] or new['rel']
            new = worse
        self.divs[key] = new

    def note_index(self, S, node, iv):
        """a subscript of one of the compiler's own arrays whose index evaluated to iv: if it is a value of the input obtained in this function (result of a
        function derived to return one, a field that holds one, a value a callee stored through an out-parameter), is it bounded on this path?"""
        if iv is None or iv.src is None or iv.src[0] != 'zero' or iv.nul not in ('N', 'NN', 'NULL') or (iv.const is not None and iv.path is None):
            return
        lb = ub = False
        for q in (iv.path, S.ali.get(iv.path) if iv.path else None):
            if q is None:
                continue
            lb = lb or (q + '#lb') in S.vs
            ub = ub or (q + '#ub') in S.vs
            w = S.vs.get(q)
            if w is not None and w[0] == 'in' and w[1] and all(isinstance(x, int) for x in w[1]):
                lb = lb or min(w[1]) >= 0
                ub = True
        old = self.idxs.get(node.id)
        if old is not None:
            lb, ub = lb and old['lb'], ub and old['ub']
        self.idxs[node.id] = {'node': node, 'lb': lb, 'ub': ub, 'src': iv.src, 'path': iv.path, 'alias': S.ali.get(iv.path) if iv.path else None,
                              'ctx': self.context(S) if old is None else old['ctx']}

    # ---- relational upper bounds (index below the element count of the array) ------------------------------
    def canon_path(self, S, q):
        """replace the longest prefix of q that is a plain copy of another path (S.ali) by that path"""
        if not S.ali:
            return q
        for i in [len(q)] + [i for i in range(len(q) - 1, 0, -1) if q[i] in '-.[']:
            o = S.ali.get(q[:i])
            if o is not None:
                return o + q[i:]
        return q

    def rel_sets(self, S, q):
        """(paths q is known to be < , paths q is known to be <=)"""
        lt, le = frozenset(), frozenset()
        for q2 in (q, S.ali.get(q) if q else None):
            if q2 is None:
                continue
            f = S.vs.get(q2 + '#lt')
            if f is not None and f[0] == 'rel':
                lt |= f[1]
            f = S.vs.get(q2 + '#le')
            if f is not None and f[0] == 'rel':
                le |= f[1]
        return lt, le

    def len_like(self, q):
        return '->' in q and q.rsplit('->', 1)[1] in self.W.len_names

    def add_rel(self, S, q, strict, bound):
        k = q + ('#lt' if strict else '#le')
        f = S.vs.get(k)
        S.vs[k] = ('rel', (f[1] if f is not None and f[0] == 'rel' else frozenset()) | frozenset([bound]))

    def note_rel(self, T, F, va, vb, na, nb, op):
        """`va op vb` with both sides held in paths: remember the upper bound each outcome gives (only bounds that are an element count,
        W.len_names, or that are themselves bounded: what the rule on array indices needs)"""
        flip = {'<': '>', '>': '<', '<=': '>=', '>=': '<='}
        for pv, cv, o, pn in ((va, vb, op, na), (vb, va, flip[op], nb)):
            if pv.path is None or cv.path is None or cv.const is not None or not is_int_type(pn) or pv.path == cv.path:
                continue
            for st, strict in ((T, True if o == '<' else (False if o == '<=' else None)), (F, True if o == '>=' else (False if o == '>' else None))):
                if strict is None:
                    continue
                b = self.canon_path(st, cv.path)
                lt, le = self.rel_sets(st, cv.path)
                if self.len_like(b) or self.len_like(cv.path) or lt or le:
                    self.add_rel(st, pv.path, strict, b)

    def rel_verdict(self, S, q, hit):
        """is the value in path q known to be below a path that satisfies hit()?  'ok' strictly below, 'bad' the tightest bound known is `<=`, None nothing known"""
        lt, le = self.rel_sets(S, q)
        if any(hit(x) for x in lt):
            return 'ok', None
        for x in le:
            l2, e2 = self.rel_sets(S, x)
            if any(hit(y) for y in l2):
                return 'ok', None
        for x in lt:
            l2, e2 = self.rel_sets(S, x)
            if any(hit(y) for y in l2 | e2):
                return 'ok', None
        bad = [x for x in le if hit(x)]
        via = None
        if not bad:
            for x in sorted(le):
                l2, e2 = self.rel_sets(S, x)
                b2 = [y for y in e2 if hit(y)]
                if b2:
                    bad, via = b2, x
                    break
        if bad:
            return 'bad', (sorted(bad)[0], via)
        return None, None

    def note_len_index(self, S, node, bv, iv):
        """a subscript of an array field whose element count is a path from its owner: relation of the index to that count in this state"""
        b = node.inner[0]
        while b.kind in TRANSPARENT or b.kind == 'ImplicitCastExpr':
            b = b.inner[0]
        if b.kind != 'MemberExpr' or not b.d.get('isArrow'):
            return
        rec = rec_of(pointee(b.inner[0].type or ''))
        spec = self.W.len_specs.get((rec, b.name))
        if not spec:
            return
        sufs = sorted(x for x in spec if x)
        old = self.lidx.get(node.id)
        if old is None:
            old = self.lidx[node.id] = {'node': node, 'rec': rec, 'field': b.name, 'sufs': sufs, 'ok': 0, 'bad': None, 'unknown': 0, 'tier': None, 'ctx': self.context(S)}
        q = iv.path if iv is not None else None
        owner = bv.path[:-(len(b.name) + 2)] if (bv is not None and bv.path is not None and bv.path.endswith('->' + b.name)) else None
        if q is None:
            old['unknown'] += 1
            return
        verdict, how, tier = None, None, None
        if owner is not None:
            Ls = set(self.canon_path(S, owner + suf) for suf in sufs) | set(owner + suf for suf in sufs)
            verdict, how = self.rel_verdict(S, q, lambda x: x in Ls)
            tier = 1
        if verdict is None:
            names = set(suf.rsplit('->', 1)[1] for suf in sufs)
            verdict, how = self.rel_verdict(S, q, lambda x: '->' in x and x.rsplit('->', 1)[1] in names)
            tier = 2
        if verdict == 'bad':
            lt, le = self.rel_sets(S, q)
            if lt:
                verdict = None         # some other strict limit is known: whether it is at most the element count is not decided
        if verdict == 'ok':
            old['ok'] += 1
            old['tier'] = max(old['tier'] or 0, tier)
        elif verdict == 'bad':
            if old['bad'] is None:
                old['bad'] = {'bound': self.show(how[0]), 'via': self.show(how[1]) if how[1] else None, 'tier': tier, 'index': self.show(q)}
        else:
            old['unknown'] += 1

    def out_taints(self):
        """{parameter index: (src, lb, ub)} for pointer parameters through which, on every normal return, a value of the input has been stored"""
        out = {}
        if not self.ret_facts:
            return out
        for i, p in enumerate(self.params):
            r = '%s@%s' % (p.name, p.id)
            if r in self.assigned_params or (pointee(p.type) or '').strip() not in INT_SPELLINGS:
                continue
            q = r + '[]'
            src, lb, ub, ok = None, True, True, True
            LT = LE = None
            for c, S in self.ret_facts:
                f = S.nul.get(q)
                if f is None or f[0] not in ('N', 'NN', 'NULL') or f[1] is None or f[1][0] != 'zero':
                    ok = False
                    break
                src = src or f[1]
                w = S.vs.get(q)
                ints = w is not None and w[0] == 'in' and w[1] and all(isinstance(x, int) for x in w[1])
                lb = lb and ((q + '#lb') in S.vs or (ints and min(w[1]) >= 0))
                ub = ub and ((q + '#ub') in S.vs or bool(ints))
                # what the stored value is below on this return, relative to the (unassigned) parameters: `*out < param#k->len`
                lt, le = self.rel_sets(S, q)
                rl = frozenset(x for x in (self.param_rel(y) for y in lt) if x)
                re_ = frozenset(x for x in (self.param_rel(y) for y in le) if x) | rl
                LT = rl if LT is None else LT & rl
                LE = re_ if LE is None else LE & re_
            if ok and src is not None:
                out[i] = (src, lb, ub, LT or frozenset(), (LE or frozenset()) - (LT or frozenset()))
        return out

    def param_rel(self, path):
        """(parameter index, suffix) of a path rooted at a parameter this function never assigns, else None"""
        r = _root(path)
        pid = r.split('@', 1)[1] if '@' in r else None
        if pid in self.param_idx and r not in self.assigned_params and len(path) > len(r):
            return (self.param_idx[pid], path[len(r):])
        return None

    def nn_field(self, lhs):
        """'Record.field' if lhs is a pointer field of a record that is not in the nullable table (readers take it for non-null)"""
        e = lhs
        while e.kind in TRANSPARENT:
            e = e.inner[0]
        if e.kind != 'MemberExpr' or not is_ptr_type(e.type):
            return None
        bt = e.inner[0].type or ''
        rec = rec_of(pointee(bt) if e.d.get('isArrow') else bt)
        if rec is None or (rec, e.name) in self.W.nullable_fields:
            return None
        return '%s.%s' % (rec, e.name)

    def note_sink(self, S, v, node, how, field):
        """v is stored where every reader assumes a non-null pointer (a field outside the nullable table, directly or through a constructor's parameter)"""
        if v is None:
            return
        if v.path is not None and not any(c in v.path for c in '-.['):
            root = v.path
            if '@' in root and root.split('@', 1)[1] in self.param_idx and root not in self.assigned_params and self.depth == 0 and not self.exited \
                    and S.nul.get(root) is None:
                self.muststore.setdefault(self.param_idx[root.split('@', 1)[1]], field)
        if v.src is not None and v.src[0] == 'field' and (v.nul in ('N', 'NULL') or v.nul == 'NN'):
            ent = self.W.nullable_fields.get(tuple(v.src[1].split('.', 1)))
            if ent is None or ent.get('implied'):
                return      # nullability tied to a kind invariant of the owner that may hold unseen here: judged at dereferences only
            key = (node.id, how)
            bad = v.nul in ('N', 'NULL')
            rec = self.nnsinks.get(key)
            if rec is None or (bad and not rec['bad']):
                # what receives the object that now holds the value (tells apart two such uses in one function): the call the constructor call is an argument of
                user = None
                call = node.enclosing('CallExpr') if how != 'store' else None
                outer = call.enclosing('CallExpr') if call is not None else None
                if outer is not None:
                    user = outer.callee()
                self.nnsinks[key] = {'node': node, 'how': how, 'bad': bad, 'src': v.src, 'path': v.path, 'ctx': self.context(S), 'expr': node.src(), 'field': field, 'user': user}

    def established(self):
        """{parameter index: frozenset of '->field'}: nullable-table fields of what the parameter points to that are assigned (or not optional for the owner's kind) on every normal return"""
        out = {}
        if not self.ret_facts:
            return out
        for i, p in enumerate(self.params):
            r = '%s@%s' % (p.name, p.id)
            rec = rec_of(p.type)
            if rec is None or not is_ptr_type(p.type) or r in self.assigned_params:
                continue
            sufs = set()
            for (rc, f), e in self.W.nullable_fields.items():
                if rc != rec:
                    continue
                ow = e.get('only_when')
                q = r + '->' + f
                good = True
                for c, S in self.ret_facts:
                    fact = S.nul.get(q)
                    if fact is not None and fact[0] in ('NN', 'U'):
                        continue
                    if ow:
                        kf = S.vs.get(r + '->' + ow[0])
                        if kf is not None and ((kf[0] == 'in' and not (kf[1] & ow[1])) or (kf[0] == 'notin' and ow[1] <= kf[1])):
                            continue
                    good = False
                    break
                if good and any((S.nul.get(q) or ('',))[0] in ('NN', 'U') for c, S in self.ret_facts):
                    sufs.add(('->' + f, '%s.%s' % (rc, f)))
            if sufs:
                out[i] = frozenset(sufs)
        return out

    def note_fstore(self, S, lhs, v, node, p=None):
        """store of an integer value into a record field (for the rule on fields that are used as divisors; flags set at construction)"""
        e = lhs
        while e.kind in TRANSPARENT:
            e = e.inner[0]
        if e.kind != 'MemberExpr' or is_ptr_type(e.type) or not is_int_type(e):
            return
        bt = e.inner[0].type or ''
        rec = rec_of(pointee(bt) if e.d.get('isArrow') else bt)
        if rec is None:
            return
        self.fstores.append((rec, e.name, self.zclass(S, v), v.src, node))
        if (e.dtype or e.type or '') in ('_Bool', 'bool'):
            facts = {}
            bp = None
            if p is not None and p.endswith('->' + e.name):
                bp = p[:-(len(e.name) + 2)]
            elif p is not None and p.endswith('.' + e.name):
                bp = p[:-(len(e.name) + 1)]
            if bp is not None:
                for q, f in S.vs.items():
                    if q.startswith(bp + '->') and q.endswith('->kind') and f[0] == 'in' and all(isinstance(x, str) for x in f[1]):
                        facts[q[len(bp):]] = f[1]
            self.flag_stores.append((rec, e.name, v.const if v.path is None else None, facts))

    def e_CompoundAssignOperator(self, e, S):
        out = []
        for s, p, _ in self.lv(e.inner[0], S):
            for s2, v in self.ev(e.inner[1], s):
                if e.opcode in ('/=', '%=') and is_int_type(e):
                    self.note_div(s2, e, e.opcode[0], None, v, e.inner[1])
                if p is not None:
                    old = s2.nul.get(p)
                    self.assign_path(s2, p, UNKNOWN, e)
                    if is_ptr_type(e.inner[0].type) and old is not None and old[0] == 'NN':
                        s2.nul[p] = ('NN', None)
                out.append((s2, UNKNOWN))
        return out

    def e_ConditionalOperator(self, e, S):
        T, F = self.cond(e.inner[0], S)
        out = []
        self.depth += 1
        for s in T:
            out += self.ev(e.inner[1], s)
        for s in F:
            out += self.ev(e.inner[2], s)
        self.depth -= 1
        return out

    def e_StmtExpr(self, e, S):
        sts = self.exec(e.inner[0], [S])
        return [(s, UNKNOWN) for s in sts]

    def e_InitListExpr(self, e, S):
        return [(s, UNKNOWN) for s, _ in self.ev_list([c for c in e.inner], S)]

    def e_CompoundLiteralExpr(self, e, S):
        return [(s, Val(nul='NN')) for s, _ in self.ev_list([c for c in e.inner], S)]

    def e_ImplicitValueInitExpr(self, e, S):
        return [(S, Val(const=0, nul='NULL' if is_ptr_type(e.type) else None))]

    def e_VAArgExpr(self, e, S):
        return [(s, UNKNOWN) for s, _ in self.ev_list(e.inner, S)]

    def e_CallExpr(self, e, S):
        c = e.callee()
        args = e.args()
        if c == '__builtin_expect' and args:
            out = []
            for s, vs in self.ev_list(args, S):
                out.append((s, vs[0]))
            return out
        pre = [(S, None)]
        if c is None:
            pre = []
            for s, fv in self.ev(e.inner[0], S):
                pre.append((s, fv))
        out = []
        for s0, fv in pre:
            for s, vals in self.ev_list(args, s0):
                n0 = len(out)
                snaps = None
                if c in self.W.kept:
                    snaps = {}
                    for i, v in enumerate(vals):
                        if v.addr_of is not None and v.path is None and not v.addr_of.endswith(']'):
                            a = args[i].strip_all()
                            if a.kind == 'UnaryOperator' and a.opcode == '&':
                                snaps[i] = (v.addr_of, self.snapshot(s, v.addr_of))
                self.call_one(e, c, args, s, vals, out)
                if snaps:
                    out[n0:] = self.restore_kept(c, args, out[n0:], snaps)
                if c in self.W.len_predicates:
                    out[n0:] = self.refine_len_predicate(c, args, vals, out[n0:])
        return out

    def snapshot(self, S, p):
        return ([(q, f) for q, f in S.nul.items() if _ext(p, q)], [(q, f) for q, f in S.vs.items() if _ext(p, q)],
                [(q, o) for q, o in S.ali.items() if _ext(p, q) or _ext(p, o)])

    def restore_kept(self, c, args, res, snaps):
        """`c(&x, ...)`: on the outcomes on which c never stores through that parameter (W.kept, from c's own body), x keeps its facts"""
        k = self.W.kept[c]
        out = []
        for s, v in res:
            if k['pred'] and v.path is None and v.const in (0, 1):
                tags = [('T' if v.const == 1 else 'F', s, v)]
            elif k['pred'] and v.path is None and v.const is None and not isinstance(v.ctype, tuple):
                tags = [('T', s, Val(const=1)), ('F', s.copy(), Val(const=0))]
            elif k['pred']:
                tags = [(None, s, v)]
            else:
                tags = [('A', s, v)]
            for tag, s2, v2 in tags:
                keep = (k['T'] & k['F']) if tag is None else k[tag]
                for i, (x, snap) in snaps.items():
                    if i in keep:
                        for q, f in snap[0]:
                            s2.nul[q] = f
                        for q, f in snap[1]:
                            s2.vs[q] = f
                        for q, o in snap[2]:
                            s2.ali[q] = o
                out.append((s2, v2))
        return out

    def _table_of_nonempty_strings(self, x):
        """x reads a string out of a table (`ops[i].name`, `names[i]`): a variable of this function or of the unit whose initializer lists
        string literals that are all non-empty, and which no statement of the unit assigns to"""
        n = x
        while n.kind in ('MemberExpr', 'ArraySubscriptExpr', 'ImplicitCastExpr', 'ParenExpr') and n.inner:
            n = n.inner[0]
        if n is x or n.kind != 'DeclRefExpr' or n.ref_kind != 'VarDecl':
            return False
        decl = None
        for d in self.fd.walk():
            if d.kind == 'VarDecl' and d.id == n.ref_id:
                decl = d
        if decl is None:
            g = self.u.globals.get(n.ref_name)
            if g is not None and g.id == n.ref_id:
                decl = g
        if decl is None:
            return False
        lits = [y for y in decl.walk() if y.kind == 'StringLiteral']
        if not lits or any(not (y.str_value() or '') for y in lits):
            return False
        for fd in self.u.functions.values():
            for b in fd.walk():
                if b.kind in ('BinaryOperator', 'CompoundAssignOperator') and (b.opcode or '').endswith('=') and b.opcode not in ('==', '!=', '<=', '>=') and b.inner:
                    l = b.inner[0]
                    while l.kind in ('MemberExpr', 'ArraySubscriptExpr', 'ImplicitCastExpr', 'ParenExpr') and l.inner:
                        l = l.inner[0]
                    if l.kind == 'DeclRefExpr' and l.ref_id == n.ref_id:
                        return False
        return True

    def refine_len_predicate(self, c, args, vals, res):
        """c(tok, "lit") is true only for a token whose length is strlen(lit): with a non-empty literal the token is not the
        end marker (whose length is 0, checked by the rule module).  Splits an unknown outcome."""
        ti, si, when = self.W.len_predicates[c]
        if ti >= len(vals) or (si is not None and si >= len(args)) or vals[ti].path is None:
            return res
        lit = args[si].str_value() if si is not None else '?'
        if lit is None:
            x = args[si].strip_all()
            if x.kind == 'DeclRefExpr' and x.ref_kind == 'ParmVarDecl' and (self.fname, self.param_idx.get(x.ref_id)) in self.W.nonempty_strs:
                lit = '?'          # every caller passes a non-empty literal
            elif self._table_of_nonempty_strings(x):
                lit = '?'          # an entry of a table that holds non-empty string literals only and is never written
        rec = rec_of(pointee(args[ti].type or ''))
        em = self.W.end_marker.get(rec)
        if not lit or em is None:
            return res
        q = vals[ti].path + '->' + em[0]
        out = []
        for s, v in res:
            if when == 'return':
                pass                # holds whenever the function returns (it diagnoses the marker)
            elif v.const == 0 and v.path is None:
                out.append((s, v))
                continue
            elif v.const is None or v.path is not None:
                f = s.copy()
                if isinstance(v.ctype, tuple) and v.path is None:     # remembered outcome of a repeated pure call
                    s.pc[v.ctype[0]] = (True, v.ctype[1])
                    f.pc[v.ctype[0]] = (False, v.ctype[1])
                out.append((f, Val(const=0)))
                v = Val(const=1)
            cur = s.vs.get(q)
            if cur is None:
                uni = self.universe(em[1], None)
                if uni:
                    self.set_vs(s, q, ('in', uni - frozenset([em[1]])))
                else:
                    s.vs[q] = ('notin', frozenset([em[1]]))
            elif cur[0] == 'notin':
                s.vs[q] = ('notin', cur[1] | frozenset([em[1]]))
            else:
                r = cur[1] - frozenset([em[1]])
                if not r:
                    continue        # the end marker never compares equal to a non-empty string
                self.set_vs(s, q, ('in', r))
            out.append((s, v))
        return out

    def call_one(self, e, c, args, s, vals, out):
        if c is None:
            out.append((s, UNKNOWN))
            return
        if c in self.W.record_calls:
            self.calls.append((e, c, s.copy(), vals))
        for i, v in enumerate(vals):
            if v.nul in ('N', 'NULL') and is_ptr_type(args[i].type):
                if (c, i) not in self.null_args:
                    self.null_args[(c, i)] = v.src or ('arg', 'NULL is passed by %s()' % self.fname)
            if self.W.mustderef.get((c, i)):
                self.check_deref(s, v, args[i], 'arg%d of %s()' % (i + 1, c))
            if self.W.mustnn.get((c, i)) and self.W.resolve(self.u, c) is not None:
                self.note_sink(s, v, args[i], 'arg%d of %s()' % (i + 1, c), self.W.mustnn[(c, i)])
            if self.W.mustdiv.get((c, i)) and self.W.resolve(self.u, c) is not None:
                self.note_div(s, args[i], 'arg%d of %s()' % (i + 1, c), None, v, args[i])
            if v.src is not None and v.src[0] in ZSRC and (c, i) not in self.zero_args and not is_ptr_type(args[i].type) and self.zclass(s, v) == 'z':
                self.zero_args[(c, i)] = v.src
        if c in self.W.noreturn:
            self.exited = True
            return
        for i, v in enumerate(vals):
            if v.addr_of is not None and v.path is None:
                a = args[i].strip_all()
                if a.kind == 'UnaryOperator' and a.opcode == '&':
                    s.kill(v.addr_of)
                    s.nul[v.addr_of] = ('U', None)
                    ot = self.W.out_taint.get((c, i)) if self.W.resolve(self.u, c) is not None else None
                    if ot is not None:
                        # the callee has stored a value of the input there (with the bounds every return of the callee guarantees)
                        s.nul[v.addr_of] = ('N', ('zero', '%s()' % c, 'stored through parameter %d of %s(): %s' % (i + 1, c, ot[0][2] if len(ot[0]) > 2 else ot[0][1])))
                        if ot[1]:
                            s.vs[v.addr_of + '#lb'] = ('in', frozenset([1]))
                        if ot[2]:
                            s.vs[v.addr_of + '#ub'] = ('in', frozenset([1]))
                        for strict, rels in ((True, ot[3] if len(ot) > 3 else ()), (False, ot[4] if len(ot) > 4 else ())):
                            for k, suf in rels:
                                if k < len(vals) and vals[k].path is not None:
                                    self.add_rel(s, v.addr_of, strict, self.canon_path(s, vals[k].path + suf))
            elif v.path is not None and (args[i].type or '').replace(' ', '').endswith('**'):
                s.kill(v.path + '[]')          # a pointer handed on: the callee may store through it
                s.nul[v.path + '[]'] = ('U', None)
        for g in self.W.gwrites.get(c, ()):
            s.kill('G:' + g)
        if self.W.resolve(self.u, c) is not None:
            for i, v in enumerate(vals):
                est = self.W.establishes.get((c, i))
                if est and v.path is not None:
                    for suf, fld in est:
                        s.nul[v.path + suf] = ('NN', ('field', fld, 'assigned by %s()' % c))
        r = Val()
        src = self.W.nullable_rets.get(c)
        if src is not None and is_ptr_type(e.type):
            r.nul, r.src = 'N', src
        rk = self.W.ret_kind.get(c)
        if rk is not None:
            if isinstance(rk, tuple):
                i = rk[1]
                if i < len(vals):
                    if vals[i].ename is not None:
                        r.rk = vals[i].ename
                    elif vals[i].rk is not None and isinstance(vals[i].rk, tuple):
                        r.rk = vals[i].rk
            else:
                r.rk = rk
            if r.nul is None:
                r.nul = 'NN'
        rv = self.W.ret_vals.get(c)
        if rv and r.vs is None:
            r.vs = ('in', rv)
        zs = self.W.zero_rets.get(c)
        if zs is not None and r.nul is None and not is_ptr_type(e.type) and self.W.resolve(self.u, c) is not None:
            r.nul, r.src = 'N', zs
        if c in self.W.evaluators and vals and vals[0].path is not None:
            # the value of an expression node: a test of it is remembered (which operands the code evaluates under which outcome)
            r.ctype = ('value-of(%s)' % vals[0].path, frozenset([vals[0].path]))
        ti = self.W.truth_helpers.get(c)
        if ti is not None and ti < len(vals) and vals[ti].path is not None and self.W.resolve(self.u, c) is not None:
            # the truth value of exactly that node (derived from the helper's return states): the same outcome
            r.ctype = ('value-of(%s)' % vals[ti].path, frozenset([vals[ti].path]))
        if c in self.W.pure and not is_ptr_type(e.type) and (c, tuple(a.src() for a in args)) in self.repeated_pure:
            pk = self.pure_key(c, args, vals)
            if pk is not None:
                known = s.pc.get(pk[0])
                if known is not None:
                    out.append((s, Val(const=1 if known[0] else 0)))
                    return
                r.addr_of = None
                r.ctype = pk     # carried to truth(): lets the branch remember the outcome
        summ = self.W.fact_summ.get(c) if self.W.resolve(self.u, c) is not None else None
        if summ is not None:
            done = False
            for tag, const in (('T', 1), ('F', 0), ('A', None), ('Z', None)):
                for d in summ.get(tag, ()):
                    s3 = self.apply_summary(s.copy(), d, vals)
                    if s3 is not None:
                        if tag == 'Z':
                            out.append((s3, Val(nul='NULL', const=0, src=r.src)))
                        else:
                            out.append((s3, Val(const=const) if const is not None else r))
                        done = True
            if done:
                return
        out.append((s, r))

    def pure_key(self, c, args, vals):
        parts = []
        paths = []
        for a, v in zip(args, vals):
            if v.path is not None:
                parts.append(v.path)
                paths.append(v.path)
            elif v.const is not None:
                parts.append(str(v.const))
            else:
                sv = a.str_value()
                if sv is None:
                    return None
                parts.append(repr(sv))
        return ('%s(%s)' % (c, ','.join(parts)), frozenset(paths))

    def apply_summary(self, S, d, vals):
        """add the callee's return facts (about what its parameters point to) to S; None if contradictory"""
        for (i, suf), tag in d[0]:
            if i >= len(vals) or vals[i].path is None:
                continue
            q = vals[i].path + suf
            cur = S.nul.get(q)
            if cur is not None and cur[0] in ('NN', 'NULL') and cur[0] != tag:
                return None
            S.nul[q] = (tag, cur[1] if cur else None)
        for (i, suf), f in d[1]:
            if i >= len(vals) or vals[i].path is None:
                continue
            q = vals[i].path + suf
            cur = S.vs.get(q)
            if cur is None:
                self.set_vs(S, q, f)
            elif cur[0] == 'in':
                r = cur[1] & f[1]
                if not r:
                    return None
                self.set_vs(S, q, ('in', r))
            else:
                r = f[1] - cur[1]
                if not r:
                    return None
                self.set_vs(S, q, ('in', r))
        return S

    # ---- conditions --------------------------------------------------------------
    def cond(self, e, S):
        """([states where e is true], [states where e is false])"""
        while e.kind in TRANSPARENT or (e.kind == 'ImplicitCastExpr' and e.cast_kind not in ('NullToPointer',)):
            e = e.inner[0]
        k = e.kind
        if k == 'UnaryOperator' and e.opcode == '!':
            T, F = self.cond(e.inner[0], S)
            return F, T
        if k == 'BinaryOperator':
            op = e.opcode
            if op == '&&':
                T1, F1 = self.cond(e.inner[0], S)
                T, F = [], list(F1)
                self.depth += 1
                for s in T1:
                    t2, f2 = self.cond(e.inner[1], s)
                    T += t2
                    F += f2
                self.depth -= 1
                return norm(T), norm(F)
            if op == '||':
                T1, F1 = self.cond(e.inner[0], S)
                T, F = list(T1), []
                self.depth += 1
                for s in F1:
                    t2, f2 = self.cond(e.inner[1], s)
                    T += t2
                    F += f2
                self.depth -= 1
                return norm(T), norm(F)
            if op in ('==', '!='):
                T, F = [], []
                for s, (va, vb) in self.ev_list(e.inner[:2], S):
                    t, f = self.compare(s, va, vb, e.inner[0], e.inner[1])
                    if va.path is not None and vb.path is not None:
                        # x <= y and x != y: x < y
                        for st in f:
                            for pv, cv in ((va, vb), (vb, va)):
                                w = st.vs.get(pv.path + '#le')
                                b = self.canon_path(st, cv.path)
                                if w is not None and w[0] == 'rel' and b in w[1]:
                                    r = w[1] - frozenset([b])
                                    if r:
                                        st.vs[pv.path + '#le'] = ('rel', r)
                                    else:
                                        del st.vs[pv.path + '#le']
                                    self.add_rel(st, pv.path, True, b)
                    T += t
                    F += f
                return (T, F) if op == '==' else (F, T)
            if op in ('<', '>', '<=', '>='):
                T, F = [], []
                for s, (va, vb) in self.ev_list(e.inner[:2], S):
                    if va.const is not None and vb.const is not None:
                        r = {'<': va.const < vb.const, '>': va.const > vb.const, '<=': va.const <= vb.const, '>=': va.const >= vb.const}[op]
                        (T if r else F).append(s)
                    else:
                        # relational constraint on a path: remember that its value is no longer "any value of its type"
                        for v in (va, vb):
                            if v.path is not None:
                                s.vs[v.path + '#rel'] = ('in', frozenset([1]))
                        f = s.copy()
                        # a may-be-zero input value compared with a constant: the outcomes that exclude 0
                        for pv, cv, o in ((va, vb, op), (vb, va, {'<': '>', '>': '<', '<=': '>=', '>=': '<='}[op])):
                            if pv.path is None or cv.const is None or cv.path is not None or not self.is_zero_tracked(s, pv):
                                continue
                            c = cv.const
                            t_nz = (o == '>' and c >= 0) or (o == '>=' and c >= 1) or (o == '<' and c <= 0) or (o == '<=' and c <= -1)
                            f_nz = (o == '<=' and c >= 0) or (o == '<' and c >= 1) or (o == '>=' and c <= 0) or (o == '>' and c <= -1)
                            if t_nz:
                                s.nul[pv.path] = ('NN', pv.src)
                                s.vs.pop(pv.path + '#rel', None)
                            if f_nz:
                                f.nul[pv.path] = ('NN', pv.src)
                                f.vs.pop(pv.path + '#rel', None)
                        # bounds of a value of the input (for host array indices): `#lb` = not negative, `#ub` = limited from above by some test
                        for pv, cv, o in ((va, vb, op), (vb, va, {'<': '>', '>': '<', '<=': '>=', '>=': '<='}[op])):
                            if pv.path is None or not self.is_zero_tracked(s, pv):
                                continue
                            if cv.const is not None and cv.path is None:
                                c = cv.const
                                t_lb = (o == '>' and c >= -1) or (o == '>=' and c >= 0)
                                f_lb = (o == '<' and c >= 0) or (o == '<=' and c >= -1)
                                ubc = True
                            else:
                                lbc = cv.path is not None and any((q + '#lb') in s.vs for q in (cv.path, s.ali.get(cv.path)) if q)
                                t_lb = lbc and o in ('>', '>=')
                                f_lb = lbc and o in ('<', '<=')
                                # the other side limits from above unless it is itself a value of the input that nothing limits
                                ubc = not (cv.src is not None and cv.src[0] in ZSRC) or (cv.path is not None and any((q + '#ub') in s.vs for q in (cv.path, s.ali.get(cv.path)) if q))
                            for st, lb, ub in ((s, t_lb, ubc and o in ('<', '<=')), (f, f_lb, ubc and o in ('>', '>='))):
                                if lb:
                                    st.vs[pv.path + '#lb'] = ('in', frozenset([1]))
                                if ub:
                                    st.vs[pv.path + '#ub'] = ('in', frozenset([1]))
                        self.note_rel(s, f, va, vb, e.inner[0], e.inner[1], op)
                        T.append(s)
                        F.append(f)
                return T, F
            if op == ',':
                T, F = [], []
                for s, _ in self.ev(e.inner[0], S):
                    t, f = self.cond(e.inner[1], s)
                    T += t
                    F += f
                return T, F
        if k == 'ConditionalOperator':
            T1, F1 = self.cond(e.inner[0], S)
            T, F = [], []
            self.depth += 1
            for s in T1:
                t, f = self.cond(e.inner[1], s)
                T += t
                F += f
            for s in F1:
                t, f = self.cond(e.inner[2], s)
                T += t
                F += f
            self.depth -= 1
            return norm(T), norm(F)
        T, F = [], []
        for s, v in self.ev(e, S):
            t, f = self.truth(s, v)
            T += t
            F += f
        return T, F

    def truth(self, S, v):
        if v.const is not None:
            return ([S], []) if v.const != 0 else ([], [S])
        if isinstance(v.ctype, tuple) and v.path is None:
            k, ps = v.ctype
            T, F = S, S.copy()
            T.pc[k] = (True, ps)
            F.pc[k] = (False, ps)
            return [T], [F]
        if v.nul == 'NN':
            return [S], []
        if v.nul == 'NULL':
            return [], [S]
        if v.path is not None:
            f = S.vs.get(v.path)
            if f is not None:
                if f[0] == 'in' and 0 not in f[1] and all(isinstance(x, int) for x in f[1]):
                    return [S], []
                if f[0] == 'in' and f[1] == frozenset([0]):
                    return [], [S]
            T, F = S, S.copy()
            T.nul[v.path] = ('NN', v.src if v.nul == 'N' else None)
            F.nul[v.path] = ('NULL', v.src if v.nul == 'N' else None)
            self.ev_outcome(v.path, T, F)
            if self.W.flag_kinds and not self.flag_true(T, v.path):
                return [], [F]
            return [T], [F]
        return [S], [S.copy()]

    def flag_true(self, T, path):
        """the boolean field at `path` is true: the kinds its owner was validated to have when the flag was set (W.flag_kinds); False if contradictory"""
        rec = self.path_rec.get(path)
        if rec is None or '->' not in path:
            return True
        base, fld = path.rsplit('->', 1)
        fk = self.W.flag_kinds.get((rec, fld))
        if not fk:
            return True
        for suf, K in fk.items():
            q = base + suf
            cur = T.vs.get(q)
            if cur is None:
                self.set_vs(T, q, ('in', frozenset(K)))
            elif cur[0] == 'in':
                r = cur[1] & K
                if not r:
                    return False
                self.set_vs(T, q, ('in', frozenset(r)))
            else:
                r = frozenset(K) - cur[1]
                if not r:
                    return False
                self.set_vs(T, q, ('in', r))
        return True

    def ev_outcome(self, path, T, F):
        """the tested local holds the result of an evaluator call: remember the outcome like a test of the call itself"""
        pk = self.evlocals.get(path)
        if pk is not None and not any(_root(q) in self.assigned_params for q in pk[1]):
            if T is not None:
                T.pc[pk[0]] = (True, pk[1])
            if F is not None:
                F.pc[pk[0]] = (False, pk[1])

    def set_vs(self, S, path, fact):
        S.vs[path] = fact
        if fact[0] == 'in' and len(fact[1]) == 1 and path.endswith('->kind'):
            h = self.hooks.get('on_kind')
            if h:
                k = list(fact[1])[0]
                if isinstance(k, str):
                    h(self, S, path[:-6], k)

    def universe(self, ename, node):
        if ename is None:
            return None
        en = self.u.enum_of.get(ename)
        return self.W.enum_universe.get(en) if en else None

    def is_zero_tracked(self, S, v):
        """v is a path holding an integer value of the input that can be 0 (or the result of an evaluator call)"""
        if v.path is None:
            return False
        if v.path in self.evlocals:
            return True
        return v.src is not None and v.src[0] in ZSRC and v.nul in ('N', 'NN', 'NULL')

    def compare(self, S, va, vb, na, nb):
        """states where va == vb, states where va != vb"""
        T, F = self.compare0(S, va, vb, na, nb)
        for pv, cv in ((va, vb), (vb, va)):
            if pv.path is not None and cv.path is None and cv.const == 0 and not is_ptr_type(na.type) and self.is_zero_tracked(S, pv):
                # `x == 0` on a tracked integer: the same facts as `!x`
                for st in T:
                    st.nul[pv.path] = ('NULL', pv.src)
                    self.ev_outcome(pv.path, None, st)
                for st in F:
                    st.nul[pv.path] = ('NN', pv.src)
                    self.ev_outcome(pv.path, st, None)
            elif pv.path is None and isinstance(pv.ctype, tuple) and pv.ctype[0].startswith('value-of(') and cv.path is None and cv.const == 0:
                # `eval(x) == 0`: the outcome of the evaluator call itself
                for st in T:
                    st.pc[pv.ctype[0]] = (False, pv.ctype[1])
                for st in F:
                    st.pc[pv.ctype[0]] = (True, pv.ctype[1])
        return T, F

    def compare0(self, S, va, vb, na, nb):
        if va.path is not None and vb.path is not None and is_ptr_type(na.type) and (S.ali.get(va.path) == vb.path or S.ali.get(vb.path) == va.path):
            return [S], []      # one is a plain copy of the other and neither was assigned since: equal
        # constant on the left: swap
        if (va.const is not None or va.nul == 'NULL') and va.path is None and not (vb.const is not None and vb.path is None):
            va, vb, na, nb = vb, va, nb, na
        if vb.path is None and (vb.nul == 'NULL' or (vb.const == 0 and is_ptr_type(na.type))):
            t, f = self.truth(S, va)
            return f, t
        if va.path is not None and vb.path is not None and (self.u.name, self.fname) in self.W.cursor_compare:
            rec = rec_of(pointee(na.type or ''))
            em = self.W.end_marker.get(rec)
            if em is not None and rec == rec_of(pointee(nb.type or '')):
                T, F = S, S.copy()
                uni = self.universe(em[1], None)
                for v in (va, vb):
                    q = v.path + '->' + em[0]
                    cur = F.vs.get(q)
                    if uni and (cur is None or cur[0] != 'in'):
                        F.vs[q] = ('in', uni - frozenset([em[1]]))
                    elif uni and cur[0] == 'in' and (cur[1] - frozenset([em[1]])):
                        F.vs[q] = ('in', cur[1] - frozenset([em[1]]))
                return [T], [F]
        if vb.path is None and vb.const is not None:
            cname = vb.ename if vb.ename is not None else vb.const
            if va.const is not None and va.path is None:
                return ([S], []) if va.const == vb.const else ([], [S])
            if va.path is not None:
                cur = S.vs.get(va.path)
                if cur is None and va.vs is not None:
                    cur = va.vs
                uni = self.universe(vb.ename, nb)
                if cur is None and uni is not None:
                    cur = ('in', uni)
                if cur is not None and cur[0] == 'in' and uni is not None and not all(isinstance(x, str) for x in cur[1]):
                    cur = ('in', uni)
                T, F = S, S.copy()
                if cur is None:
                    self.set_vs(T, va.path, ('in', frozenset([cname])))
                    F.vs[va.path] = ('notin', frozenset([cname]))
                    if cname == 0:
                        T.nul[va.path] = ('NULL', None)
                    return [T], [F]
                if cur[0] == 'in':
                    tset = cur[1] & frozenset([cname])
                    fset = cur[1] - frozenset([cname])
                    Ts, Fs = [], []
                    if tset:
                        self.set_vs(T, va.path, ('in', tset))
                        Ts.append(T)
                    if fset:
                        self.set_vs(F, va.path, ('in', fset))
                        Fs.append(F)
                    return Ts, Fs
                # notin
                if cname in cur[1]:
                    return [], [S]
                self.set_vs(T, va.path, ('in', frozenset([cname])))
                F.vs[va.path] = ('notin', cur[1] | frozenset([cname]))
                return [T], [F]
        return [S], [S.copy()]

    # ---- statements --------------------------------------------------------------
    def has_label(self, s):
        r = self._haslabel.get(id(s))
        if r is None:
            r = any(n.kind in ('CaseStmt', 'DefaultStmt', 'LabelStmt') for n in s.walk())
            self._haslabel[id(s)] = r
        return r

    def exec(self, s, sts):
        if not sts and not self.has_label(s):
            return []
        k = s.kind
        m = getattr(self, 'x_' + k, None)
        if m is not None:
            return norm(m(s, sts))
        # expression statement
        out = []
        for S in sts:
            out += [st for st, _ in self.ev(s, S)]
        return norm(out)

    def x_CompoundStmt(self, s, sts):
        cur = sts
        for c in s.inner:
            cur = self.exec(c, cur)
        return cur

    def x_NullStmt(self, s, sts):
        return sts

    def x_DeclStmt(self, s, sts):
        cur = sts
        for d in s.inner:
            if d.kind != 'VarDecl':
                continue
            p = '%s@%s' % (d.name, d.id)
            self.roots[p] = d.type
            init = None
            if 'init' in d.d:
                ex = [c for c in d.inner if not c.kind.endswith('Attr')]
                init = ex[-1] if ex else None
            nxt = []
            for S in cur:
                if init is None:
                    S.kill(p)
                    nxt.append(S)
                    continue
                for s2, v in self.ev(init, S):
                    if init.kind == 'InitListExpr':
                        s2.kill(p)
                    else:
                        self.assign_path(s2, p, v, d, decl=True)
                    nxt.append(s2)
            cur = nxt
        return cur

    def x_IfStmt(self, s, sts):
        T, F = [], []
        for S in sts:
            t, f = self.cond(s.inner[0], S)
            T += t
            F += f
        T, F = norm(T), norm(F)
        self.depth += 1
        out = self.exec(s.inner[1], T)
        if len(s.inner) > 2:
            out = out + self.exec(s.inner[2], F)
        else:
            out = out + F
        self.depth -= 1
        return out

    def loop(self, s, sts, cond, body, inc, do_first=False):
        self.brk.append([])
        exits = []
        seen = {}
        work = norm(sts)
        for st in work:
            seen[st.key()] = st
        rounds = 0
        while work:
            rounds += 1
            cur = [st.copy() for st in work]
            if not do_first:
                if cond is not None:
                    T, F = [], []
                    for S in cur:
                        t, f = self.cond(cond, S)
                        T += t
                        F += f
                    exits += F
                    cur = norm(T)
            self.depth += 1
            self.cnt.append([])
            out = self.exec(body, cur)
            out = out + self.cnt.pop()
            if inc is not None:
                nxt = []
                for S in norm(out):
                    nxt += [st for st, _ in self.ev(inc, S)]
                out = nxt
            self.depth -= 1
            if do_first:
                T, F = [], []
                for S in norm(out):
                    t, f = self.cond(cond, S)
                    T += t
                    F += f
                exits += F
                out = T
            new = []
            for st in norm(out):
                kk = st.key()
                if kk not in seen:
                    seen[kk] = st
                    new.append(st)
            if not new:
                break
            if rounds >= LOOP_ROUNDS:
                j = join_states(list(seen.values()))
                if j.key() in seen and rounds > LOOP_ROUNDS:
                    break
                seen[j.key()] = j
                work = [j]
                if rounds > 40:
                    raise AnalysisBroken('loop fixpoint does not converge in %s' % self.fname)
            else:
                work = new
        exits += self.brk.pop()
        return exits

    def x_WhileStmt(self, s, sts):
        return self.loop(s, sts, s.inner[0], s.inner[-1], None)

    def x_DoStmt(self, s, sts):
        return self.loop(s, sts, s.inner[1], s.inner[0], None, do_first=True)

    def x_ForStmt(self, s, sts):
        raw = s.d.get('inner', [])
        slots = []
        it = iter(s.inner)
        for r in raw:
            slots.append(next(it) if (isinstance(r, dict) and r) else None)
        init, _cv, cond, inc, body = (slots + [None] * 5)[:5]
        if init is not None:
            sts = self.exec(init, sts)
        return self.loop(s, sts, cond, body, inc)

    def x_BreakStmt(self, s, sts):
        if self.brk:
            self.brk[-1] += sts
        return []

    def x_ContinueStmt(self, s, sts):
        if self.cnt:
            self.cnt[-1] += sts
        return []

    def x_ReturnStmt(self, s, sts):
        for S in sts:
            if s.inner:
                for s2, v in self.ev(s.inner[0], S):
                    rk = v.rk
                    if rk is None and v.path is not None:
                        f = s2.vs.get(v.path + '->kind')
                        if f is not None and f[0] == 'in' and len(f[1]) == 1:
                            rk = list(f[1])[0]
                        else:
                            rk = '?'
                    self.returns.append((v.nul, v.src, rk if rk is not None else '?'))
                    if v.src is not None and v.src[0] == 'zero' and self.zclass(s2, v) == 'z':
                        self.zrets.append(v.src)
                    self.ret_facts.append((v.const if v.path is None else None, s2))
                    self.ret_consts.append(self.enum_set(v))
                    if self.keep_exit_states:
                        self.exit_states.append(s2)
                        self.exit_vals.append((v.path, s2))
            else:
                self.returns.append((None, None, None))
                self.ret_facts.append((None, S))
                if self.keep_exit_states:
                    self.exit_states.append(S)
        self.exited = True
        return []

    def x_SwitchStmt(self, s, sts):
        condx = s.inner[0]
        body = s.inner[-1]
        cases = [n for n in body.walk() if n.kind in ('CaseStmt', 'DefaultStmt') and n.enclosing('SwitchStmt') is s]
        entry = {}
        has_default = any(n.kind == 'DefaultStmt' for n in cases)
        exits = []
        for S in sts:
            for s2, v in self.ev(condx, S):
                consts = []
                for cs in cases:
                    if cs.kind != 'CaseStmt':
                        continue
                    lo = self.case_value(cs.inner[0])
                    hi = self.case_value(cs.inner[1]) if len(cs.inner) > 2 else None
                    if hi is not None and lo is not None and isinstance(lo[0], int) and isinstance(hi[0], int):
                        vals = [(x, None) for x in range(lo[0], hi[0] + 1)] if hi[0] - lo[0] < 512 else None
                    else:
                        vals = [lo] if lo is not None else None
                    st = self.switch_refine(s2.copy(), v, vals, True)
                    if vals:
                        consts += vals
                    else:
                        consts = None if consts is None else consts
                    if st is not None:
                        entry.setdefault(id(cs), []).append(st)
                rest = self.switch_refine(s2.copy(), v, consts, False) if consts is not None else s2.copy()
                if rest is not None:
                    if has_default:
                        for cs in cases:
                            if cs.kind == 'DefaultStmt':
                                entry.setdefault(id(cs), []).append(rest)
                    else:
                        exits.append(rest)
        self.sw.append(entry)
        self.brk.append([])
        self.depth += 1
        out = self.exec(body, [])
        self.depth -= 1
        exits += out + self.brk.pop()
        self.sw.pop()
        return exits

    def case_value(self, n):
        v = None
        for x in n.walk():
            if x.kind == 'ConstantExpr' and x.value is not None:
                v = int(x.value)
                break
        if v is None:
            v = n.int_value()
        if v is None:
            return None
        m = n.strip_all()
        en = m.ref_name if (m.kind == 'DeclRefExpr' and m.ref_kind == 'EnumConstantDecl') else None
        return (v, en)

    def switch_refine(self, S, v, vals, positive):
        """S refined by `switch value in vals` (positive) or `not in vals`"""
        if vals is None:
            return S
        if v.const is not None and v.path is None:
            hit = any(x[0] == v.const for x in vals)
            return S if hit == positive else None
        pk = v.ctype if (v.path is None and isinstance(v.ctype, tuple) and v.ctype[0].startswith('value-of(')) else self.evlocals.get(v.path)
        if pk is not None and vals:
            # a switch on the value of an expression node: which outcome (zero / nonzero) this arm stands for
            has0 = any(x[0] == 0 for x in vals)
            if positive:
                outcome = False if all(x[0] == 0 for x in vals) else (None if has0 else True)
            else:
                outcome = True if has0 else None
            if outcome is not None and not any(_root(q) in self.assigned_params for q in pk[1]):
                S.pc[pk[0]] = (outcome, pk[1])
        if v.path is None:
            return S
        names = frozenset((x[1] if x[1] is not None else x[0]) for x in vals)
        uni = None
        for x in vals:
            if x[1] is not None:
                uni = self.universe(x[1], None)
                break
        cur = S.vs.get(v.path)
        if cur is None and v.vs is not None:
            cur = v.vs
        if cur is None and uni is not None:
            cur = ('in', uni)
        if cur is not None and cur[0] == 'in' and uni is not None and not all(isinstance(x, str) for x in cur[1]):
            cur = ('in', uni)
        if cur is None:
            if positive:
                self.set_vs(S, v.path, ('in', names))
            else:
                S.vs[v.path] = ('notin', names)
            return S
        if cur[0] == 'in':
            r = (cur[1] & names) if positive else (cur[1] - names)
            if not r:
                return None
            self.set_vs(S, v.path, ('in', r))
            return S
        if positive:
            r = names - cur[1]
            if not r:
                return None
            self.set_vs(S, v.path, ('in', r))
        else:
            S.vs[v.path] = ('notin', cur[1] | names)
        return S

    def x_CaseStmt(self, s, sts):
        ent = self.sw[-1].get(id(s), []) if self.sw else []
        cur = norm(sts + [st.copy() for st in ent])
        return self.exec(s.inner[-1], cur)

    x_DefaultStmt = x_CaseStmt

    def x_LabelStmt(self, s, sts):
        # target of a goto: nothing is known
        return self.exec(s.inner[-1], norm(sts + [St()]))

    def x_GotoStmt(self, s, sts):
        return []

    # ---- entry ---------------------------------------------------------------------
    def run(self):
        body = None
        for c in self.fd.inner:
            if c.kind == 'CompoundStmt':
                body = c
        if body is None:
            raise AnalysisBroken('no body for %s' % self.fname)
        for p in self.params:
            self.roots['%s@%s' % (p.name, p.id)] = p.type
        S = St()
        pre = self.hooks.get('entry')
        if pre:
            pre(self, S)
        for i, suf in self.W.entry_facts.get((self.u.name, self.fname), ()):
            if i < len(self.params):
                rec = rec_of(self.params[i].type)
                em = self.W.end_marker.get(rec)
                uni = self.universe(em[1], None) if em else None
                if uni:
                    S.vs['%s@%s%s->%s' % (self.params[i].name, self.params[i].id, suf, em[0])] = ('in', uni - frozenset([em[1]]))
        out = self.exec(body, [S])
        for S in out:
            self.returns.append((None, None, None))
            self.ret_facts.append((None, S))
            if self.keep_exit_states:
                self.exit_states.append(S)
        return self

    def truth_param(self):
        """index of the parameter whose truth value this function returns: every return is the constant 1 in a state where a test of an
        evaluator's result for that parameter was non-zero, or the constant 0 where it was zero; None otherwise"""
        if not self.ret_facts or not self.W.evaluators:
            return None
        for i, p in enumerate(self.params):
            r = '%s@%s' % (p.name, p.id)
            if rec_of(p.type) != 'Node' or not is_ptr_type(p.type) or r in self.assigned_params:
                continue
            k = 'value-of(%s)' % r
            if all(c in (0, 1) and S.pc.get(k) is not None and S.pc[k][0] == (c == 1) for c, S in self.ret_facts):
                return i
        return None

    def kept_params(self):
        """pointer-to-pointer parameters this function never stores through (nor hands to a callee), per outcome"""
        cand = {}
        for i, p in enumerate(self.params):
            r = '%s@%s' % (p.name, p.id)
            if (p.type or '').replace(' ', '').endswith('**') and r not in self.assigned_params:
                cand[r] = i
        if not cand or not self.ret_facts:
            return None
        pred = all(c in (0, 1) for c, S in self.ret_facts)
        out = {'pred': pred, 'T': set(cand.values()), 'F': set(cand.values()), 'A': set(cand.values())}
        for c, S in self.ret_facts:
            tag = ('T' if c == 1 else 'F') if pred else 'A'
            for r, i in cand.items():
                if any(q.startswith(r + '[') for d in (S.nul, S.vs) for q in d):
                    out[tag].discard(i)
        if not (out['T'] if pred else set()) and not (out['F'] if pred else set()) and not (out['A'] if not pred else set()):
            return None
        return out

    def summary(self):
        """facts about the objects reachable from the parameters that hold when the function returns
        (split by a constant 0/1 result for predicates); None if nothing is learned"""
        roots = {}
        for i, p in enumerate(self.params):
            r = '%s@%s' % (p.name, p.id)
            if r not in self.assigned_params:
                roots[r] = i

        def disj(S):
            nul, vs = {}, {}
            for q, v in S.nul.items():
                r = _root(q)
                if r in roots and v[0] in ('NN', 'NULL'):
                    nul[(roots[r], q[len(r):])] = v[0]
            for q, f in S.vs.items():
                r = _root(q)
                if r not in roots and q in S.ali and f[0] == 'in' and all(isinstance(x, str) for x in f[1]):
                    # a local that is a plain copy of something reachable from a parameter (`TypeKind k = ty->kind;`), not assigned since
                    q = S.ali[q]
                    r = _root(q)
                    if (roots.get(r), q[len(r):]) in vs or q in S.vs:
                        continue
                if r in roots and f[0] == 'in' and all(isinstance(x, (str, int)) for x in f[1]) and '#' not in q:
                    vs[(roots[r], q[len(r):])] = f
            return (frozenset(nul.items()), frozenset(vs.items()))
        groups = {'T': set(), 'F': set(), 'A': set(), 'Z': set()}
        pred = bool(self.ret_facts) and all(c in (0, 1) for c, S in self.ret_facts)
        ptr = is_ptr_type((self.fd.type or '').split('(')[0].strip())
        for c, S in self.ret_facts:
            d = disj(S)
            if pred:
                groups['T' if c == 1 else 'F'].add(d)
            elif ptr and c == 0:
                groups['Z'].add(d)       # `return NULL`: the facts under which the function finds nothing
            else:
                groups['A'].add(d)
        out = {}
        for g, ds in groups.items():
            ds = list(ds)
            if len(ds) > 6:
                # keep only what all disjuncts agree on
                n = frozenset.intersection(*[d[0] for d in ds])
                v = frozenset.intersection(*[d[1] for d in ds])
                ds = [(n, v)]
            out[g] = sorted(ds, key=repr)
        if not pred:
            if out['Z'] and out['A']:
                if all(not d[0] and not d[1] for d in out['A'] + out['Z']):
                    return None
                return {'A': out['A'], 'Z': out['Z']}
            out['A'] = sorted(set(out['A']) | set(out['Z']), key=repr)
            if len(out['A']) > 6:
                out['A'] = [(frozenset.intersection(*[d[0] for d in out['A']]), frozenset.intersection(*[d[1] for d in out['A']]))]
            if not out['A'] or all(not d[0] and not d[1] for d in out['A']):
                return None
            return {'A': out['A']}
        if all(not d[0] and not d[1] for d in out['T'] + out['F']):
            return None
        return {'T': out['T'], 'F': out['F']}


INT_SPELLINGS = frozenset(['int', 'long', 'short', 'unsigned int', 'unsigned long', 'unsigned short', 'unsigned', 'long long', 'unsigned long long',
                           'int64_t', 'uint64_t', 'int32_t', 'uint32_t', 'size_t', 'ssize_t'])
ZSRC = ('zero', 'zerop')     # provenance kinds of integer values of the input: 'zerop' = received through a parameter (judged at divisions only)
PROPAGATING = ('null', 'param', 'ret', 'arg', 'global')


def solve(W, max_rounds=12):
    """run every function to a fixpoint of the derived tables (must-deref params, nullable params, nullable results,
    constructor kinds, return-fact summaries, value sets); returns the engines of the last run of every function.
    After the first round only functions whose callees' (or own) table entries changed are re-run."""
    engines = {}
    callees = {}
    greads = {}
    for un, u in W.units.items():
        for f, fd in u.functions.items():
            callees.setdefault(f, set()).update(c.callee() for c in fd.calls() if c.callee())
            greads.setdefault(f, set()).update(n.ref_name for n in fd.walk() if n.kind == 'DeclRefExpr' and n.ref_kind == 'VarDecl' and n.ref_id in u.by_id)
    dirty = None     # None = everything
    gstores = {}     # function -> its global stores (kept across rounds)
    for rnd in range(max_rounds):
        touched = set()      # functions whose summaries/tables changed in this round
        for un, u in W.units.items():
            for f in u.functions:
                if dirty is not None and f not in dirty:
                    continue
                eng = Engine(W, u, f).run()
                engines[(un, f)] = eng
                for i in eng.mustderef:
                    if not W.mustderef.get((f, i)):
                        W.mustderef[(f, i)] = True
                        touched.add(f)
                if len(W.fn_unit.get(f, ())) == 1:
                    for i, fld in eng.muststore.items():
                        if (f, i) not in W.mustnn:
                            W.mustnn[(f, i)] = fld
                            touched.add(f)
                    est = eng.established()
                    for i in set(est) | set(k[1] for k in W.establishes if k[0] == f):
                        if W.establishes.get((f, i)) != est.get(i):
                            if i in est:
                                W.establishes[(f, i)] = est[i]
                            else:
                                del W.establishes[(f, i)]
                            touched.add(f)
                            touched.add('=' + f)
                for (c, i), src in eng.null_args.items():
                    if c not in W.fn_unit:
                        continue
                    if src is not None and src[0] not in PROPAGATING:
                        continue
                    if (c, i) not in W.nullable_params:
                        W.nullable_params[(c, i)] = ('param', 'NULL can be passed by %s()' % f)
                        touched.add('=' + c)
                for (c, i), src in eng.zero_args.items():
                    if len(W.fn_unit.get(c, ())) == 1 and (c, i) not in W.zero_params:
                        W.zero_params[(c, i)] = ('zerop', 'parameter %d of %s()' % (i + 1, c), '%s() passes %s unchecked' % (f, src[1]))
                        touched.add('=' + c)
                if f not in W.truth_helpers and f not in W.evaluators and len(W.fn_unit.get(f, ())) == 1:
                    th = eng.truth_param()
                    if th is not None:
                        W.truth_helpers[f] = th
                        W.record_calls.add(f)
                        touched.add(f)
                if len(W.fn_unit.get(f, ())) == 1:
                    ots = eng.out_taints()
                    for i in set(ots) | set(k[1] for k in W.out_taint if k[0] == f):
                        if W.out_taint.get((f, i)) != ots.get(i):
                            if i in ots:
                                W.out_taint[(f, i)] = ots[i]
                            else:
                                del W.out_taint[(f, i)]
                            touched.add(f)
                for i in eng.mustdiv:
                    if not W.mustdiv.get((f, i)) and len(W.fn_unit.get(f, ())) == 1:
                        W.mustdiv[(f, i)] = True
                        touched.add(f)
                rt = (eng.fd.type or '').split('(')[0].strip()
                if eng.zrets and f not in W.zero_rets and not is_ptr_type(rt) and rt not in ('void', '_Bool', 'bool', 'double', 'float', 'long double') and len(W.fn_unit.get(f, ())) == 1:
                    W.zero_rets[f] = ('zero', '%s()' % f, 'it can return a value of the input: %s' % eng.zrets[0][1])
                    touched.add(f)
                if is_ptr_type(rt) and f not in W.nullable_rets:
                    for nul, src, rk in eng.returns:
                        if nul == 'NULL' or (nul == 'N' and src is not None and src[0] in PROPAGATING):
                            W.nullable_rets[f] = ('ret', 'the result of %s() may be NULL' % f)
                            touched.add(f)
                            break
                if eng.ret_consts and len(W.fn_unit.get(f, ())) == 1:
                    rv = None
                    if all(x is not None for x in eng.ret_consts):
                        rv = frozenset().union(*eng.ret_consts)
                    if rv != W.ret_vals.get(f):
                        if rv is None:
                            W.ret_vals.pop(f, None)
                        else:
                            W.ret_vals[f] = rv
                        touched.add(f)
                gstores[(un, f)] = eng.gstores
                if len(W.fn_unit.get(f, ())) == 1:
                    kp = eng.kept_params()
                    if kp != W.kept.get(f):
                        if kp is None:
                            W.kept.pop(f, None)
                        else:
                            W.kept[f] = kp
                        touched.add(f)
                sm = eng.summary() if f not in W.recursive else None
                if sm != W.fact_summ.get(f) and len(W.fn_unit.get(f, ())) == 1:
                    if sm is None:
                        W.fact_summ.pop(f, None)
                    else:
                        W.fact_summ[f] = sm
                    touched.add(f)
                if is_ptr_type(rt):
                    rks = set(rk for nul, src, rk in eng.returns if not (nul == 'NULL'))
                    if len(rks) == 1:
                        rk = list(rks)[0]
                        if rk not in ('?', None) and W.ret_kind.get(f) != rk:
                            W.ret_kind[f] = rk
                            touched.add(f)
        # enum-typed globals: initial value (zero = the enumerator with value 0, or the initializer) + every store
        gst = {}
        for lst in gstores.values():
            for g, es in lst:
                gst.setdefault(g, []).append(es)
        gv = {}
        for g, lst in gst.items():
            if any(x is None for x in lst):
                continue
            owners = [u for u in W.units.values() if g in u.globals]
            if len(owners) != 1:
                continue
            d = owners[0].globals[g]
            et = (d.type or '').replace('static ', '').strip()
            uni = W.enum_universe.get(et)
            if not uni:
                continue
            init = None
            if 'init' in d.d and d.inner:
                x = d.inner[-1].strip_all()
                if x.kind == 'DeclRefExpr' and x.ref_kind == 'EnumConstantDecl':
                    init = x.ref_name
                else:
                    continue
            else:
                zs = [n for n in owners[0].enum_types.get(et, []) if owners[0].enums.get(n) == 0]
                if len(zs) != 1:
                    continue
                init = zs[0]
            gv[g] = frozenset([init]).union(*lst)
        gchanged = set(g for g in set(gv) | set(W.global_vals) if gv.get(g) != W.global_vals.get(g))
        W.global_vals = gv
        if not touched and not gchanged:
            break
        dirty = set()
        own = set(t[1:] for t in touched if t.startswith('='))
        called = set(t for t in touched if not t.startswith('='))
        for f, cs in callees.items():
            if f in own or (cs & called) or (greads.get(f, set()) & gchanged):
                dirty.add(f)
        if not dirty:
            break
    else:
        raise AnalysisBroken('derived tables do not reach a fixpoint')
    W.rounds = rnd + 1
    return engines


def derive_flag_kinds(W, engines):
    """boolean fields that are set to true only where a sub-object of the owner is known to have certain kinds (the constructor validated it):
    (record, field) -> {suffix: kinds}.  A store of a value that is not a constant makes the field underivable.  Returns the field names."""
    acc = {}
    # records that are also built by an initializer list with explicit values (`&(Type){TY_INT, 4, 4, true}`): their flags are not only set by stores
    listed = set()
    for u in W.units.values():
        for top in list(u.globals.values()) + list(u.functions.values()):
            for n in top.walk():
                if n.kind == 'InitListExpr' and any(c.kind != 'ImplicitValueInitExpr' for c in n.inner):
                    r = rec_of(n.type)
                    if r:
                        listed.add(r)
    for e in engines.values():
        for rec, fld, const, facts in e.flag_stores:
            k = (rec, fld)
            if const == 0:
                continue
            if rec in listed:
                acc[k] = None
                continue
            if const is None or not facts:
                acc[k] = None
            elif k not in acc:
                acc[k] = dict(facts)
            elif acc[k] is not None:
                acc[k] = {suf: (K | facts[suf]) for suf, K in acc[k].items() if suf in facts} or None
    W.flag_kinds = {k: v for k, v in acc.items() if v}
    return set(f for (r, f) in W.flag_kinds)


def derive_entry_facts(W, engines, skip_units=(), max_rounds=6):
    """Assume/guarantee for marker-ended lists: where a function loads the link of a parameter element (or of its successors)
    that is not known to differ from the end marker, try the precondition "the caller passes an element that is not the
    marker"; it is kept only if EVERY call in the program establishes it (checked on the callers' states; the address of the
    function is not taken).  Greatest fixpoint: candidates are assumed together, failing ones are dropped and everything
    that depended on them is analysed again.  Returns {(unit, f): {(i, suffix): [call sites checked]}} of the kept ones."""
    links = set('%s.%s' % (rec, em[2]) for rec, em in W.end_marker.items())
    linkname = {rec: em[2] for rec, em in W.end_marker.items()}
    taken = set()
    callers = {}
    for un, u in W.units.items():
        for g, fd in u.functions.items():
            cal = set()
            for c in fd.calls():
                x = c.inner[0].strip_all() if c.inner else None
                if x is not None:
                    cal.add(id(x))
                if c.callee():
                    callers.setdefault(c.callee(), set()).add((un, g))
            for n in fd.walk():
                if n.kind == 'DeclRefExpr' and n.ref_kind == 'FunctionDecl' and id(n) not in cal:
                    taken.add(n.ref_name)
    dropped = set()
    kept = {}
    for rnd in range(max_rounds):
        cand = set()
        for (un, f), e in engines.items():
            if un in skip_units or f in taken or len(W.fn_unit.get(f, ())) != 1 or not callers.get(f):
                continue
            for d in e.derefs.values():
                src = d['src']
                if not d['bad'] or not src or src[0] != 'field' or src[1] not in links or len(src) < 4 or not src[3]:
                    continue
                base = src[3]
                root = _root(base)
                pid = root.split('@', 1)[1] if '@' in root else None
                if pid not in e.param_idx:
                    continue
                suf = base[len(root):]
                ln = linkname.get(rec_of(e.params[e.param_idx[pid]].type))
                if ln is None or suf.replace('->' + ln, '') != '' or suf.count('->') > 2:
                    continue
                k = (un, f, e.param_idx[pid], suf)
                if k not in dropped and (e.param_idx[pid], suf) not in W.entry_facts.get((un, f), ()):
                    cand.add(k)
        if not cand:
            break
        for un, f, i, suf in cand:
            W.entry_facts.setdefault((un, f), set()).add((i, suf))
            W.record_calls.add(f)
        spins = 0
        while True:
            spins += 1
            if spins > 40:
                raise AnalysisBroken('the preconditions on marker-ended lists do not reach a fixpoint')
            todo = set()
            lifts = {}
            for (un, f) in W.entry_facts:
                todo.add((un, f))
                todo |= callers.get(f, set())
            for (un, g) in todo:
                if un not in skip_units:
                    engines[(un, g)] = Engine(W, W.units[un], g).run()
            failing = set()
            for (un, f), facts in W.entry_facts.items():
                for (i, suf) in facts:
                    sites = []
                    ok = True
                    for (cu, g) in callers.get(f, ()):
                        e = engines.get((cu, g))
                        if e is None or cu in skip_units:
                            ok = False
                            continue
                        for node, c, S, vals in e.calls:
                            if c != f:
                                continue
                            v = vals[i] if i < len(vals) else None
                            em = W.end_marker.get(rec_of(pointee(node.args()[i].type or ''))) if v is not None else None
                            fct = S.vs.get(v.path + suf + '->' + em[0]) if (v is not None and v.path is not None and em) else None
                            good = fct is not None and ((fct[0] == 'in' and em[1] not in fct[1]) or (fct[0] == 'notin' and em[1] in fct[1]))
                            sites.append('%s:%s' % (cu, g))
                            if not good:
                                ok = False
                                # the argument is (a successor of) the caller's own parameter: the caller may in turn rely on its callers
                                if v is not None and v.path is not None:
                                    root = _root(v.path)
                                    pid = root.split('@', 1)[1] if '@' in root else None
                                    full = v.path[len(root):] + suf
                                    if (pid in e.param_idx and full.replace('->' + em[2], '') == '' and full.count('->') <= 2 and g not in taken
                                            and len(W.fn_unit.get(g, ())) == 1 and callers.get(g) and (cu, g, e.param_idx[pid], full) not in dropped
                                            and (e.param_idx[pid], full) not in W.entry_facts.get((cu, g), ())):
                                        lifts.setdefault((un, f, i, suf), set()).add((cu, g, e.param_idx[pid], full))
                        if not any(c == f for node, c, S, vals in e.calls):
                            ok = False       # a call the engine did not reach/record
                    if not ok or not sites:
                        failing.add((un, f, i, suf))
                    else:
                        kept.setdefault((un, f), {})[(i, suf)] = sorted(set(sites))
            if not failing:
                break
            lifted = [k for k in failing if k in lifts]
            if lifted:
                for k in lifted:
                    for cu, g, j, full in lifts[k]:
                        W.entry_facts.setdefault((cu, g), set()).add((j, full))
                        W.record_calls.add(g)
                continue          # try again with the callers' own preconditions assumed (they are verified in the same loop)
            for un, f, i, suf in failing:
                dropped.add((un, f, i, suf))
                W.entry_facts[(un, f)].discard((i, suf))
                kept.get((un, f), {}).pop((i, suf), None)
                todo.add((un, f))
            for k in [k for k, v in W.entry_facts.items() if not v]:
                del W.entry_facts[k]
            for (un, g) in todo:          # the functions that lost an assumption are analysed without it
                if un not in skip_units:
                    engines[(un, g)] = Engine(W, W.units[un], g).run()
    return {k: v for k, v in kept.items() if v}
