"""C13 helper: declarations that C11 allows are answered without a diagnostic (R13.13, R13.14).

Engine I (sa/interp.py) runs the two functions of the parser that decide, from a *finite* description of a declaration, whether it is
diagnosed, on every description a conforming compiler accepts:

  function()   for every sequence of file-scope declarations of one function (storage class none/static/extern x inline x with/without
               body) that can still be completed to a valid translation unit.  The earlier declarations are represented by the Obj that
               function() itself produced for them (breadth-first closure over the reachable Obj states, each paired with the C11 history:
               linkage fixed by the first declaration, 6.2.2p3-5; whether a body was seen).  A sequence is invalid only if a later
               declaration says `static` after the first one gave external linkage (6.2.2p7) or if a second body appears (6.9p3/p5);
               everything else (an `inline` definition after a plain prototype, 6.7.4p7; `extern` after `static`, 6.2.2p4; a prototype
               after the definition) is valid and must reach no diagnostic.
  declspec()   for declaration-specifier lists made of storage-class specifiers (at most one, or _Thread_local with static/extern,
               6.7.1p2), function specifiers (6.7.4), type qualifiers, _Atomic, an alignment specifier and a type-specifier list of
               6.7.2p2, in several orders (6.7p... the specifiers may appear in any order), with and without a VarAttr (the contexts
               that allow no storage class: parameters, type names).  Every list must be consumed completely and reach no diagnostic.

Nothing here compares source text; the inputs are concrete, so the outcome of each run is the outcome of the compiler on that input.
A diagnostic that is reached only through a decision on a value the interpreter does not know (an opaque call, a lazy field) is reported as
undecided, never as a violation."""
import itertools

from .build import AnalysisBroken
from .interp import Interp, Obj, View, _Ref, _ValPlace, Unsupported

PU = 'parse.c'

# ---------------------------------------------------------------------------------------------------------------------------------
# Engine I set-up


class _LocalEnumInterp(Interp):
    """Engine I + enumerators declared inside a function body (cast.Unit registers file-scope enums only)"""
    local_enums = {}

    def e_DeclRefExpr(self, n, env):
        if n.ref_kind == 'EnumConstantDecl' and n.ref_id in self.local_enums:
            return self.local_enums[n.ref_id]
        return Interp.e_DeclRefExpr(self, n, env)

    def const_of(self, n):
        for x in n.walk():
            if x.kind == 'ConstantExpr' and x.value is not None:
                return int(x.value)
        v = self.eval(n, {})
        if not isinstance(v, int):
            raise AnalysisBroken('case label not constant at %s:%d' % (self.unit.name, n.line))
        return v


def _local_enums(fn):
    out = {}
    for d in fn.walk():
        if d.kind != 'EnumDecl':
            continue
        val = -1
        for c in d.inner:
            if c.kind != 'EnumConstantDecl':
                continue
            v = None
            for e in c.walk():
                if e.kind == 'ConstantExpr' and e.value is not None:
                    v = int(e.value)
                    break
            if v is None and c.inner:
                v = c.inner[0].int_value()
            if v is None and c.inner:
                raise AnalysisBroken('value of local enumerator %s not constant' % c.name)
            val = v if v is not None else val + 1
            out[c.id] = val
    return out


class Env:
    """parse.c with every function opaque except the ones under analysis and the private helpers only they call (so that extracting a
    helper from an analysed function does not blind the rule)"""

    def __init__(self, P, unit=PU):
        self.P = P
        self.u = P.unit(unit)
        self.E = self.u.enums
        for k in ('TK_KEYWORD', 'TK_IDENT', 'TK_EOF', 'TK_PUNCT', 'TK_NUM', 'TY_INT', 'TY_FUNC'):
            if k not in self.E:
                raise AnalysisBroken('enumerator %s vanished' % k)
        self.all = set()
        for un in P.unit_names:
            self.all |= set(P.unit(un).functions)
        self.callers = {}
        for f, fd in self.u.functions.items():
            for n in fd.walk():
                if n.kind == 'DeclRefExpr' and n.ref_kind == 'FunctionDecl' and n.ref_name in self.u.functions:
                    self.callers.setdefault(n.ref_name, set()).add(f)
        it = P.unit(PU).fn('is_typename')
        if it is None:
            raise AnalysisBroken('anchor is_typename vanished')
        self.typenames = set(x.str_value() for x in it.walk() if x.kind == 'StringLiteral')

    def inlined(self, keep, blocked):
        s = set(keep)      # helpers of other units (consume, skip) are inlined when named
        changed = True
        while changed:
            changed = False
            for g in self.u.functions:
                if g in s or g in blocked:
                    continue
                cs = self.callers.get(g, set()) - {g}
                if cs and cs <= s:
                    s.add(g)
                    changed = True
        return s

    def interp(self, keep, cut=None, models=None, blocked=(), globals_=None, local_enums_of=None, **kw):
        cut = cut or {}
        models = models or {}
        inl = self.inlined(keep, set(blocked) | set(cut) | set(models))
        cfg = {'opaque': self.all - inl, 'cut': cut, 'models': models, 'globals': globals_ or {}, 'track_stores': True}
        cfg.update(kw)
        it = _LocalEnumInterp(self.P, self.u, cfg)
        if local_enums_of:
            it.local_enums = _local_enums(self.u.fn(local_enums_of))
        it.c13_inlined = inl
        return it

    # ---- concrete tokens ----------------------------------------------------------------------------------------------------
    def token(self, s, nxt=0):
        E = self.E
        if s == '':
            k = E['TK_EOF']
        elif s in self.typenames:
            k = E['TK_KEYWORD']
        elif s[0].isdigit():
            k = E['TK_NUM']
        elif s[0].isalpha() or s[0] == '_':
            k = E['TK_IDENT']
        else:
            k = E['TK_PUNCT']
        return Obj('Token', lazy=False, label='tok:' + (s or '<eof>'), fields={'kind': k, 'loc': s, 'len': len(s), 'next': nxt, 'val': int(s) if s.isdigit() else 0})

    def tokens(self, seq):
        nxt = self.token('')
        for s in reversed(seq):
            nxt = self.token(s, nxt)
        return nxt

    def token_models(self):
        E, typenames = self.E, self.typenames

        def m_equal(it, ctx, call, args):
            t = it.settle(args[0]) if isinstance(args[0], View) else args[0]
            if isinstance(t, Obj) and isinstance(t.fields.get('loc'), str) and isinstance(args[1], str):
                return int(t.fields['loc'] == args[1])
            raise AnalysisBroken('equal() on a token that is not concrete')

        def m_is_typename(it, ctx, call, args):
            t = args[0]
            return int(isinstance(t, Obj) and t.fields.get('kind') == E['TK_KEYWORD'] and t.fields.get('loc') in typenames)
        return {'equal': m_equal, 'is_typename': m_is_typename, 'find_typedef': lambda it, ctx, c, a: 0}


def pure_walks(u):
    """functions of the unit that only read: no call at all, no store except to their own locals and parameters, no global variable mentioned.  Such a
    function (a walk over ty->base looking for a kind, say) is a function of its arguments and of the objects they point to; on concrete witness objects
    Engine I can simply follow it, whoever else calls it."""
    out = set()
    for f, fd in u.functions.items():
        own = set(d.id for d in fd.walk() if d.kind in ('VarDecl', 'ParmVarDecl'))
        ok = u.body(f) is not None
        for n in fd.walk():
            if not ok:
                break
            if n.kind in ('CallExpr', 'StmtExpr', 'GCCAsmStmt', 'VAArgExpr', 'AtomicExpr'):
                ok = False
            elif n.kind == 'DeclRefExpr' and n.ref_kind in ('VarDecl', 'ParmVarDecl') and n.ref_id not in own:
                ok = False
            elif n.kind == 'VarDecl' and ('static' in (n.d.get('storageClass') or '')):
                ok = False
            elif (n.kind in ('BinaryOperator', 'CompoundAssignOperator') and (n.opcode or '').endswith('=') and n.opcode not in ('==', '!=', '<=', '>=')) \
                    or (n.kind == 'UnaryOperator' and n.opcode in ('++', '--')):
                t = n.inner[0].strip()
                if not (t.kind == 'DeclRefExpr' and t.ref_id in own):
                    ok = False
        if ok:
            out.add(f)
    return out


def _msg(out):
    """message of a ('noreturn', fn, args, line) outcome"""
    for a in out[2]:
        if isinstance(a, str):
            return a
    return '?'


def _determined(ctx):
    """no decision on an unknown value was taken on this path: the outcome is the outcome of the compiler on the concrete input"""
    return not ctx.decisions and not ctx.facts


# ---------------------------------------------------------------------------------------------------------------------------------
# R13.13 function(): sequences of declarations of one function

STORAGE = (None, 'static', 'extern')
FLAG_OF = {'static': 'is_static', 'extern': 'is_extern'}


def _decls():
    return [(sc, inl, body) for sc in STORAGE for inl in (0, 1) for body in (0, 1)]


def _doc(d):
    sc, inl, body = d
    return '+'.join([x for x in (sc, 'inline' if inl else None) if x] or ['plain']) + ('+body' if body else '')


def _spell(d, name='f'):
    sc, inl, body = d
    return ' '.join(x for x in (sc, 'inline' if inl else None, 'int %s(void)' % name) if x) + (' {...}' if body else ';')


def c11_next(hist, d):
    """C11 history of the identifier after the declaration d, or None if the sequence cannot be part of a valid translation unit any more.
    hist = None (no earlier declaration) | (linkage, defined)"""
    sc, inl, body = d
    if hist is None:
        return ('internal' if sc == 'static' else 'external', body)                    # 6.2.2p3, p5
    linkage, defined = hist
    if sc == 'static' and linkage == 'external':
        return None                                                                      # 6.2.2p7
    if body and defined:
        return None                                                                      # 6.9p3, p5
    return (linkage, defined or body)                                                  # 6.2.2p4, p5: the linkage of the earlier declaration


def r1313_function(P, rep, rule='R13.13'):
    rep.rule(rule, 'function() answers every sequence of declarations of one function that C11 allows without a diagnostic: storage class none/static/extern x inline x '
                   'with/without body, after every earlier declaration history (linkage fixed by the first declaration, C11 6.2.2p3-5; at most one body); only `static` after '
                   'a first declaration with external linkage (6.2.2p7) and a second body (6.9p3) are errors. Decided by interpreting function() on the concrete specifier flags '
                   'and on the Obj it produced itself for the earlier declarations (closure over all reachable states)', floor=40)
    env = Env(P)
    u = env.u
    fd = u.fn('function')
    if fd is None:
        rep.undecided(rule, '%s:function:anchor' % PU, 'function() vanished')
        return
    fline = fd.line
    where = '%s:%d' % (PU, fline)
    rec = u.records.get('VarAttr')
    orec = u.records.get('Obj')
    if not rec or not orec:
        rep.undecided(rule, '%s:function:records' % PU, 'struct VarAttr / struct Obj vanished')
        return
    afields = [f for f, t, b in rec]
    need = ['is_static', 'is_extern', 'is_inline']
    if any(f not in afields for f in need):
        rep.undecided(rule, '%s:function:specifier-flags' % PU, 'VarAttr no longer has the flags %s (has %s): the specifiers of a declaration cannot be described' % (need, afields))
        return
    E = env.E
    tint = Obj('Type', lazy=False, label='int', fields={'kind': E['TY_INT'], 'size': 4, 'align': 4})

    def h_find(it, ctx, n, args):
        ctx.c13_looked = True
        return ctx.c13_prior

    # every declaration of the sequence declares `int f(void)`: one Type object, so that a compatibility test of the old and the new type (t1 == t2) is decided
    fty = Obj('Type', lazy=False, label='int(void)', fields={f: 0 for f, t, b in (u.records.get('Type') or [])})
    fty.fields.update({'kind': E['TY_FUNC'], 'name': env.token('f'), 'name_pos': env.token('f'), 'return_ty': tint, 'params': 0, 'is_variadic': 0, 'align': 1, 'size': 1})

    def h_decl(it, ctx, n, args):
        if not args or not isinstance(args[0], _Ref):
            raise AnalysisBroken('declarator() is not called with the address of the token cursor')
        args[0].place.set(it, ctx.c13_after)
        return fty
    try:
        it = env.interp(('function', 'new_gvar', 'new_var', 'is_compatible'), cut={'find_func': h_find, 'declarator': h_decl, 'compound_stmt': None},
                        models=env.token_models(), blocked=('create_param_lvars', 'resolve_goto_labels'), globals_={'globals': 0, 'current_fn': 0})
    except AnalysisBroken as ex:
        rep.undecided(rule, '%s:function:engine' % PU, str(ex), where=where)
        return

    def run(d, prior):
        sc, inl, body = d

        def mk(ctx):
            ctx.c13_after = env.tokens(['{', '}'] if body else [';'])
            ctx.c13_prior = 0
            ctx.c13_looked = False
            if prior is not None:
                ctx.c13_prior = Obj('Obj', lazy=False, label='earlier-declaration', fields=dict(prior, ty=fty, name='f'))
            a = Obj('VarAttr', lazy=False, label='attr', fields={f: 0 for f in afields})
            if sc:
                a.fields[FLAG_OF[sc]] = 1
            a.fields['is_inline'] = inl
            return [Obj('Token', lazy=True, label='tok'), tint, a]
        return it.explore('function', mk, max_paths=64)

    def snapshot(o):
        out = {}
        for f, t, b in orec:
            v = o.fields.get(f, 0)
            v = it.settle(v) if isinstance(v, View) else v
            if isinstance(v, bool):
                v = int(v)
            if (t or '').strip() in ('_Bool', 'bool'):
                if not isinstance(v, int):
                    return None
                out[f] = v
        return out

    # breadth-first closure over (Obj state, C11 history)
    results = {}          # obligation key -> [ok, message, undecided-reason, facts]
    seen = {}
    work = [(None, None, ())]
    nruns = 0
    looked = 0

    def note(key, ok, msg=None, und=None, facts=None):
        r = results.setdefault(key, [True, None, None, None])
        if und and r[2] is None:
            r[2] = und
        if not ok and r[0]:
            r[0], r[1], r[3] = False, msg, facts
    try:
        while work:
            prior, hist, trace = work.pop(0)
            for d in _decls():
                nh = c11_next(hist, d)
                if nh is None:
                    continue
                hname = 'first-declaration' if hist is None else 'after-%s-%s' % (hist[0], 'definition' if hist[1] else 'declaration')
                key = '%s:function:%s/%s' % (PU, hname, _doc(d))
                res = run(d, prior)
                nruns += 1
                if not res:
                    note(key, True, und='no path of function() could be interpreted for `%s`' % _spell(d))
                    continue
                seq = ' '.join([_spell(x) for x in trace] + [_spell(d)])
                rets = [(ctx, out) for ctx, out in res if out[0] == 'ret']
                for ctx, out in res:
                    if out[0] != 'noreturn':
                        continue
                    m = _msg(out)
                    if _determined(ctx):
                        note(key + '<-"%s"' % m.replace(' ', '_'), False,
                             'function() answers the last declaration of `%s` with the diagnostic "%s", but the sequence is valid C11: the linkage of a function is fixed by its first '
                             'declaration (6.2.2p4/p5; `inline` is a function specifier and does not change it, 6.7.4p7), only an explicit `static` after a declaration with external '
                             'linkage and a second body are errors -> a program a conforming compiler accepts is rejected' % (seq, m),
                             facts={'sequence': seq, 'earlier_object': prior, 'c11_history': hist, 'diagnostic_line': out[3] if len(out) > 3 else None})
                    else:
                        note(key, True, und='for `%s` a diagnostic ("%s") is reached through a decision on a value the interpreter does not know (%s)' % (seq, m, ctx.trail[-3:]))
                note(key, True)
                for ctx, out in rets:
                    if ctx.c13_looked:
                        looked += 1
                    if prior is None:
                        cands = []
                        for e in ctx.events:
                            if e[0] == 'fstore' and isinstance(e[1], Obj) and e[2] == 'is_function' and e[1] not in cands:
                                cands.append(e[1])
                        if len(cands) != 1:
                            note(key, True, und='the Obj that function() creates for a first declaration is not recognised (%d objects receive is_function)' % len(cands))
                            continue
                        o = cands[0]
                    else:
                        o = ctx.c13_prior
                    snap = snapshot(o)
                    if snap is None:
                        note(key, True, und='the flags of the function object are not concrete after `%s`' % seq)
                        continue
                    sk = (tuple(sorted(snap.items())), nh)
                    if sk not in seen:
                        seen[sk] = True
                        if len(seen) > 400:
                            raise AnalysisBroken('more than 400 reachable function-object states')
                        work.append((snap, nh, trace + (d,)))          # breadth-first: the shortest sequence that reaches the state
    except (AnalysisBroken, Unsupported) as ex:
        rep.undecided(rule, '%s:function:engine' % PU, 'function() cannot be interpreted on a concrete declaration: %s' % ex, where=where)
        return
    for key, (ok, msg, und, facts) in sorted(results.items()):
        if not ok:
            rep.ob(rule, key, False, msg, where=where, facts=facts)
        elif und:
            rep.undecided(rule, key, und, where=where)
        else:
            rep.ob(rule, key, True, '', where=where)
    if looked == 0:
        rep.undecided(rule, '%s:function:lookup' % PU, 'function() never consulted find_func(): earlier declarations are not represented the way this rule assumes', where=where)
    rep.extra['function_declaration_sequences'] = {'runs': nruns, 'reachable (object state, C11 history) pairs': len(seen)}


# ---------------------------------------------------------------------------------------------------------------------------------
# R13.14 declspec(): declaration-specifier lists

TYPE_LISTS = (('int',), ('unsigned', 'long'), ('double',), ('void',), ('char',))
# (storage-class specifiers, function specifiers allowed with them)
STORAGE_SETS = (
    ((), True), (('typedef',), False), (('extern',), True), (('static',), True), (('_Thread_local',), False),
    (('static', '_Thread_local'), False), (('extern', '_Thread_local'), False), (('auto',), False), (('register',), False),
)
FUNCTION_SPECS = ((), ('inline',), ('_Noreturn',), ('inline', '_Noreturn'))
QUALIFIERS = ((), ('const',), ('volatile',), ('const', 'volatile'), ('_Atomic',), ('const', '_Atomic'))
MAX_ORDERS = 10
C11_6_7_2 = ('void', 'char', 'signed char', 'unsigned char', 'short', 'signed short', 'short int', 'signed short int', 'unsigned short', 'unsigned short int',
             'int', 'signed', 'signed int', 'unsigned', 'unsigned int', 'long', 'signed long', 'long int', 'signed long int', 'unsigned long', 'unsigned long int',
             'long long', 'signed long long', 'long long int', 'signed long long int', 'unsigned long long', 'unsigned long long int', 'float', 'double', 'long double', '_Bool')


def _orders(ms):
    """some orders of a token multiset: all if few, else the first ones, the last ones and rotations (deterministic)"""
    ms = tuple(ms)
    allp = []
    for p in itertools.permutations(ms):
        if p not in allp:
            allp.append(p)
        if len(allp) > 200:
            break
    if len(allp) <= MAX_ORDERS:
        return allp
    out = [ms, tuple(reversed(ms))]
    for i in range(1, len(ms)):
        r = ms[i:] + ms[:i]
        if r not in out:
            out.append(r)
    step = max(1, len(allp) // MAX_ORDERS)
    for p in allp[::step]:
        if p not in out and len(out) < MAX_ORDERS:
            out.append(p)
    return out


def r1314_declspec(P, rep, rule='R13.14'):
    rep.rule(rule, 'declspec() consumes every declaration-specifier list that C11 allows completely and without a diagnostic: at most one storage-class specifier (or '
                   '_Thread_local with static/extern, 6.7.1p2), inline/_Noreturn with none/static/extern (6.7.4), qualifiers and _Atomic, an alignment specifier, with a type-specifier '
                   'list of 6.7.2p2, in several orders; lists without storage class also where no VarAttr is passed (parameters, type names). Decided by interpreting declspec() on '
                   'concrete token lists', floor=100)
    env = Env(P)
    u = env.u
    fd = u.fn('declspec')
    if fd is None:
        rep.undecided(rule, '%s:declspec:anchor' % PU, 'declspec() vanished')
        return
    where = '%s:%d' % (PU, fd.line)
    rec = u.records.get('VarAttr')
    if not rec:
        rep.undecided(rule, '%s:declspec:records' % PU, 'struct VarAttr vanished')
        return
    afields = [f for f, t, b in rec]
    params = u.params('declspec')
    ptypes = [(p.type or '').replace(' ', '') for p in params]
    if ptypes != ['Token**', 'Token*', 'VarAttr*']:
        rep.undecided(rule, '%s:declspec:signature' % PU, 'declspec() no longer has the parameters (Token **rest, Token *tok, VarAttr *attr): %s' % ptypes, where=where)
        return
    missing = sorted(k for k in set(x for s, _ in STORAGE_SETS for x in s) | set(x for f in FUNCTION_SPECS for x in f) | set(x for q in QUALIFIERS for x in q)
                     | set(x for t in TYPE_LISTS for x in t) | {'_Alignas'} if k not in env.typenames)
    for k in missing:
        rep.ob(rule, '%s:is_typename:knows("%s")' % (PU, k), False,
               'is_typename() does not know the specifier `%s`: a declaration that starts with it is not parsed as a declaration and a valid program is rejected' % k,
               where='%s:%d' % (PU, u.fn('is_typename').line))
    E = env.E
    tyglob = {}
    tu = P.unit('type.c')
    for g, d in tu.globals.items():
        if g.startswith('ty_'):
            tyglob[g] = g

    def h_const_expr(it, ctx, call, args):
        rest, tok = args[0], args[1]
        if not (isinstance(rest, _Ref) and isinstance(tok, Obj)):
            raise AnalysisBroken('const_expr() called with unexpected arguments')
        rest.place.set(it, tok.fields.get('next'))
        return 16
    try:
        it = env.interp(('declspec', 'consume', 'skip'), cut={'const_expr': h_const_expr}, models=env.token_models(), local_enums_of='declspec',
                        globals_={g: (lambda ctx, g=g: Obj('Type', lazy=True, label=g)) for g in tyglob})
    except AnalysisBroken as ex:
        rep.undecided(rule, '%s:declspec:engine' % PU, str(ex), where=where)
        return
    results = {}

    def note(key, ok, msg=None, und=None, facts=None):
        r = results.setdefault(key, [True, None, None, None])
        if und and r[2] is None:
            r[2] = und
        if not ok and r[0]:
            r[0], r[1], r[3] = False, msg, facts

    def run(seq, with_attr):
        rest = _ValPlace(0)

        def mk(ctx):
            a = Obj('VarAttr', lazy=False, label='attr', fields={f: 0 for f in afields}) if with_attr else 0
            return [_Ref(rest), env.tokens(list(seq) + ['x', ';']), a]
        res = it.explore('declspec', mk, max_paths=64)
        return rest, res

    def judge(key, ms, with_attr, why_valid, expand=None, fixed_order=False):
        nonlocal nruns
        for seq in ([tuple(ms)] if fixed_order else _orders(ms)):
            if expand:
                seq = tuple(y for x in seq for y in expand.get(x, (x,)))
            spelled = ' '.join(seq) + ' x;'
            ctxname = 'a declaration' if with_attr else 'a context without storage class (parameter, type name)'
            try:
                rest, res = run(seq, with_attr)
            except (AnalysisBroken, Unsupported) as ex:
                note(key, True, und='declspec() cannot be interpreted on `%s`: %s' % (spelled, ex))
                return
            nruns += 1
            if not res:
                note(key, True, und='no path of declspec() could be interpreted for `%s`' % spelled)
                continue
            for ctx, out in res:
                if out[0] == 'noreturn':
                    m = _msg(out)
                    if _determined(ctx):
                        note(key + '<-"%s"' % m.replace(' ', '_')[:60], False,
                             'declspec() answers the specifier list of `%s` (%s) with the diagnostic "%s", but the list is valid C11 (%s; the specifiers may appear in any order) '
                             '-> a program a conforming compiler accepts is rejected' % (spelled, ctxname, m, why_valid),
                             facts={'tokens': list(seq), 'with_VarAttr': with_attr, 'diagnostic_line': out[3] if len(out) > 3 else None})
                    else:
                        note(key, True, und='for `%s` a diagnostic ("%s") is reached through a decision on a value the interpreter does not know (%s)' % (spelled, m, ctx.trail[-3:]))
                    continue
                if not _determined(ctx):
                    note(key, True, und='declspec() takes a decision on an unknown value for the concrete list `%s` (%s)' % (spelled, ctx.trail[-3:]))
                    continue
                # the whole list is consumed: the cursor handed back is the declarator
                r = rest.get(it)
                r = it.settle(r) if isinstance(r, View) else r
                if not (isinstance(r, Obj) and r.fields.get('loc') == 'x'):
                    at = r.fields.get('loc') if isinstance(r, Obj) else r
                    note(key + '<-stops-at-"%s"' % at, False,
                         'declspec() stops in front of `%s` in the specifier list of `%s` (%s) instead of consuming the whole list, which is valid C11 (%s): the rest is then '
                         'parsed as a declarator and a valid program is rejected' % (at, spelled, ctxname, why_valid), facts={'tokens': list(seq), 'with_VarAttr': with_attr})
            note(key, True)
    nruns = 0
    # 1. storage-class and function specifiers (a VarAttr is passed)
    for sset, fn_ok in STORAGE_SETS:
        for fs in (FUNCTION_SPECS if fn_ok else ((),)):
            name = '+'.join(sset + fs) or 'none'
            judge('%s:declspec:storage/%s' % (PU, name), sset + fs + ('int',), True,
                  'C11 6.7.1p2 allows one storage-class specifier, and _Thread_local together with static or extern; 6.7.4 allows inline and _Noreturn on a function declared with no storage class, static or extern')
    # 2. qualifiers and type-specifier lists, with and without VarAttr
    for q in QUALIFIERS:
        for tl in TYPE_LISTS:
            if tl == ('void',) and '_Atomic' in q:
                continue
            for with_attr in (True, False):
                name = '+'.join(q + tl)
                judge('%s:declspec:%s/%s' % (PU, 'declaration' if with_attr else 'no-storage-context', name), q + tl, with_attr,
                      'type qualifiers and _Atomic may accompany any type-specifier list of 6.7.2p2; no storage class is used')
    # 2b. every type-specifier multiset of 6.7.2p2 (the LP64 type each yields is R08.1), as spelled in the standard and reversed
    for spelled in C11_6_7_2:
        ms = tuple(spelled.split())
        for seq in (ms, tuple(reversed(ms))):
            judge('%s:declspec:type-specifiers/%s' % (PU, '+'.join(ms)), seq, True, 'C11 6.7.2p2 lists `%s` as a type-specifier multiset' % spelled, fixed_order=True)
    judge('%s:declspec:no-storage-context/register+int' % PU, ('register', 'int'), False, 'register is the one storage-class specifier a parameter may have (6.7.6.3p2)')
    # 3. alignment specifier (6.7.5) in a declaration
    for tl in (('int',), ('char',)):
        for pre in ((), ('static',)):
            judge('%s:declspec:alignas/%s' % (PU, '+'.join(pre + tl)), pre + ('_Alignas(16)',) + tl, True,
                  'an alignment specifier may appear among the specifiers of an object declaration (6.7.5)', expand={'_Alignas(16)': ('_Alignas', '(', '16', ')')})
    for key, (ok, msg, und, facts) in sorted(results.items()):
        if not ok:
            rep.ob(rule, key, False, msg, where=where, facts=facts)
        elif und:
            rep.undecided(rule, key, und, where=where)
        else:
            rep.ob(rule, key, True, '', where=where)
    rep.extra['declspec_specifier_lists'] = {'runs': nruns}


# ---------------------------------------------------------------------------------------------------------------------------------
# R13.15 operand types that C11 allows reach no typing diagnostic

INTEGER = ('bool', 'char', 'short', 'int', 'long', 'uchar', 'uint', 'ulong', 'enum')
FLOATING = ('float', 'double', 'ldouble')
ARITH = INTEGER + FLOATING
OBJPTR = ('ptr-int', 'ptr-char', 'ptr-struct', 'ptr-ptr-int', 'array-int', 'ptr-array', 'ptr-vla')     # pointers to complete object types (arrays decay)
SAME_BASE = {'ptr-int': ('ptr-int', 'array-int'), 'array-int': ('ptr-int', 'array-int'), 'ptr-char': ('ptr-char',), 'ptr-struct': ('ptr-struct',),
             'ptr-ptr-int': ('ptr-ptr-int',), 'ptr-array': ('ptr-array',), 'ptr-vla': ('ptr-vla',)}
ASSIGNABLE = ARITH + ('ptr-int', 'ptr-void', 'ptr-func', 'ptr-struct', 'struct', 'union')           # modifiable lvalue types (6.5.16p2): not an array, not a function
DEREFABLE = ('ptr-int', 'ptr-char', 'ptr-struct', 'ptr-ptr-int', 'array-int', 'ptr-array', 'ptr-func', 'ptr-vla')  # 6.5.3.2p2: pointer operand; the result of *(void *) is not usable
OBJECT_TYPES = ARITH + ('ptr-int', 'ptr-void', 'ptr-func', 'array-int', 'struct', 'union')          # complete object types a variable may have (6.7p7)


class Types:
    """concrete Type objects; scalars read from type.c (sa.chibi.Catalogue), the rest built the way type.c's constructors build them"""

    def __init__(self, P):
        from .chibi import Catalogue
        self.cat = Catalogue(P)
        self.E = P.unit('type.c').enums
        for k in ('TY_PTR', 'TY_ARRAY', 'TY_VLA', 'TY_STRUCT', 'TY_UNION', 'TY_FUNC', 'TY_ENUM', 'TY_VOID'):
            if k not in self.E:
                raise AnalysisBroken('type kind %s vanished' % k)

    def make(self, name):
        E = self.E

        def T(label, **kw):
            o = Obj('Type', lazy=True, label=label)
            o.fields.update({'base': 0, 'origin': 0, 'is_unsigned': 0, 'is_atomic': 0, 'name': 0, 'next': 0, 'members': 0, 'params': 0, 'return_ty': 0, 'is_variadic': 0,
                             'is_flexible': 0, 'is_packed': 0, 'array_len': 0, 'vla_len': 0})
            o.fields.update(kw)
            return o
        if 'ty_' + name in self.cat.scalars:
            f = self.cat.scalars['ty_' + name]
            return T(name, kind=int(f['kind']), size=int(f['size']), align=int(f['align']), is_unsigned=int(f['is_unsigned'] or 0))
        if name == 'enum':
            c = self.cat.ctors['enum']
            return T(name, kind=E['TY_ENUM'], size=int(c.fields.get('size', 4)), align=int(c.fields.get('align', 4)))
        if name in ('struct', 'union'):
            return T(name, kind=E['TY_STRUCT' if name == 'struct' else 'TY_UNION'], size=8, align=4, members=Obj('Member', lazy=True, label='members'))
        if name == 'func':
            return T(name, kind=E['TY_FUNC'], size=1, align=1, return_ty=self.make('int'))
        if name == 'vla':
            return T(name, kind=E['TY_VLA'], size=8, align=8, base=self.make('int'), vla_len=Obj('Node', lazy=True, label='vla_len'), vla_size=Obj('Obj', lazy=True, label='vla_size'))
        if name.startswith('ptr-'):
            return T(name, kind=E['TY_PTR'], size=8, align=8, is_unsigned=1, base=self.make(name[4:]))
        if name.startswith('array-'):
            b = self.make(name[6:])
            return T(name, kind=E['TY_ARRAY'], size=3 * b.fields['size'], align=b.fields['align'], base=b, array_len=3)
        if name == 'array':
            return self.make('array-int')
        raise AnalysisBroken('no witness type %s' % name)


def _node(env, T, kind, label, **kw):
    n = Obj('Node', lazy=False, label=label, fields={f: 0 for f, t, b in env.u.records['Node']})
    n.fields.update({'kind': env.E[kind], 'ty': T, 'tok': env.token('x')})
    n.fields.update(kw)
    return n


class _Results:
    def __init__(self):
        self.r = {}

    def note(self, key, ok, msg=None, und=None, facts=None):
        r = self.r.setdefault(key, [True, None, None, None])
        if und and r[2] is None:
            r[2] = und
        if not ok and r[0]:
            r[0], r[1], r[3] = False, msg, facts

    def flush(self, rep, rule, where):
        for key, (ok, msg, und, facts) in sorted(self.r.items()):
            if not ok:
                rep.ob(rule, key, False, msg, where=where, facts=facts)
            elif und:
                rep.undecided(rule, key, und, where=where)
            else:
                rep.ob(rule, key, True, '', where=where)


def _judge(R, it, key, fname, mk, what, why_valid, unit=None):
    """run fname on the concrete input; every determined path must return"""
    try:
        res = it.explore(fname, mk, max_paths=64, unit=unit)
    except (AnalysisBroken, Unsupported) as ex:
        R.note(key, True, und='%s() cannot be interpreted on %s: %s' % (fname, what, ex))
        return None
    if not res:
        R.note(key, True, und='no path of %s() could be interpreted for %s' % (fname, what))
        return None
    for ctx, out in res:
        if out[0] != 'noreturn':
            continue
        m = _msg(out)
        if _determined(ctx):
            R.note(key + '<-"%s"' % m.replace(' ', '_')[:60], False,
                   '%s() answers %s with the diagnostic "%s", but C11 allows it (%s) -> a program a conforming compiler accepts is rejected' % (fname, what, m, why_valid),
                   facts={'diagnostic_line': out[3] if len(out) > 3 else None})
        else:
            R.note(key, True, und='for %s a diagnostic ("%s") is reached through a decision on a value the interpreter does not know (%s)' % (what, m, ctx.trail[-3:]))
    R.note(key, True)
    return res


def r1315_typing(P, rep, rule='R13.15'):
    rep.rule(rule, 'operands and declarations whose types C11 allows reach no typing diagnostic: additive operators on arithmetic/pointer operands (6.5.6p2, p3), calls with a '
                   'matching number of arguments through a function or a pointer to function (6.5.2.2p1, p2), assignment to every modifiable lvalue type (6.5.16p2), indirection '
                   'through every pointer to object or function (6.5.3.2p2), `&` of a non-bit-field lvalue (6.5.3.2p1), a variable of every complete object type (6.7p7), a reference '
                   'to a declared enum tag, `.member` on a struct or union (6.5.2.3p1), a bit-field of type _Bool/int/unsigned (6.7.2.1p5). Decided by interpreting new_add, new_sub, funcall, '
                   'add_type, unary, declaration, enum_specifier, struct_ref and struct_members on concrete witness types', floor=85)
    env = Env(P)
    u = env.u
    tys = Types(P)
    E = env.E
    R = _Results()
    tokx = lambda: env.token('+')

    # ---- additive operators -------------------------------------------------------------------------------------------------
    for fname, valid in (('new_add', [(a, b) for a in ARITH for b in ARITH] + [(p, i) for p in OBJPTR for i in INTEGER] + [(i, p) for p in OBJPTR for i in INTEGER]),
                         ('new_sub', [(a, b) for a in ARITH for b in ARITH] + [(p, i) for p in OBJPTR for i in INTEGER] + [(p, q) for p in OBJPTR for q in SAME_BASE[p]])):
        fd = u.fn(fname)
        if fd is None:
            rep.undecided(rule, '%s:%s:anchor' % (PU, fname), '%s() vanished' % fname)
            continue
        if [(p.type or '').replace(' ', '') for p in u.params(fname)] != ['Node*', 'Node*', 'Token*']:
            rep.undecided(rule, '%s:%s:signature' % (PU, fname), '%s() no longer takes (Node *lhs, Node *rhs, Token *tok)' % fname)
            continue
        it = env.interp((fname, 'is_numeric', 'is_integer', 'is_flonum'), models=env.token_models())
        op = '+' if fname == 'new_add' else '-'
        for a, b in valid:
            cls = lambda x: 'integer' if x in INTEGER else ('floating' if x in FLOATING else x)
            key = '%s:%s:%s,%s' % (PU, fname, cls(a), cls(b))
            _judge(R, it, key, fname, lambda ctx, a=a, b=b: [_node(env, tys.make(a), 'ND_VAR', 'lhs'), _node(env, tys.make(b), 'ND_VAR', 'rhs'), tokx()],
                   'the operands `%s %s %s`' % (a, op, b),
                   '6.5.6p2/p3: both operands arithmetic, or a pointer to a complete object type and an integer%s' % ('' if op == '+' else ', or two pointers to compatible object types'))
    # ---- function calls -------------------------------------------------------------------------------------------------------
    fd = u.fn('funcall')
    if fd is None or [(p.type or '').replace(' ', '') for p in u.params('funcall')] != ['Token**', 'Token*', 'Node*']:
        rep.undecided(rule, '%s:funcall:anchor' % PU, 'funcall(Token **rest, Token *tok, Node *fn) vanished')
    else:
        def h_assign(it, ctx, call, args):
            rest, tok = args[0], args[1]
            if not (isinstance(rest, _Ref) and isinstance(tok, Obj)):
                raise AnalysisBroken('assign() called with unexpected arguments')
            rest.place.set(it, tok.fields.get('next'))
            return _node(env, tys.make('int'), 'ND_NUM', 'arg')
        it = env.interp(('funcall', 'skip', 'consume'), cut={'assign': h_assign}, models=env.token_models())
        for callee in ('func', 'ptr-func'):
            for nparams in (0, 1, 2):
                for variadic in (0, 1):
                    for nargs in (0, 1, 2, 3):
                        if not (nargs == nparams or (variadic and nargs >= nparams)):
                            continue

                        def mk(ctx, callee=callee, nparams=nparams, variadic=variadic, nargs=nargs):
                            ft = tys.make('func')
                            nxt = 0
                            for i in range(nparams):
                                p = tys.make('int')
                                p.fields['next'] = nxt
                                nxt = p
                            ft.fields.update({'params': nxt, 'is_variadic': variadic})
                            t = ft
                            if callee == 'ptr-func':
                                t = tys.make('ptr-int')
                                t.fields['base'] = ft
                            seq = []
                            for i in range(nargs):
                                seq += ([','] if i else []) + ['1']
                            return [_Ref(_ValPlace(0)), env.tokens(seq + [')', ';']), _node(env, t, 'ND_VAR', 'fn')]
                        key = '%s:funcall:%s/%d-parameters%s/%s' % (PU, callee, nparams, '+variadic' if variadic else '', 'as-many-arguments' if nargs == nparams else 'more-arguments')
                        _judge(R, it, key, 'funcall', mk, 'a call with %d argument(s) through a %s with %d parameter(s)%s' % (nargs, 'function' if callee == 'func' else 'pointer to function', nparams, ' and `...`' if variadic else ''),
                               '6.5.2.2p1/p2: the called expression is a (pointer to) function and the number of arguments agrees with the number of parameters, or exceeds it for `...`')
    # ---- add_type: assignment and indirection ---------------------------------------------------------------------------------
    tenv = Env(P, 'type.c')
    tu = tenv.u
    if tu.fn('add_type') is None:
        rep.undecided(rule, 'type.c:add_type:anchor', 'add_type() vanished')
    else:
        it = tenv.interp(('add_type',), models=env.token_models())
        for t in ASSIGNABLE:
            cls = 'integer' if t in INTEGER else ('floating' if t in FLOATING else t)
            _judge(R, it, 'type.c:add_type:ND_ASSIGN/%s' % cls, 'add_type',
                   lambda ctx, t=t: [_node(tenv, 0, 'ND_ASSIGN', 'node', lhs=_node(tenv, tys.make(t), 'ND_VAR', 'lhs'), rhs=_node(tenv, tys.make(t), 'ND_VAR', 'rhs'))],
                   'an assignment to an lvalue of type `%s`' % t, '6.5.16p2: the left operand is a modifiable lvalue: any object type except an array')
        for t in DEREFABLE:
            _judge(R, it, 'type.c:add_type:ND_DEREF/%s' % t, 'add_type',
                   lambda ctx, t=t: [_node(tenv, 0, 'ND_DEREF', 'node', lhs=_node(tenv, tys.make(t), 'ND_VAR', 'lhs'))],
                   'the indirection `*` on an operand of type `%s`' % t, '6.5.3.2p2: the operand has pointer type (an array decays to a pointer)')
    # ---- unary & ---------------------------------------------------------------------------------------------------------------
    if u.fn('unary') is None:
        rep.undecided(rule, '%s:unary:anchor' % PU, 'unary() vanished')
    else:
        def h_cast(operand):
            def h(it, ctx, call, args):
                rest, tok = args[0], args[1]
                if isinstance(rest, _Ref) and isinstance(tok, Obj):
                    rest.place.set(it, tok.fields.get('next'))
                return operand()
            return h
        for what, operand in (('variable', lambda: _node(env, tys.make('int'), 'ND_VAR', 'operand')),
                              ('dereference', lambda: _node(env, tys.make('int'), 'ND_DEREF', 'operand')),
                              ('array', lambda: _node(env, tys.make('array-int'), 'ND_VAR', 'operand')),
                              ('function', lambda: _node(env, tys.make('func'), 'ND_VAR', 'operand')),
                              ('member', lambda: _node(env, tys.make('int'), 'ND_MEMBER', 'operand', member=Obj('Member', lazy=True, label='member', fields={'is_bitfield': 0, 'ty': tys.make('int')})))):
            it = env.interp(('unary',), cut={'cast': h_cast(operand)}, models=env.token_models())
            _judge(R, it, '%s:unary:address-of/%s' % (PU, what), 'unary', lambda ctx: [_Ref(_ValPlace(0)), env.tokens(['&', 'x', ';'])],
                   '`&` applied to a %s that is not a bit-field' % what, '6.5.3.2p1: the operand is a function designator or an lvalue that is not a bit-field')
    # ---- declaration of a variable of a complete object type --------------------------------------------------------------------
    if u.fn('declaration') is None or [(p.type or '').replace(' ', '') for p in u.params('declaration')] != ['Token**', 'Token*', 'Type*', 'VarAttr*']:
        rep.undecided(rule, '%s:declaration:anchor' % PU, 'declaration(Token **rest, Token *tok, Type *basety, VarAttr *attr) vanished')
    else:
        afields = [f for f, t, b in (u.records.get('VarAttr') or [])]
        for t in OBJECT_TYPES:
            for static in ((0, 1) if 'is_static' in afields else (0,)):
                def h_decl(it, ctx, n, args, t=t):
                    if not args or not isinstance(args[0], _Ref) or not isinstance(args[1], Obj):
                        raise AnalysisBroken('declarator() is not called with the address of the token cursor')
                    ty = tys.make(t)
                    ty.fields.update({'name': args[1], 'name_pos': args[1]})
                    args[0].place.set(it, args[1].fields.get('next'))
                    return ty
                it = env.interp(('declaration', 'new_lvar', 'new_var', 'new_gvar', 'new_anon_gvar', 'skip', 'consume'), cut={'declarator': h_decl}, models=env.token_models(),
                                globals_={'locals': 0, 'globals': 0})

                def mk(ctx, static=static):
                    a = Obj('VarAttr', lazy=False, label='attr', fields={f: 0 for f in afields})
                    if static:
                        a.fields['is_static'] = 1
                    return [_Ref(_ValPlace(0)), env.tokens(['x', ';', '}']), tys.make('int'), a]
                cls = 'integer' if t in INTEGER else ('floating' if t in FLOATING else t)
                _judge(R, it, '%s:declaration:%s/%s' % (PU, 'static' if static else 'automatic', cls), 'declaration', mk,
                       'the block-scope declaration `%sT x;` with T = `%s`' % ('static ' if static else '', t), '6.7p7: an object may have any complete object type')
    # ---- reference to a declared enum tag ------------------------------------------------------------------------------------------
    if u.fn('enum_specifier') is None:
        rep.undecided(rule, '%s:enum_specifier:anchor' % PU, 'enum_specifier() vanished')
    else:
        it = env.interp(('enum_specifier', 'skip', 'consume'), cut={'find_tag': lambda it, ctx, c, a: tys.make('enum')}, models=env.token_models())
        _judge(R, it, '%s:enum_specifier:declared-tag' % PU, 'enum_specifier', lambda ctx: [_Ref(_ValPlace(0)), env.tokens(['E', 'x', ';'])],
               '`enum E x;` where E is a declared enum tag', '6.7.2.3: a declared tag may be referred to')
    # ---- member access on a struct or union ------------------------------------------------------------------------------------------
    if u.fn('struct_ref') is None or [(p.type or '').replace(' ', '') for p in u.params('struct_ref')] != ['Node*', 'Token*']:
        rep.undecided(rule, '%s:struct_ref:anchor' % PU, 'struct_ref(Node *node, Token *tok) vanished')
    else:
        it = env.interp(('struct_ref',), cut={'get_struct_member': lambda it, ctx, c, a: Obj('Member', lazy=True, label='member', fields={'name': env.token('m'), 'ty': tys.make('int')})},
                        models=env.token_models())
        for t in ('struct', 'union'):
            _judge(R, it, '%s:struct_ref:%s' % (PU, t), 'struct_ref', lambda ctx, t=t: [_node(env, tys.make(t), 'ND_VAR', 'base'), env.token('m')],
                   'the member access `x.m` where x is a %s that has a member m' % t, '6.5.2.3p1: the first operand of `.` has a structure or union type')
    # ---- bit-fields of integer type -----------------------------------------------------------------------------------------------------
    if u.fn('struct_members') is None or [(p.type or '').replace(' ', '') for p in u.params('struct_members')] != ['Token**', 'Token*', 'Type*']:
        rep.undecided(rule, '%s:struct_members:anchor' % PU, 'struct_members(Token **rest, Token *tok, Type *ty) vanished')
    else:
        pure = pure_walks(u) - set(env.token_models())
        for t in ('bool', 'int', 'uint'):
            def h_declspec(it, ctx, c, a, t=t):
                if not a or not isinstance(a[0], _Ref) or not isinstance(a[1], Obj):
                    raise AnalysisBroken('declspec() is not called with the address of the token cursor')
                a[0].place.set(it, a[1].fields.get('next'))
                return tys.make(t)

            def h_declarator(it, ctx, c, a):
                if not a or not isinstance(a[0], _Ref) or not isinstance(a[1], Obj):
                    raise AnalysisBroken('declarator() is not called with the address of the token cursor')
                ty = Obj('Type', lazy=True, label='member-type', fields=dict(a[2].fields))
                ty.fields.update({'name': a[1], 'name_pos': a[1]})
                a[0].place.set(it, a[1].fields.get('next'))
                return ty

            def h_const_expr(it, ctx, c, a):
                a[0].place.set(it, a[1].fields.get('next'))
                return 3
            # read-only helpers that struct_members shares with other functions (is_variably_modified: a walk over ty->base) are followed on the concrete member type
            walks = tuple(sorted(c.callee() for c in u.fn('struct_members').calls() if c.callee() in pure))
            it = env.interp(('struct_members', 'is_integer', 'skip', 'consume') + walks, cut={'declspec': h_declspec, 'declarator': h_declarator, 'const_expr': h_const_expr}, models=env.token_models())
            cls = {'bool': '_Bool', 'int': 'signed-int', 'uint': 'unsigned-int'}[t]
            _judge(R, it, '%s:struct_members:bit-field/%s' % (PU, cls), 'struct_members', lambda ctx: [_Ref(_ValPlace(0)), env.tokens(['int', 'x', ':', '3', ';', '}', ';']), tys.make('struct')],
                   'the member declaration `T x : 3;` with T = `%s`' % t, '6.7.2.1p5: a bit-field shall have type _Bool, signed int or unsigned int (others are implementation-defined and not judged)')
    R.flush(rep, rule, '%s:%d' % (PU, u.fn('new_add').line if u.fn('new_add') else 1))


# ---------------------------------------------------------------------------------------------------------------------------------
# R13.16 constant expressions that C11 allows are evaluated

ICE_BINARY = ('ND_ADD', 'ND_SUB', 'ND_MUL', 'ND_DIV', 'ND_MOD', 'ND_BITAND', 'ND_BITOR', 'ND_BITXOR', 'ND_SHL', 'ND_SHR', 'ND_EQ', 'ND_NE', 'ND_LT', 'ND_LE', 'ND_LOGAND', 'ND_LOGOR')
ICE_UNARY = ('ND_NEG', 'ND_NOT', 'ND_BITNOT', 'ND_CAST')
FLOAT_BINARY = ('ND_ADD', 'ND_SUB', 'ND_MUL', 'ND_DIV')
FLOAT_COMPARE = ('ND_EQ', 'ND_NE', 'ND_LT', 'ND_LE')
OPERAND_TYPES = ('int', 'uint', 'long', 'ulong')            # types an operator node has after the usual arithmetic conversions
CAST_TYPES = OPERAND_TYPES + ('char', 'uchar', 'short', 'bool')


def _offsetof_form(P):
    """how include/stddef.h (the header the compiler installs for its own use) defines offsetof: ('null-member-address', text) for the expression form
    ((size_t)&(((type *)0)->member)), ('builtin', text) if it is handed to a builtin, ('none', why) if the header does not define it, ('unknown', why) otherwise"""
    import os
    import re
    path = os.path.join(P.repo, 'include', 'stddef.h')
    if not os.path.exists(path):
        return ('none', 'the repository has no include/stddef.h')
    text = open(path, errors='replace').read().replace('\\\n', ' ')
    m = re.search(r'^[ \t]*#[ \t]*define[ \t]+offsetof\(([^)]*)\)(.*)$', text, re.M)
    if not m:
        return ('none', 'include/stddef.h does not define offsetof')
    params = [x.strip() for x in m.group(1).split(',')]
    body = re.sub(r'\s+', '', m.group(2))
    if len(params) == 2:
        t, mb = params
        if body in ('((size_t)&(((%s*)0)->%s))' % (t, mb), '((unsignedlong)&(((%s*)0)->%s))' % (t, mb), '((size_t)&((%s*)0)->%s)' % (t, mb)):
            return ('null-member-address', m.group(0).strip())
    if '__builtin_offsetof' in body:
        return ('builtin', m.group(0).strip())
    return ('unknown', 'the definition of offsetof in include/stddef.h has a form this rule does not know: %s' % m.group(0).strip())


def r1316_constexpr(P, rep, rule='R13.16'):
    rep.rule(rule, 'the constant-expression evaluators answer every operator C11 6.6 allows in a constant expression with a value, not with "not a compile-time constant" / '
                   '"invalid initializer": the integer operators of 6.6p6 on integer constants of several types (non-zero divisors), `?:`, casts; the arithmetic operators on floating '
                   'constants (6.6p8); address constants (6.6p9: &object, array and function designators, &object.member, &array[i], address +- integer, casts of these) where a '
                   'relocation label is accepted; is_const_expr() recognises the integer forms. Decided by interpreting the evaluators (recursive value functions over Node, derived) '
                   'on concrete witness trees', floor=120)
    env = Env(P)
    u = env.u
    tys = Types(P)
    E = env.E
    R = _Results()
    # the evaluators: recursive functions over Node that return an arithmetic value (derived the way R13.12 derives them), plus the helpers only they call
    evs = {}
    for f, fd in u.functions.items():
        ps = u.params(f)
        rt = (fd.type or '').split('(')[0].strip()
        if ps and (ps[0].type or '').replace(' ', '') == 'Node*' and rt not in ('void', 'Node *', 'Type *', 'Obj *', 'Token *') and '*' not in rt:
            if any(c.callee() == f for c in fd.calls()):
                evs[f] = (len(ps), rt)
    # mutual recursion: functions with the same shape that call a recursive one and are called by it
    for f, fd in u.functions.items():
        ps = u.params(f)
        rt = (fd.type or '').split('(')[0].strip()
        if f not in evs and ps and (ps[0].type or '').replace(' ', '') == 'Node*' and '*' not in rt and rt != 'void':
            if any(c.callee() in evs for c in fd.calls()) and any(c.callee() == f for g in list(evs) for c in u.functions[g].calls()):
                evs[f] = (len(ps), rt)
    where = '%s:%d' % (PU, min((u.fn(f).line for f in evs), default=1))
    # judged through their entry points: evaluators that some function outside the family calls (the others evaluate sub-forms, e.g. lvalues)
    entry = set(f for f in evs if env.callers.get(f, set()) - set(evs))
    ints = sorted(f for f, (n, rt) in evs.items() if f in entry and n == 1 and rt in ('int64_t', 'long', 'long long') )
    labs = sorted(f for f, (n, rt) in evs.items() if f in entry and n == 2 and rt in ('int64_t', 'long', 'long long') and any((p.type or '').replace(' ', '') == 'char***' for p in u.params(f)[1:]))
    dbls = sorted(f for f, (n, rt) in evs.items() if f in entry and n == 1 and rt in ('double', 'long double'))
    preds = sorted(f for f, (n, rt) in evs.items() if f in entry and n == 1 and rt in ('_Bool', 'bool') and f.startswith('is_'))
    rep.extra['constant_expression_evaluators (derived)'] = {'integer': ints, 'with_label': labs, 'floating': dbls, 'predicates': preds}
    if not ints or not dbls:
        rep.undecided(rule, '%s:evaluators:derivation' % PU, 'no recursive integer / floating evaluator over Node was recognised (%s)' % sorted(evs), where=where)
        return
    # entry points: an evaluator that is not only called by other evaluators
    keep = tuple(evs) + ('is_flonum', 'is_integer', 'is_numeric')
    it = env.interp(keep, models=env.token_models(), rec_limit=10)

    def num(v, t='int'):
        return _node(env, tys.make(t), 'ND_NUM', 'num', val=v, fval=float(v))

    def tree(kind, t, *kids, **kw):
        names = ('lhs', 'rhs')
        f = dict(zip(names, kids))
        f.update(kw)
        return _node(env, tys.make(t) if isinstance(t, str) else t, kind, kind, **f)
    missing = [k for k in ICE_BINARY + ICE_UNARY + ('ND_COND', 'ND_NUM', 'ND_ADDR', 'ND_VAR', 'ND_MEMBER', 'ND_DEREF') if k not in E]
    if missing:
        rep.undecided(rule, '%s:evaluators:node-kinds' % PU, 'node kinds %s vanished' % missing, where=where)
        return
    gvar = lambda t: Obj('Obj', lazy=True, label='global', fields={'is_local': 0, 'is_tls': 0, 'ty': tys.make(t), 'name': 'g', 'is_function': int(t == 'func')})
    for ev in ints + labs:
        args = (lambda n: [n]) if ev in ints else (lambda n: [n, 0])
        for k in ICE_BINARY:
            for t in OPERAND_TYPES:
                rt = 'int' if k in ('ND_EQ', 'ND_NE', 'ND_LT', 'ND_LE', 'ND_LOGAND', 'ND_LOGOR') else t
                _judge(R, it, '%s:%s:%s/%s' % (PU, ev, k, 'unsigned' if t in ('uint', 'ulong') else 'signed'), ev, lambda ctx, k=k, t=t, rt=rt: args(tree(k, rt, num(6, t), num(3, t))),
                       'the constant expression `6 %s 3` on operands of type %s' % (k[3:], t), '6.6p6: an integer constant expression has integer constants as operands of any arithmetic, bitwise, relational or logical operator')
        for k in ICE_UNARY:
            for t in (CAST_TYPES if k == 'ND_CAST' else OPERAND_TYPES):
                _judge(R, it, '%s:%s:%s/%s' % (PU, ev, k, 'bool' if t == 'bool' else ('unsigned' if t in ('uint', 'ulong', 'uchar') else 'signed')), ev, lambda ctx, k=k, t=t: args(tree(k, 'int' if k == 'ND_NOT' else t, num(6, 'int'))),
                       'the constant expression `%s 6` of type %s' % (k[3:], t), '6.6p6')
        for c in (0, 1):
            _judge(R, it, '%s:%s:ND_COND' % (PU, ev), ev, lambda ctx, c=c: args(tree('ND_COND', 'int', cond=num(c), then=num(6), els=num(3))), 'the constant expression `%d ? 6 : 3`' % c, '6.6p6')
        _judge(R, it, '%s:%s:ND_NUM' % (PU, ev), ev, lambda ctx: args(num(6)), 'an integer constant', '6.6p6')
        _judge(R, it, '%s:%s:ND_CAST/floating-operand' % (PU, ev), ev, lambda ctx: args(tree('ND_CAST', 'int', num(6, 'double'))), 'the constant expression `(int)6.0`',
               '6.6p6: floating constants that are the immediate operands of casts')
        for k in FLOAT_COMPARE:
            _judge(R, it, '%s:%s:%s/floating-operands' % (PU, ev, k), ev, lambda ctx, k=k: args(tree(k, 'int', num(6, 'double'), num(3, 'double'))),
                   'the arithmetic constant expression `6.0 %s 3.0`' % k[3:], '6.6p8: an arithmetic constant expression has arithmetic type and arithmetic constants as operands')
    for ev in dbls:
        for k in FLOAT_BINARY:
            _judge(R, it, '%s:%s:%s' % (PU, ev, k), ev, lambda ctx, k=k: [tree(k, 'double', num(6, 'double'), num(3, 'double'))], 'the arithmetic constant expression `6.0 %s 3.0`' % k[3:], '6.6p8')
        _judge(R, it, '%s:%s:ND_NEG' % (PU, ev), ev, lambda ctx: [tree('ND_NEG', 'double', num(6, 'double'))], 'the arithmetic constant expression `-6.0`', '6.6p8')
        _judge(R, it, '%s:%s:ND_NUM' % (PU, ev), ev, lambda ctx: [num(6, 'double')], 'a floating constant', '6.6p8')
        _judge(R, it, '%s:%s:ND_CAST/integer-operand' % (PU, ev), ev, lambda ctx: [tree('ND_CAST', 'double', num(6, 'int'))], 'the arithmetic constant expression `(double)6`', '6.6p8')
        _judge(R, it, '%s:%s:ND_CAST/floating-operand' % (PU, ev), ev, lambda ctx: [tree('ND_CAST', 'float', num(6, 'double'))], 'the arithmetic constant expression `(float)6.0`', '6.6p8')
        _judge(R, it, '%s:%s:integer-subexpression' % (PU, ev), ev, lambda ctx: [tree('ND_ADD', 'double', num(6, 'double'), tree('ND_CAST', 'double', tree('ND_MUL', 'int', num(2), num(3))))],
               'the arithmetic constant expression `6.0 + (double)(2 * 3)`', '6.6p8')
        for c in (0, 1):
            _judge(R, it, '%s:%s:ND_COND' % (PU, ev), ev, lambda ctx, c=c: [tree('ND_COND', 'double', cond=num(c), then=num(6, 'double'), els=num(3, 'double'))], 'the arithmetic constant expression `%d ? 6.0 : 3.0`' % c, '6.6p8')
    # address constants: evaluators that accept a relocation label
    for ev in labs:
        def lab():
            return _Ref(_ValPlace(0))
        v = lambda t: tree('ND_VAR', t, var=gvar(t))
        member = lambda t: tree('ND_MEMBER', t, v('struct'), member=Obj('Member', lazy=True, label='member', fields={'offset': 4, 'ty': tys.make(t), 'is_bitfield': 0}))
        ptr = lambda t: tys.make('ptr-' + t)
        forms = [
            ('&object', lambda: tree('ND_ADDR', ptr('int'), v('int'))),
            ('array-designator', lambda: v('array-int')),
            ('function-designator', lambda: v('func')),
            ('&function', lambda: tree('ND_ADDR', ptr('func'), v('func'))),
            ('&object.member', lambda: tree('ND_ADDR', ptr('int'), member('int'))),
            ('object.array-member', lambda: member('array-int')),
            ('&array[i]', lambda: tree('ND_ADDR', ptr('int'), tree('ND_DEREF', 'int', tree('ND_ADD', ptr('int'), v('array-int'), tree('ND_MUL', 'long', num(1, 'long'), num(4, 'long')))))),
            ('address+integer', lambda: tree('ND_ADD', ptr('int'), tree('ND_ADDR', ptr('int'), v('int')), tree('ND_MUL', 'long', num(1, 'long'), num(4, 'long')))),
            ('address-integer', lambda: tree('ND_SUB', ptr('int'), v('array-int'), num(4, 'long'))),
            ('pointer-cast-of-address', lambda: tree('ND_CAST', ptr('char'), tree('ND_ADDR', ptr('int'), v('int')))),
            ('integer-constant', lambda: tree('ND_ADD', 'int', num(6), num(3))),
        ]
        for name, mk in forms:
            _judge(R, it, '%s:%s:address-constant/%s' % (PU, ev, name), ev, lambda ctx, mk=mk: [mk(), lab()], 'the address constant `%s` in the initializer of an object with static storage duration' % name,
                   '6.6p7, p9: an address constant is the address of an object of static storage duration or of a function, possibly cast or offset by an integer constant expression')
    # predicates that recognise integer constant expressions
    for ev in preds:
        def want_true(key, mk, what):
            res = _judge(R, it, key, ev, mk, what, '6.6p6')
            for ctx, out in res or []:
                if out[0] == 'ret' and _determined(ctx):
                    val = out[1]
                    val = it.settle(val) if isinstance(val, View) else val
                    if isinstance(val, (int, bool)) and not val:
                        R.note(key + '<-not-recognised', False, '%s() does not recognise %s as a constant expression although it is one (6.6p6): the construct that depends on it (an array bound, '
                               'a case label) is treated as not constant and a valid program is rejected or miscompiled' % (ev, what))
        for k in ICE_BINARY:
            want_true('%s:%s:%s' % (PU, ev, k), lambda ctx, k=k: [tree(k, 'int', num(6), num(3))], 'the constant expression `6 %s 3`' % k[3:])
        for k in ICE_UNARY:
            want_true('%s:%s:%s' % (PU, ev, k), lambda ctx, k=k: [tree(k, 'int', num(6))], 'the constant expression `%s 6`' % k[3:])
        want_true('%s:%s:ND_COND' % (PU, ev), lambda ctx: [tree('ND_COND', 'int', cond=num(1), then=num(6), els=num(3))], 'the constant expression `1 ? 6 : 3`')
        want_true('%s:%s:ND_NUM' % (PU, ev), lambda ctx: [num(6)], 'an integer constant')
    # offsetof (7.19p3: "expands to an integer constant expression").  The <stddef.h> the compiler ships defines it as an expression of the language
    # (no builtin): the address of a member of an object at the null pointer constant, converted to size_t.  That form -- and its array-element variant
    # offsetof(T, a[i]) -- has to be evaluated by the integer evaluators and recognised by the predicates like any other integer constant expression.
    form = _offsetof_form(P)
    rep.extra['offsetof'] = form[1]
    if form[0] == 'unknown':
        rep.undecided(rule, 'include/stddef.h:offsetof:definition', form[1], where='include/stddef.h:1')
    elif form[0] == 'null-member-address':
        ptr = lambda t: tys.make('ptr-' + t)
        mem = lambda t: Obj('Member', lazy=True, label='member', fields={'offset': 4, 'ty': tys.make(t), 'is_bitfield': 0})
        obj0 = lambda: tree('ND_DEREF', 'struct', tree('ND_CAST', ptr('struct'), num(0)))
        off_forms = [
            ('offsetof(T,m)', lambda: tree('ND_CAST', 'ulong', tree('ND_ADDR', ptr('int'), tree('ND_MEMBER', 'int', obj0(), member=mem('int'))))),
            ('offsetof(T,m.n)', lambda: tree('ND_CAST', 'ulong', tree('ND_ADDR', ptr('int'), tree('ND_MEMBER', 'int', tree('ND_MEMBER', 'struct', obj0(), member=mem('struct')), member=mem('int'))))),
            ('offsetof(T,a[1])', lambda: tree('ND_CAST', 'ulong', tree('ND_ADDR', ptr('int'), tree('ND_DEREF', 'int', tree('ND_ADD', ptr('int'), tree('ND_MEMBER', 'array-int', obj0(), member=mem('array-int')),
                                                                                                             tree('ND_MUL', 'long', num(1, 'long'), num(4, 'long'))))))),
        ]
        why = '7.19p3: offsetof(type, member-designator) expands to an integer constant expression of type size_t; include/stddef.h defines it as ((size_t)&(((type *)0)->member))'
        for name, mk in off_forms:
            for ev in ints:
                _judge(R, it, '%s:%s:%s' % (PU, ev, name), ev, lambda ctx, mk=mk: [mk()], 'the integer constant expression `%s` (as <stddef.h> of this compiler expands it)' % name, why)
            for ev in preds:
                key = '%s:%s:%s' % (PU, ev, name)
                res = _judge(R, it, key, ev, lambda ctx, mk=mk: [mk()], 'the integer constant expression `%s` (as <stddef.h> of this compiler expands it)' % name, why)
                for ctx, out in res or []:
                    if out[0] == 'ret' and _determined(ctx):
                        val = out[1]
                        val = it.settle(val) if isinstance(val, View) else val
                        if isinstance(val, (int, bool)) and not val:
                            R.note(key + '<-not-recognised', False,
                                   '%s() does not recognise `%s`, as the compiler\'s own <stddef.h> expands it, as a constant expression (%s): an array whose bound is offsetof(...) becomes a '
                                   'variable-length array -- at file scope, as a static object or in a type name, where no code computes its size -- and a valid program is miscompiled, '
                                   'rejected or crashes the compiler' % (ev, name, why))
    R.flush(rep, rule, where)
