"""C13 R13.29: pointer globals that are NULL in some phase of the compiler (static storage without initializer: NULL until the first store; reset with a
literal NULL) are dereferenced only where a non-null state is established on EVERY way the function is reached.

Structured must-analysis over clang's AST, per global G of a unit (static: visible in its unit only):
  establishers  a store `G = e` with e not a null constant; a test of G whose false arm leaves (`if (!G) return/error`) or whose true arm contains the use
  kills         a store `G = NULL`; a call of a function that may null G: it stores NULL into G (unless the store can only happen in an activation that was
                entered with G == NULL: a leading `if (G) <noreturn>`; or G is restored from a local that saved it at entry), transitively through the call graph
  entry fact    nonnull_at_entry(F) iff F has callers and every call site of F (in the unit; address-taken functions have none) is in a non-null state
                (greatest fixpoint over the call graph; the entry points of the unit start NULL)
A dereference of G in F holds iff an establisher dominates it with no kill in between, or nonnull_at_entry(F) and no kill can precede it."""
from .build import AnalysisBroken

RULE = 'R13.29'
NORETURN = {'error', 'error_at', 'error_tok', 'exit', '_exit', 'abort', '__assert_fail'}


def _is_null_const(e):
    e = e.strip_all() if hasattr(e, 'strip_all') else e
    try:
        v = e.int_value()
    except Exception:
        v = None
    return v == 0


class _Fn:
    def __init__(self, name, fd, body):
        self.name, self.fd, self.body = name, fd, body
        self.order = {}
        for i, n in enumerate(body.walk()):
            self.order[id(n)] = i
        self.end = {}
        self._ends(body)

    def _ends(self, n):
        e = self.order.get(id(n), 0)
        for c in n.inner:
            e = max(e, self._ends(c))
        self.end[id(n)] = e
        return e

    def pos(self, n):
        return self.order[id(n)]

    def loops_of(self, n):
        return [a for a in n.ancestors() if a.kind in ('ForStmt', 'WhileStmt', 'DoStmt') and id(a) in self.order]


def _leaves(st):
    """the statement never falls through"""
    if st is None:
        return False
    if st.kind in ('ReturnStmt', 'BreakStmt', 'ContinueStmt', 'GotoStmt'):
        return True
    if st.kind == 'CallExpr':
        return st.callee() in NORETURN
    if st.kind == 'CompoundStmt':
        return bool(st.inner) and _leaves(st.inner[-1])
    if st.kind in ('ParenExpr', 'ImplicitCastExpr', 'CStyleCastExpr', 'ExprWithCleanups') and st.inner:
        return _leaves(st.inner[0])
    return False


def analyse(u, un, rep, stats, skip=(), nullable_rets=()):
    fns = {}
    for f, fd in u.functions.items():
        b = u.body(f)
        if b is not None:
            fns[f] = _Fn(f, fd, b)
    cands = {}
    for g, vd in u.globals.items():
        t = (vd.dtype or vd.type or '')
        if not t.rstrip().endswith('*') or 'init' in vd.d or vd.d.get('storageClass') == 'extern':
            continue
        cands[g] = vd
    # address-taken functions (called through pointers: unknown callers)
    addr_taken = set()
    for F in fns.values():
        for n in F.body.walk():
            if n.kind == 'DeclRefExpr' and n.ref_kind == 'FunctionDecl' and n.ref_name in fns:
                p = n.parent
                while p is not None and p.kind in ('ImplicitCastExpr', 'ParenExpr'):
                    q = p.parent
                    if q is not None and q.kind == 'CallExpr' and q.inner and q.inner[0] is p:
                        break
                    p = q
                else:
                    addr_taken.add(n.ref_name)
                    continue
                if p is None:
                    addr_taken.add(n.ref_name)
    for g, vd in sorted(cands.items()):
        derefs, stores = {}, {}
        for f, F in fns.items():
            for n in F.body.walk():
                if n.kind == 'MemberExpr' and n.d.get('isArrow') and n.inner and _name_ref(n.inner[0], g):
                    derefs.setdefault(f, []).append(n)
                elif n.kind == 'UnaryOperator' and n.opcode == '*' and n.inner and _name_ref(n.inner[0], g):
                    derefs.setdefault(f, []).append(n)
                elif n.kind == 'ArraySubscriptExpr' and n.inner and _name_ref(n.inner[0], g):
                    derefs.setdefault(f, []).append(n)
                elif n.kind == 'BinaryOperator' and n.opcode == '=' and n.inner and _name_ref(n.inner[0], g, strip_casts=False):
                    stores.setdefault(f, []).append(n)
        if not derefs or g in skip:
            continue
        if not any(_is_null_const(x.inner[1]) for ss in stores.values() for x in ss):
            stats.setdefault(un, {}).setdefault('not judged (never reset with a literal NULL)', []).append(g)
            continue
        # two phases in which the global is NULL, judged separately (a path on which the full analysis fails starts at an entry point or at a reset):
        #   before the first store: entry points of the unit start NULL, resets inside callees are left out
        #   after a reset: entry points are taken as established, calls of functions that can reset the global end the state
        for phase, kw, text in (('before-the-first-store', {'call_kills': False, 'entry_default': False}, 'from a function nobody in the unit calls, before anything is stored'),
                                ('after-a-reset', {'call_kills': True, 'entry_default': True}, 'after a callee has reset it')):
            A = _Global(g, fns, derefs, stores, addr_taken, nullable_rets, **kw)
            A.solve()
            for f in sorted(derefs):
                bad = [n for n in derefs[f] if not A.nonnull_at(f, n)]
                stats.setdefault(un, {}).setdefault(g, {}).setdefault(f, {})[phase] = 'unproved' if bad else 'proved'
                rep.ob(RULE, '%s:%s:%s-dereferenced/%s' % (un, f, g, phase), not bad,
                       '%s dereferences the global `%s`, which is NULL in some phase (static storage without initializer%s), and can be reached %s without a non-null state '
                       'being established on the way: %s' % (f, g, '; reset to NULL by ' + ', '.join(sorted(A.direct_nullers)) if A.direct_nullers else '', text, A.why(f)),
                       where='%s:%d' % (un, (bad[0].line if bad else derefs[f][0].line) or 0))


def _name_ref(n, g, strip_casts=True):
    m = n.strip_all() if strip_casts else n.strip()
    return m.kind == 'DeclRefExpr' and m.ref_name == g and m.ref_kind == 'VarDecl' and not _is_local(m)


def _is_local(m):
    # a DeclRefExpr to a local of the same name resolves to a VarDecl/ParmVarDecl inside the function: ref_kind ParmVarDecl is excluded above; a local VarDecl of the
    # same name as a global is looked up among the function's declarations
    fd = m.enclosing('FunctionDecl')
    if fd is None:
        return False
    rid = m.ref_id
    for d in fd.walk():
        if d.kind in ('VarDecl', 'ParmVarDecl') and d.id == rid:
            return True
    return False


class _Global:
    def __init__(self, g, fns, derefs, stores, addr_taken, nullable_rets=(), call_kills=True, entry_default=False):
        self.g, self.fns, self.derefs, self.stores, self.addr_taken = g, fns, derefs, stores, addr_taken
        self.nullable_rets = set(nullable_rets)
        self.call_kills, self.entry_default = call_kills, entry_default
        self.calls = {}        # caller -> [(callee, node)]
        self.callers = {}      # callee -> [(caller, node)]
        for f, F in fns.items():
            for n in F.body.walk():
                if n.kind == 'CallExpr' and n.callee() in fns:
                    self.calls.setdefault(f, []).append((n.callee(), n))
                    self.callers.setdefault(n.callee(), []).append((f, n))
        self.est_fns = set()
        self.nullers = self._nullers()
        self.est_fns = self._establishing_fns()
        self.entry = {}

    # -- which functions can turn a non-NULL G into NULL ------------------------------------------------
    def _null_stores(self, f):
        out = []
        F = self.fns[f]
        for s in self.stores.get(f, []):
            rhs = s.inner[1]
            if self._nonnull_value(rhs) or self._restores(F, rhs):
                continue
            if not self._entered_null(F, s):
                out.append(s)
        return out

    def _entered_null(self, F, s):
        """the store happens only in an activation entered with G == NULL: a top-level `if (G) <leaves>` precedes every store to G of the function"""
        first = min(F.pos(x) for x in self.stores.get(F.name, []))
        for st in F.body.inner:
            if F.pos(st) >= first:
                break
            if st.kind == 'IfStmt' and len(st.inner) >= 2 and self._nn(st.inner[0], True) and _leaves(st.inner[1]) and \
                    not (st.inner[1].kind == 'ReturnStmt' or (st.inner[1].kind == 'CompoundStmt' and st.inner[1].inner and st.inner[1].inner[-1].kind == 'ReturnStmt')):
                return True
        return False

    def _restores(self, F, rhs):
        """the stored value is a local that saved G at the entry of the function and is never assigned again"""
        m = rhs.strip_all()
        if m.kind != 'DeclRefExpr' or not _is_local(m):
            return False
        rid = m.ref_id
        decl = [d for d in F.body.walk() if d.kind == 'VarDecl' and d.id == rid]
        if len(decl) != 1 or not decl[0].inner or not _name_ref(decl[0].inner[-1], self.g):
            return False
        first = min(F.pos(x) for x in self.stores.get(F.name, []))
        if F.pos(decl[0]) > first:
            return False
        for n in F.body.walk():
            if n.kind in ('BinaryOperator', 'CompoundAssignOperator') and n.opcode.endswith('=') and n.opcode not in ('==', '!=', '<=', '>=') and n.inner:
                t = n.inner[0].strip()
                if t.kind == 'DeclRefExpr' and t.ref_id == rid:
                    return False
        return True

    def _nn(self, cond, truth):
        """the outcome `truth` of cond implies G != NULL"""
        c = cond.strip()
        if _name_ref(c, self.g):
            return truth
        if c.kind == 'UnaryOperator' and c.opcode == '!' and c.inner:
            return self._nn(c.inner[0], not truth)
        if c.kind == 'BinaryOperator' and c.opcode in ('!=', '==') and len(c.inner) == 2:
            x, y = c.inner
            if (_name_ref(x, self.g) and _is_null_const(y)) or (_name_ref(y, self.g) and _is_null_const(x)):
                return truth == (c.opcode == '!=')
            return False
        if c.kind == 'BinaryOperator' and c.opcode == '&&' and truth:
            return any(self._nn(x, True) for x in c.inner)
        if c.kind == 'BinaryOperator' and c.opcode == '||' and not truth:
            return any(self._nn(x, False) for x in c.inner)
        return False

    def _nonnull_value(self, e):
        """the stored value is not NULL: an address, a parameter or local (its nullness is R13.1's), the result of a function that does not return NULL"""
        m = e.strip_all()
        if m.kind == 'UnaryOperator' and m.opcode == '&':
            return True
        if m.kind == 'DeclRefExpr' and m.ref_kind in ('ParmVarDecl', 'VarDecl') and _is_local(m):
            return True
        if m.kind == 'CallExpr' and m.callee() and m.callee() not in self.nullable_rets:
            return True
        return False

    def _is_store(self, x):
        return x.kind == 'BinaryOperator' and x.opcode == '=' and x.inner and _name_ref(x.inner[0], self.g, strip_casts=False)

    def _establishing_fns(self):
        """functions whose every return leaves G non-null: a top-level store of a non-null value with no kill behind it"""
        out = set()
        for f, F in self.fns.items():
            for st in F.body.inner:
                if self._is_store(st) and self._nonnull_value(st.inner[1]):
                    if not any(F.pos(k) > F.pos(st) for k in self._kills(f)):
                        out.add(f)
        return out

    def _nullers(self):
        direct = set(f for f in self.fns if self._null_stores(f))
        out = set(direct)
        changed = True
        while changed:
            changed = False
            for f in self.fns:
                if f in out:
                    continue
                if any(c in out for c, _ in self.calls.get(f, [])):
                    out.add(f); changed = True
        self.direct_nullers = direct
        return out

    # -- intraprocedural state at a node ------------------------------------------------------------------
    def _kills(self, f):
        """nodes of f after which G may be NULL"""
        ks = list(self._null_stores(f))
        if self.call_kills:
            ks += [n for c, n in self.calls.get(f, []) if c in self.nullers]
        return ks

    def _established_by(self, F, n):
        """positions of establishers that dominate node n (structured code): a store of a non-null value that is a statement of an enclosing block before n;
        an enclosing `if (G)` then-arm / `G && ...` left operand / `G ? n : ..`; a preceding `if (!G) <leaves>` of an enclosing block"""
        est = []
        chain = [n] + list(n.ancestors())
        for i, a in enumerate(chain[1:], 1):
            child = chain[i - 1]
            if id(a) not in F.order and a is not F.body:
                break
            if a.kind == 'IfStmt' and len(a.inner) >= 2:
                if (child is a.inner[1] and self._nn(a.inner[0], True)) or (len(a.inner) > 2 and child is a.inner[2] and self._nn(a.inner[0], False)):
                    est.append(F.end[id(a.inner[0])])
            if a.kind == 'ConditionalOperator' and len(a.inner) == 3:
                if (child is a.inner[1] and self._nn(a.inner[0], True)) or (child is a.inner[2] and self._nn(a.inner[0], False)):
                    est.append(F.end[id(a.inner[0])])
            if a.kind == 'BinaryOperator' and a.opcode == '&&' and len(a.inner) == 2 and child is a.inner[1] and self._nn(a.inner[0], True):
                est.append(F.end[id(a.inner[0])])
            if a.kind == 'BinaryOperator' and a.opcode == '||' and len(a.inner) == 2 and child is a.inner[1] and self._nn(a.inner[0], False):
                est.append(F.end[id(a.inner[0])])
            if a.kind in ('ForStmt', 'WhileStmt') and a.inner:
                # the loop condition guards the body
                conds = [c for c in a.inner[:-1] if c is not None and c.kind not in ('DeclStmt',) and c.d]
                body = a.inner[-1]
                for c in conds:
                    if child is body and self._nn(c, True):
                        est.append(F.end[id(c)])
            if a.kind == 'CompoundStmt':
                for st in a.inner:
                    if st is child:
                        break
                    x = st
                    if self._is_store(x) and self._nonnull_value(x.inner[1]):
                        est.append(F.end[id(x)])
                    if x.kind == 'IfStmt' and len(x.inner) == 2 and self._nn(x.inner[0], False) and _leaves(x.inner[1]):
                        est.append(F.end[id(x)])
                    if x.kind == 'CallExpr' and x.callee() in self.est_fns:
                        est.append(F.end[id(x)])
        return est

    def _kill_between(self, F, f, lo, n):
        """a kill that can happen after position lo (None: function entry) and before node n"""
        p = F.pos(n)
        loops = F.loops_of(n)
        for k in self._kills(f):
            kp = F.pos(k)
            if k is n or any(a is k for a in n.ancestors()):
                continue
            if (lo is None or kp > lo) and kp < p:
                return k
            # a kill later in a loop that also contains n reaches n on the next iteration, unless the establisher is inside that loop too (re-established each time)
            for l in loops:
                if any(a is l for a in k.ancestors()) and kp > p:
                    if lo is None or lo < F.pos(l):
                        return k
        return None

    def state_at(self, f, n):
        """'est' (established in f), 'entry' (relies on the entry fact), None (not proved)"""
        F = self.fns[f]
        for e in sorted(self._established_by(F, n), reverse=True):
            if self._kill_between(F, f, e, n) is None:
                return 'est'
        if self._kill_between(F, f, None, n) is None:
            return 'entry'
        return None

    def solve(self):
        entry = {f: True for f in self.fns}
        for f in self.fns:
            if not self.callers.get(f) or f in self.addr_taken:
                entry[f] = self.entry_default
        self.roots = set(f for f in self.fns if not self.callers.get(f) or f in self.addr_taken)
        changed = True
        while changed:
            changed = False
            for f in self.fns:
                if not entry[f] or f in self.roots:
                    continue
                for c, n in self.callers.get(f, []):
                    st = self.state_at(c, n)
                    if st == 'est' or (st == 'entry' and entry[c]):
                        continue
                    entry[f] = False
                    changed = True
                    break
        self.entry = entry

    def nonnull_at(self, f, n):
        st = self.state_at(f, n)
        return st == 'est' or (st == 'entry' and self.entry.get(f, False))

    def why(self, f):
        """a call chain from a place where G may be NULL to f"""
        F = self.fns[f]
        for n in self.derefs.get(f, []):
            k = self._kill_between(F, f, None, n)
            if k is not None and self.state_at(f, n) is None:
                return 'line %s of %s can leave it NULL before the dereference (%s)' % (k.line, f, k.callee() + '() can reset it' if k.kind == 'CallExpr' else 'stores NULL')
        # breadth-first over callers whose call site is not in an established state
        seen, frontier = {f: None}, [f]
        while frontier:
            nxt = []
            for x in frontier:
                def chain(y):
                    out = []
                    while y is not None:
                        out.append(y); y = seen[y]
                    return ' -> '.join(out)
                if x in self.roots and not self.entry_default:
                    return '%s (%s)' % (chain(x), 'called through a pointer' if x in self.addr_taken else 'no caller in the unit: nothing has stored the global yet')
                for c, n in self.callers.get(x, []):
                    st = self.state_at(c, n)
                    if st == 'est':
                        continue
                    if st is None:
                        k = self._kill_between(self.fns[c], c, None, n)
                        return '%s -> %s: line %s of %s can leave it NULL before the call in line %s (%s)' % (
                            c, chain(x), k.line if k is not None else '?', c, n.line, (k.callee() + '() can reset it') if k is not None and k.kind == 'CallExpr' else 'stores NULL')
                    if c not in seen and not self.entry.get(c, False):
                        seen[c] = x
                        nxt.append(c)
            frontier = nxt
        return f


def run(P, rep, units, skip=(), nullable_rets=()):
    rep.rule(RULE, 'a pointer global that is NULL in some phase of the compiler (static storage without initializer, or reset with a literal NULL) is dereferenced only where a '
                   'non-null state is established on every way the function is reached: a dominating store of a non-null value or null test in the function, or the same at '
                   'every call site of the function, transitively (greatest fixpoint over the call graph of the unit); a call of a function that can reset the global ends the '
                   'state', floor=2)
    stats = {}
    for un in units:
        try:
            u = P.unit(un)
        except AnalysisBroken as e:
            rep.undecided(RULE, '%s:unit' % un, str(e))
            continue
        analyse(u, un, rep, stats, skip, nullable_rets)
    rep.extra[RULE] = stats


# ------------------------------------------------------------------------------------------------------------------------------------------
# R13.30 the position a diagnostic about a MISSING field value reports is kept in a sibling field: `if (!X->F) error_tok(X->P, ...)`.  The pairs (record, F, P)
# are derived from those diagnostics; an object whose F is stored field by field (a fresh object that takes over F from another one) must receive P in the same
# function, for the same object -- else the diagnostic is handed the NULL of the fresh object.
# ------------------------------------------------------------------------------------------------------------------------------------------
RULE_P = 'R13.30'


def _rec_of(n):
    t = (n.dtype or n.type or '').replace('const ', '').strip()
    if t.endswith('*'):
        t = t[:-1].strip()
    return t.replace('struct ', '')


def _absent_test(cond):
    """cond true implies `X->F` is NULL: returns the MemberExpr"""
    c = cond.strip()
    if c.kind == 'UnaryOperator' and c.opcode == '!' and c.inner:
        m = c.inner[0].strip()
        if m.kind == 'MemberExpr':
            return m
    if c.kind == 'BinaryOperator' and c.opcode == '==' and len(c.inner) == 2:
        a, b = c.inner
        for x, y in ((a, b), (b, a)):
            if x.strip().kind == 'MemberExpr' and _is_null_const(y):
                return x.strip()
    return None


def run_pairs(P, rep, units):
    rep.rule(RULE_P, 'where a diagnostic about a missing field value (`if (!X->F) error_tok(X->P, ..)`) takes its position from a sibling field P (pairs derived from the '
                     'diagnostics), every function that stores F into an object field by field stores P into the same object too: a fresh object that takes over F but not P '
                     'hands error_tok() a NULL token', floor=2)
    pairs = {}
    us = {}
    for un in units:
        try:
            us[un] = P.unit(un)
        except AnalysisBroken as e:
            rep.undecided(RULE_P, '%s:unit' % un, str(e))
    for un, u in us.items():
        for f, fd in u.functions.items():
            for n in fd.walk():
                if n.kind != 'IfStmt' or len(n.inner) < 2:
                    continue
                m = _absent_test(n.inner[0])
                if m is None or not m.inner:
                    continue
                for c in n.inner[1].walk():
                    if c.kind == 'CallExpr' and c.callee() in ('error_tok', 'warn_tok') and c.args():
                        a = c.args()[0].strip_all()
                        if a.kind == 'MemberExpr' and a.inner and a.name != m.name and a.inner[0].src() == m.inner[0].src():
                            pairs.setdefault((_rec_of(m.inner[0]), m.name, a.name), []).append('%s:%s' % (un, f))
    rep.extra[RULE_P] = {'pairs (record.field -> position field: diagnostics)': {'%s.%s -> %s' % k: sorted(set(v)) for k, v in sorted(pairs.items())}}
    if not pairs:
        rep.undecided(RULE_P, 'parse.c:pairs', 'no diagnostic of the form `if (!X->F) error_tok(X->P, ..)` found')
        return
    for (rec, F, Pf), _ in sorted(pairs.items()):
        for un, u in sorted(us.items()):
            for f, fd in sorted(u.functions.items()):
                stF = {}
                for n in fd.walk():
                    if n.kind == 'BinaryOperator' and n.opcode == '=' and n.inner:
                        t = n.inner[0].strip()
                        if t.kind == 'MemberExpr' and t.inner and _rec_of(t.inner[0]) == rec and t.name == F:
                            stF.setdefault(t.inner[0].src(), n)
                for base, n in sorted(stF.items()):
                    # per object the base expression stands for (a store to its root variable starts another object): on every path, an object that
                    # received F has received P before the function lets go of it (root variable rebound, function left)
                    fl = _PairFlow(fd, base, n.inner[0].strip().inner[0], F, Pf)
                    bad = fl.run()
                    who = ', '.join(sorted(set(pairs[(rec, F, Pf)])))
                    if not bad:
                        rep.ob(RULE_P, '%s:%s:%s.%s-stored-with-%s' % (un, f, rec, F, Pf), True, '', where='%s:%d' % (un, n.line))
                    for (gen, what), ln in sorted(bad.items()):
                        if what == 'no-P':
                            rep.ob(RULE_P, '%s:%s:%s.%s-stored-without-%s%s' % (un, f, rec, F, Pf, '/' + gen if len(bad) > 1 or gen != 'entry' else ''), False,
                                   '%s stores %s.%s into `%s` (the object `%s`) but, on some path, not %s.%s before it lets go of that object: when the value is absent (NULL), the '
                                   'diagnostic that reports it (%s) is given the NULL position of the fresh object -- error_tok(NULL) crashes instead of printing a located '
                                   'diagnostic' % (f, rec, F, base, gen, rec, Pf, who), where='%s:%d' % (un, ln))
                        else:
                            rep.ob(RULE_P, '%s:%s:%s.%s-not-carried-over/%s' % (un, f, rec, F, gen), False,
                                   '%s replaces the object `%s` by one derived from it (%s) and, unlike for the other replacements in the same function, carries over neither %s.%s '
                                   'nor %s.%s: the value is lost and the diagnostic about its absence (%s) is given a NULL position' % (f, base, gen, rec, F, rec, Pf, who),
                                   where='%s:%d' % (un, ln))


def _root_var(b):
    b = b.strip_all()
    while b.kind in ('MemberExpr', 'UnaryOperator', 'ArraySubscriptExpr') and b.inner:
        b = b.inner[0].strip_all()
    return b.ref_id if b.kind == 'DeclRefExpr' else None


def _gen_label(rhs):
    r = rhs.strip_all()
    c = r.callee() if r.kind == 'CallExpr' else None
    txt = r.src() if c else r.kind
    out = ''.join(ch if (ch.isalnum() or ch == '_') else '-' for ch in txt)
    while '--' in out:
        out = out.replace('--', '-')
    return out.strip('-')[:60] or 'object'


class _PairFlow:
    """states: set of (gen, hasF, hasP, derived) for the object `base` currently stands for; structured over the statements of one function"""
    def __init__(self, fd, base, base_node, F, Pf):
        self.fd, self.base, self.F, self.Pf = fd, base, F, Pf
        self.root = _root_var(base_node)
        self.bad = {}
        self.loops = []          # (break states, continue states)
        self.sw = []
        self.seen = {}           # gen -> set of (hasF, hasP) at the time the object is let go
        self.derived = {}
        self.fline = {}
        self.readF = set()       # objects whose F the function has read (it takes the value over by hand)

    def run(self):
        body = [c for c in self.fd.inner if c.kind == 'CompoundStmt']
        if not body:
            return {}
        st = self.stmt(body[-1], {('entry', False, False)})
        self.release(st, body[-1].line)
        # a derived replacement that carries nothing over, where a sibling derived replacement of the same function does
        carrying = [g for g, s in self.seen.items() if self.derived.get(g) and any(f for f, p in s)]
        if carrying:
            for g, s in self.seen.items():
                if self.derived.get(g) and g not in carrying and not any(f or p for f, p in s):
                    self.bad.setdefault((g, 'lost'), self.derived[g])
        return self.bad

    def release(self, st, line):
        for (g, f, p) in st:
            self.seen.setdefault(g, set()).add((f, p))
            if f and not p:
                self.bad.setdefault((g, 'no-P'), self.fline.get(g, line))

    def expr(self, e, st):
        if e is None or not hasattr(e, 'kind'):
            return st
        if e.kind in ('ConditionalOperator',) and len(e.inner) == 3:
            st = self.expr(e.inner[0], st)
            return self.expr(e.inner[1], set(st)) | self.expr(e.inner[2], set(st))
        if e.kind == 'BinaryOperator' and e.opcode == '=' and len(e.inner) == 2:
            st = self.expr(e.inner[1], st)
            t = e.inner[0].strip()
            if t.kind == 'DeclRefExpr' and self.root is not None and t.ref_id == self.root:
                return self.rebind(e.inner[1], st, e.line)
            if t.kind == 'MemberExpr' and t.inner and t.inner[0].src() == self.base:
                if t.name == self.F:
                    for g, f, p in st:
                        self.fline.setdefault(g, e.line)
                    return {(g, True, p) for g, f, p in st}
                if t.name == self.Pf:
                    return {(g, f, True) for g, f, p in st}
            if t.kind == 'UnaryOperator' and t.opcode == '*' and t.inner and t.inner[0].src() == self.base:
                return {(g, True, True) for g, f, p in st}          # whole-object copy
            return self.expr(e.inner[0], st)
        if e.kind == 'MemberExpr' and e.name == self.F and e.inner and e.inner[0].src() == self.base:
            self.readF.update(g for g, f, p in st)
        for c in e.inner:
            st = self.expr(c, st)
        return st

    def rebind(self, rhs, st, line):
        self.release(st, line)
        g = _gen_label(rhs)
        r = rhs.strip_all()
        if r.kind == 'CallExpr' and self.root is not None and any(g0 in self.readF for g0, f, p in st) and any(x.kind == 'DeclRefExpr' and x.ref_id == self.root for a in r.args() for x in a.walk()):
            self.derived.setdefault(g, line)
        return {(g, False, False)}

    def stmt(self, s, st):
        k = s.kind
        if not st and k not in ('CaseStmt', 'DefaultStmt', 'CompoundStmt', 'LabelStmt'):
            return st
        if k == 'CompoundStmt':
            for c in s.inner:
                st = self.stmt(c, st)
            return st
        if k == 'IfStmt':
            st = self.expr(s.inner[0], st)
            a = self.stmt(s.inner[1], set(st)) if len(s.inner) > 1 else st
            b = self.stmt(s.inner[2], set(st)) if len(s.inner) > 2 else st
            return a | b
        if k in ('WhileStmt', 'ForStmt', 'DoStmt'):
            parts = [c for c in s.inner if hasattr(c, 'kind') and c.kind]
            body = parts[-1] if k != 'DoStmt' else parts[0]
            heads = [c for c in parts if c is not body]
            raw = s.d.get('inner', []) if k == 'ForStmt' else []
            if raw and isinstance(raw[0], dict) and raw[0] and heads:
                st = self.stmt(heads[0], st)          # the init clause runs once
                heads = heads[1:]
            out = set(st)
            for _ in range(4):
                self.loops.append((set(), set()))
                cur = set(out)
                for h in heads:
                    if h.kind != 'DeclStmt':
                        cur = self.expr(h, cur)
                cur = self.stmt(body, cur)
                br, co = self.loops.pop()
                new = out | cur | br | co
                if new == out:
                    break
                out = new
            return out
        if k == 'SwitchStmt':
            st = self.expr(s.inner[0], st)
            self.sw.append(set(st))
            self.loops.append((set(), set()))
            r = self.stmt(s.inner[-1], set())
            br, co = self.loops.pop()
            self.sw.pop()
            if self.loops:
                self.loops[-1][1].update(co)
            return r | br | st
        if k in ('CaseStmt', 'DefaultStmt'):
            st = set(st) | (self.sw[-1] if self.sw else set())
            return self.stmt(s.inner[-1], st)
        if k == 'LabelStmt':
            return self.stmt(s.inner[-1], st) if s.inner else st
        if k == 'ReturnStmt':
            for c in s.inner:
                st = self.expr(c, st)
            self.release(st, s.line)
            return set()
        if k == 'BreakStmt':
            if self.loops:
                self.loops[-1][0].update(st)
            return set()
        if k == 'ContinueStmt':
            if self.loops:
                self.loops[-1][1].update(st)
            return set()
        if k == 'GotoStmt':
            self.release(st, s.line)
            return set()
        if k == 'DeclStmt':
            for d in s.inner:
                if d.kind == 'VarDecl':
                    for c in d.inner:
                        st = self.expr(c, st)
                    if self.root is not None and d.id == self.root:
                        st = self.rebind(d.inner[-1], st, d.line) if d.inner else {('uninitialised', False, False)}
            return st
        if k == 'CallExpr' and s.callee() in NORETURN:
            return set()
        return self.expr(s, st)
