"""C13 R13.36 / R13.37: two limits the front end has to impose on values of the input itself, because nothing behind it does.

R13.36  an alignment that is a value of the input (result of const_expr() / eval()) and is stored into an `align` field (VarAttr, Type, Obj, Member) ends up, unchanged, as
        the operand of `.align` / `.comm` and as the divisor / mask of the layout arithmetic.  C11 6.7.5p3 (and gcc for the attribute) require a power of two; `as`
        rejects `.align 3`: the output is not an assembly program and no diagnostic was given.  Rule: every such store is preceded, in its function, by a test of the
        stored value that only a power of two passes: a condition containing `v & (v - 1)` over the same value (directly or in a helper that applies it to its parameter).

R13.37  including a file puts its tokens in front of the remaining input; a file that (directly or through others) includes itself does so without end: the
        preprocessor never answers (memory exhaustion / SIGSEGV instead of a diagnostic).  Rule: the function that splices a tokenized file into the input (calls
        tokenize_file() and hands the result on) is guarded by a nesting limit: a diagnostic under a relational comparison of an integer lvalue with a constant, where the
        same lvalue (field / global) receives `<something> + 1` (or ++) when a file is entered."""
from .build import AnalysisBroken

R_ALIGN = 'R13.36'
R_DEPTH = 'R13.37'
INPUT_FNS = ('const_expr', 'eval', 'eval2', 'eval_rval')
DIAG_NORETURN = ('error_tok', 'error_at', 'error')


def _vars_in(e):
    return {x.ref_id for x in e.walk() if x.kind == 'DeclRefExpr' and x.ref_kind in ('VarDecl', 'ParmVarDecl')}


def _pow2_shape(n, ids=None):
    """n is `a & (a - 1)` (either order) over a variable; returns the variable id"""
    if n.kind != 'BinaryOperator' or n.opcode != '&' or len(n.inner) != 2:
        return None
    for a, b in ((n.inner[0], n.inner[1]), (n.inner[1], n.inner[0])):
        a1, b1 = a.strip_all(), b.strip_all()
        if a1.kind == 'DeclRefExpr' and b1.kind == 'BinaryOperator' and b1.opcode == '-' and len(b1.inner) == 2:
            l, r = b1.inner[0].strip_all(), b1.inner[1]
            if l.kind == 'DeclRefExpr' and l.ref_id == a1.ref_id and r.int_value() == 1:
                return a1.ref_id
    return None


def _pow2_helpers(units):
    """functions that apply the power-of-two test to a parameter: name -> parameter index"""
    out = {}
    for u in units:
        for f, fd in u.functions.items():
            ps = [p for p in fd.inner if p.kind == 'ParmVarDecl']
            for n in fd.walk():
                v = _pow2_shape(n)
                if v is not None:
                    for i, p in enumerate(ps):
                        if p.id == v:
                            out[f] = i
    return out


def _conds(fd):
    for n in fd.walk():
        if n.kind in ('IfStmt', 'WhileStmt', 'ConditionalOperator') and n.inner:
            yield n.inner[0]
        elif n.kind == 'BinaryOperator' and n.opcode in ('&&', '||'):
            yield n


def run_align(P, rep, unit_names=('parse.c',)):
    rep.rule(R_ALIGN, 'an alignment that is a value of the input (a constant expression) is stored into an `align` field only after a test that only a power of two passes '
                      '(`v & (v - 1)`, directly or through a helper): the field reaches `.align` / `.comm` and the layout arithmetic unchanged, and the assembler rejects an '
                      'alignment that is not a power of two (C11 6.7.5p3: a diagnostic is required)', floor=2)
    units = []
    for un in unit_names:
        try:
            units.append(P.unit(un))
        except AnalysisBroken as e:
            rep.undecided(R_ALIGN, '%s:unit' % un, str(e))
    helpers = _pow2_helpers(units)
    n_sites = 0
    for u in units:
        for f, fd in sorted(u.functions.items()):
            order = {id(n): i for i, n in enumerate(fd.walk())}
            # locals that hold a value of the input: initialised / assigned from an evaluator call, or from an expression over such a local (closure)
            taint = set()
            defs = []
            for n in fd.walk():
                if n.kind == 'VarDecl' and n.inner and n.inner[-1].kind not in ('ParmVarDecl',):
                    defs.append((n.id, n.inner[-1]))
                elif n.kind == 'BinaryOperator' and n.opcode == '=' and len(n.inner) == 2 and n.inner[0].strip().kind == 'DeclRefExpr':
                    defs.append((n.inner[0].strip().ref_id, n.inner[1]))
            changed = True
            while changed:
                changed = False
                for vid, rhs in defs:
                    if vid in taint:
                        continue
                    r = rhs.strip_all()
                    if (r.kind == 'CallExpr' and r.callee() in INPUT_FNS) or (r.kind != 'CallExpr' and _vars_in(rhs) & taint):
                        taint.add(vid)
                        changed = True
            if not taint:
                continue
            tested = {}                      # variable id -> order index of the first power-of-two test
            for c in _conds(fd):
                for n in c.walk():
                    v = _pow2_shape(n)
                    if v is None and n.kind == 'CallExpr' and n.callee() in helpers and len(n.args()) > helpers[n.callee()]:
                        a = n.args()[helpers[n.callee()]].strip_all()
                        v = a.ref_id if a.kind == 'DeclRefExpr' else None
                    if v is not None:
                        tested.setdefault(v, order[id(n)])
            # a tested variable vouches for its plain copies
            seen = {}
            for n in fd.walk():
                if n.kind == 'BinaryOperator' and n.opcode == '=' and len(n.inner) == 2:
                    t = n.inner[0].strip()
                    if t.kind == 'MemberExpr' and t.name == 'align' and t.inner:
                        vs = _vars_in(n.inner[1]) & taint
                        if not vs:
                            continue
                        rec = (t.inner[0].dtype or t.inner[0].type or '').replace('struct ', '').replace('*', '').strip()
                        ok = True
                        for v in vs:
                            src = {v}
                            grow = True
                            while grow:          # the variables v is a plain copy of
                                grow = False
                                for vid, rhs in defs:
                                    r = rhs.strip_all()
                                    if vid in src and r.kind == 'DeclRefExpr' and r.ref_id not in src:
                                        src.add(r.ref_id)
                                        grow = True
                            if not any(x in tested and tested[x] < order[id(n)] for x in src):
                                ok = False
                        k = seen.get(rec, 0)
                        seen[rec] = k + 1
                        n_sites += 1
                        rep.ob(R_ALIGN, '%s:%s:input-alignment-power-of-two/%s.align%s' % (u.name, f, rec, '' if k == 0 else '/%d' % (k + 1)), ok,
                               '%s() stores a value of the input (result of a constant expression) into %s.align without a test that only a power of two passes: the value reaches '
                               '`.align` / `.comm` and the layout arithmetic unchanged; for 3, 5, 6 .. the assembler rejects the output ("alignment not a power of 2") and the '
                               'compiler has given no diagnostic (C11 6.7.5p3 requires one)' % (f, rec), where='%s:%d' % (u.name, n.line))
    rep.extra[R_ALIGN] = {'helpers_applying_the_test': sorted(helpers), 'stores_judged': n_sites}


def _lv_key(e):
    e = e.strip_all()
    if e.kind == 'MemberExpr':
        return 'field:' + (e.name or '')
    if e.kind == 'DeclRefExpr' and e.ref_kind == 'VarDecl':
        return 'var:' + (e.ref_name or '')
    return None


def run_depth(P, rep, un='preprocess.c'):
    rep.rule(R_DEPTH, 'the function that splices another file into the input (tokenize_file() result handed on in front of the remaining tokens) imposes a nesting limit: a '
                      'diagnostic under a relational comparison of an integer lvalue with a constant, the same lvalue being increased by one when a file is entered; without it '
                      'a file that includes itself is never answered (no output, no diagnostic: memory exhaustion)', floor=1)
    try:
        u = P.unit(un)
    except AnalysisBroken as e:
        rep.undecided(R_DEPTH, '%s:unit' % un, str(e))
        return
    # lvalues that are counted up somewhere in the unit
    counted = set()
    for f, fd in u.functions.items():
        for n in fd.walk():
            if n.kind == 'UnaryOperator' and n.opcode in ('++',) and n.inner:
                k = _lv_key(n.inner[0])
                if k:
                    counted.add(k)
            elif n.kind == 'CompoundAssignOperator' and n.opcode == '+=' and len(n.inner) == 2 and n.inner[1].int_value() == 1:
                k = _lv_key(n.inner[0])
                if k:
                    counted.add(k)
            elif n.kind == 'BinaryOperator' and n.opcode == '=' and len(n.inner) == 2:
                r = n.inner[1].strip_all()
                if r.kind == 'DeclRefExpr' and r.ref_kind == 'VarDecl':
                    # a local that was initialised with `.. + 1` and not assigned since
                    ds = [d for d in fd.walk() if d.kind == 'VarDecl' and d.id == r.ref_id and d.inner]
                    ws = [w for w in fd.walk() if w.kind in ('BinaryOperator', 'CompoundAssignOperator', 'UnaryOperator') and w.opcode in ('=', '+=', '-=', '++', '--')
                          and w.inner and w.inner[0].strip().kind == 'DeclRefExpr' and w.inner[0].strip().ref_id == r.ref_id]
                    if len(ds) == 1 and not ws:
                        r = ds[0].inner[-1].strip_all()
                if r.kind == 'BinaryOperator' and r.opcode == '+' and len(r.inner) == 2 and (r.inner[1].int_value() == 1 or r.inner[0].int_value() == 1):
                    k = _lv_key(n.inner[0])
                    if k:
                        counted.add(k)
    splicers = []
    for f, fd in sorted(u.functions.items()):
        if f in ('preprocess', 'preprocess2', 'init_macros'):
            pass
        calls = [c for c in fd.walk() if c.kind == 'CallExpr' and c.callee() == 'tokenize_file']
        if calls and any(r.kind == 'ReturnStmt' and r.inner for r in fd.walk()):
            splicers.append((f, fd, calls[0]))
    if not splicers:
        rep.undecided(R_DEPTH, '%s:splicer' % un, 'no function of %s calls tokenize_file() and returns a token list' % un)
        return
    callers = {}
    for f, fd in u.functions.items():
        for c in fd.walk():
            if c.kind == 'CallExpr' and c.callee():
                callers.setdefault(c.callee(), set()).add(f)

    def guard_in(fd):
        for n in fd.walk():
            if n.kind != 'IfStmt' or len(n.inner) < 2:
                continue
            if not any(c.kind == 'CallExpr' and c.callee() in DIAG_NORETURN for c in n.inner[1].walk()):
                continue
            for b in n.inner[0].walk():
                if b.kind == 'BinaryOperator' and b.opcode in ('<', '<=', '>', '>=') and len(b.inner) == 2:
                    for x, y in ((b.inner[0], b.inner[1]), (b.inner[1], b.inner[0])):
                        if y.int_value() is not None:
                            ks = {_lv_key(m) for m in x.walk()} - {None}
                            # a local that is a copy of / computed from a counted lvalue
                            for m in x.walk():
                                if m.kind == 'DeclRefExpr' and m.ref_kind == 'VarDecl':
                                    for d in fd.walk():
                                        if d.kind == 'VarDecl' and d.id == m.ref_id and d.inner:
                                            ks |= {_lv_key(q) for q in d.inner[-1].walk()} - {None}
                            if ks & counted:
                                return sorted(ks & counted)[0]
        return None
    for f, fd, call in splicers:
        g = guard_in(fd)
        if g is None:
            # the only callers may impose the limit for it
            cs = callers.get(f, set())
            gs = [guard_in(u.functions[c]) for c in cs]
            if cs and all(gs):
                g = gs[0]
        rep.ob(R_DEPTH, '%s:%s:include-nesting-bounded' % (un, f), g is not None,
               '%s() tokenizes another file and puts its tokens in front of the remaining input, and neither it nor all of its callers refuse a nesting beyond a limit (no diagnostic '
               'under a comparison of a counted-up integer with a constant): a file that includes itself, directly or through others, is expanded without end -- the compiler '
               'answers with neither output nor a diagnostic (memory exhaustion / SIGSEGV)' % f, where='%s:%d' % (un, call.line), facts={'limit_on': g})
    rep.extra[R_DEPTH] = {'splicers': [f for f, _, _ in splicers], 'counted_lvalues': sorted(counted)}


# ------------------------------------------------------------------------------------------------------------------------------------------
# R13.38  `(` behind the pointers of a declarator has two readings: a parenthesised (nested) declarator, or the parameter list of a function declarator without a
# name (C11 6.7.6p1 / 6.7.7: `int (void)`, `int ()`; 6.7.6.3p11: a typedef name in parentheses is a parameter list).  A function that takes the first reading in
# an arm guarded by equal(tok, "(") -- recognised by its re-entering itself on the token behind the parenthesis -- while the function it otherwise hands the
# token to reads `(` as a parameter list, must tell the readings apart by the NEXT token: a type name or `)` there cannot begin a declarator.  Without the two
# tests `void g(int (void));` (valid) is answered with "expected ')'" and `void h(int ())` silently declares an int parameter.
# ------------------------------------------------------------------------------------------------------------------------------------------
R_PAREN = 'R13.38'


def _equal_tests(n, lit):
    """calls equal(X, lit) inside n: yields X"""
    for c in n.walk():
        if c.kind == 'CallExpr' and c.callee() == 'equal' and len(c.args()) == 2 and c.args()[1].str_value() == lit:
            yield c.args()[0].strip_all()


def _is_next_of_var(e):
    e = e.strip_all()
    return e.kind == 'MemberExpr' and e.name == 'next' and e.inner and e.inner[0].strip_all().kind == 'DeclRefExpr'


def run_paren(P, rep, un='parse.c'):
    rep.rule(R_PAREN, 'a declarator function that reads `(` as the start of a nested declarator (arm guarded by equal(tok, "("), re-entering itself behind the parenthesis) while '
                      'its other path reads `(` as a parameter list first excludes the parameter-list reading by the next token: a type name (is_typename(tok->next)) and `)` '
                      '(equal(tok->next, ")")) cannot begin a declarator (C11 6.7.6.3p11, 6.7.7): valid unnamed function declarators are otherwise answered with a diagnostic', floor=2)
    try:
        u = P.unit(un)
    except AnalysisBroken as e:
        rep.undecided(R_PAREN, '%s:unit' % un, str(e))
        return
    # functions that read `(` at their own token parameter as something else (parameter list, ...)
    paren_readers = set()
    for f, fd in u.functions.items():
        ps = {p.id for p in fd.inner if p.kind == 'ParmVarDecl'}
        if any(x.kind == 'DeclRefExpr' and x.ref_id in ps for x in _equal_tests(fd, '(')):
            paren_readers.add(f)
    found = []
    for f, fd in sorted(u.functions.items()):
        order = {id(n): i for i, n in enumerate(fd.walk())}
        for n in fd.walk():
            if n.kind != 'IfStmt' or len(n.inner) < 2:
                continue
            if not any(x.kind == 'DeclRefExpr' for x in _equal_tests(n.inner[0], '(')):
                continue
            selfcalls = [c for c in n.inner[1].walk() if c.kind == 'CallExpr' and c.callee() == f and any(_is_next_of_var(a) for a in c.args())]
            if not selfcalls:
                continue
            others = {c.callee() for c in fd.walk() if c.kind == 'CallExpr' and c.callee() in paren_readers and c.callee() != f}
            if not others:
                continue
            at = min(order[id(c)] for c in selfcalls)
            has_tn = any(c.kind == 'CallExpr' and c.callee() == 'is_typename' and c.args() and _is_next_of_var(c.args()[0]) and order[id(c)] < at for c in fd.walk())
            has_rp = any(_is_next_of_var(x) and order[id(x)] < at for x in _equal_tests(fd, ')'))
            found.append(f)
            why = ('%s() takes `(` behind the pointers for the start of a nested declarator (it re-enters itself on the next token) without first looking at that token, although %s() '
                   'would read the same `(` as a parameter list: ' % (f, '/'.join(sorted(others))))
            rep.ob(R_PAREN, '%s:%s:paren-after-pointers/type-name-begins-a-parameter-list' % (un, f), has_tn,
                   why + 'a declaration specifier or typedef name after `(` (`int (void)`, `int (T)`: an unnamed function declarator, C11 6.7.6.3p11) is parsed as a declarator and '
                   'the valid declaration is rejected with "expected \')\'"', where='%s:%d' % (un, n.line))
            rep.ob(R_PAREN, '%s:%s:paren-after-pointers/empty-parens-are-a-parameter-list' % (un, f), has_rp,
                   why + '`()` (`int ()`: function with unspecified parameters) is taken for an empty nested declarator and the function type is silently lost', where='%s:%d' % (un, n.line))
            break
    rep.extra[R_PAREN] = {'declarator_functions': found, 'functions_reading_paren_at_their_token': sorted(paren_readers)}
    if not found:
        rep.undecided(R_PAREN, '%s:declarator-functions' % un, 'no function with a nested-declarator arm (guard equal(tok, "("), self-call on the next token) found')
