"""C13 R13.31: an output that could not be written is answered with a diagnostic, not with silence.

stdio buffers: what fwrite/fprintf/fputs hand to a stream reaches the file when the buffer fills up -- or only when the stream is flushed
(fflush, fclose, exit).  ferror() tells what has failed SO FAR; for an output smaller than the buffer nothing has been written when the
writes are done, so the one place where a full disk / quota / I/O error shows up is the RESULT of the flush.  A function that has written
to a stream it opened for writing a file (fopen with a writing mode, stdout as the "-" file, or a function of the program that returns
such a stream) therefore has to look at the flush, on every path on which it gives the stream up:

    examined flush of S :=  if (... || fflush(S) || ...) <ends>      (also `!= 0`, `== EOF`, `< 0`; fclose(S) in the same places)
                         |  fflush(S); ... if (... || ferror(S) || ...) <ends>      (a failed flush sets the error indicator)
                         |  int r = fflush(S); ... if (... || r || ...) <ends>
                         |  helper(S), where helper() performs an examined flush of that parameter on every way through it (derived, fixpoint)
    <ends>              :=  a call that does not return (exit, abort, and every function that ends in such a call: derived), or `return v;`

at the statement level of the block that owns the stream (not under a condition), after the last statement that can write to S; nothing
but closing the stream (fclose(S), also under a comparison of S) may follow it, and no `return` may leave the function between a write
and the examination.  Memory streams (open_memstream / fmemopen) and streams opened for reading are not judged.

Decided structurally per function and stream variable, in statement order; a shape that is not one of the above (the flush result kept
in a field, tested under &&, a goto) is reported undecided, never a violation."""
from .build import AnalysisBroken

RULE = 'R13.31'
FLUSHERS = {'fflush': 0, 'fclose': 0, 'fflush_unlocked': 0}
QUERIES = {'ferror': 0, 'ferror_unlocked': 0}
HARMLESS = {'ferror': 0, 'ferror_unlocked': 0, 'fileno': 0, 'feof': 0, 'ftell': 0, 'fclose': 0, 'fflush': 0, 'fflush_unlocked': 0, 'setvbuf': 0, 'setbuf': 0}
BASE_TERMINATORS = {'exit', '_exit', '_Exit', 'abort', 'quick_exit', '__assert_fail'}
MODE_OPENERS = {'fopen': 1, 'fopen64': 1, 'freopen': 1, 'fdopen': 1, 'popen': 1}
MEMORY_OPENERS = {'open_memstream', 'fmemopen', 'open_wmemstream'}
STD_WRITE = {'stdout', 'stderr'}


def _is_file_ptr(t):
    t = (t or '').replace('struct ', '').replace('const ', '').replace(' ', '')
    return t in ('FILE*', '_IO_FILE*')


def _ret_type(fd):
    return (fd.dtype or fd.type or '').split('(')[0].strip()


def _stmts(n):
    if n is None:
        return []
    if n.kind == 'CompoundStmt':
        return [x for x in n.inner]
    return [n]


class Out:
    def __init__(self, P):
        self.P = P
        self.units = {}
        for un in sorted(P.unit_names):
            try:
                self.units[un] = P.unit(un)
            except AnalysisBroken:
                continue
        self.defs = {}        # name -> [(unit, FunctionDecl)]
        for un, u in self.units.items():
            for f, fd in u.functions.items():
                if u.body(f) is not None:
                    self.defs.setdefault(f, []).append((u, fd))
        self.terminators = self._terminators()
        self.writer_open = self._writer_open()
        self.examiners = {}   # (unit name, function) -> {param index}
        self.unknown_helpers = {}
        self._examiners()

    # ---------------------------------------------------------------- derived tables
    def _body(self, u, f):
        return u.body(f)

    def _terminators(self):
        T = set(BASE_TERMINATORS)
        changed = True
        while changed:
            changed = False
            for f, lst in self.defs.items():
                if f in T:
                    continue
                if all(self._ends(u.body(f), T, True) and not any(x.kind == 'ReturnStmt' for x in fd.walk()) for u, fd in lst):
                    T.add(f); changed = True
        return T

    def _ends(self, s, T, void):
        """the statement never completes normally into what follows it, in a way that reports failure: a non-returning call, or `return v;`"""
        if s is None:
            return False
        if s.kind == 'CompoundStmt':
            return bool(s.inner) and self._ends(s.inner[-1], T, void)
        if s.kind == 'ReturnStmt':
            return bool(s.inner) and not void
        b = s.strip_all() if hasattr(s, 'strip_all') else s
        if b.kind == 'CallExpr':
            return b.callee() in T
        if s.kind == 'IfStmt' and len(s.inner) == 3:
            return self._ends(s.inner[1], T, void) and self._ends(s.inner[2], T, void)
        return False

    def _classify_open(self, c):
        """'write' | 'read' | 'memory' | None for a call expression"""
        cal = c.callee()
        if cal in MEMORY_OPENERS:
            return 'memory'
        if cal in MODE_OPENERS:
            a = c.args()
            i = MODE_OPENERS[cal]
            m = a[i].str_value() if len(a) > i else None
            if m is None:
                return 'write'
            return 'write' if (m[:1] in ('w', 'a') or '+' in m) else 'read'
        if cal == 'tmpfile':
            return 'write'
        if cal in getattr(self, 'writer_open', ()):
            return 'write'
        return None

    def _writer_open(self):
        self.writer_open = set()
        changed = True
        while changed:
            changed = False
            for f, lst in self.defs.items():
                if f in self.writer_open:
                    continue
                for u, fd in lst:
                    if not _is_file_ptr(_ret_type(fd)):
                        continue
                    hit = False
                    for n in fd.walk():
                        if n.kind == 'CallExpr' and self._classify_open(n) == 'write':
                            hit = True
                        if n.kind == 'ReturnStmt' and n.inner:
                            b = n.inner[0].strip_all()
                            if b.kind == 'DeclRefExpr' and b.ref_name in STD_WRITE:
                                hit = True
                    if hit:
                        self.writer_open.add(f); changed = True
        return self.writer_open

    def _examiners(self):
        changed = True
        rounds = 0
        while changed and rounds < 8:
            changed = False
            rounds += 1
            for f, lst in sorted(self.defs.items()):
                for u, fd in lst:
                    for i, pd in enumerate(u.params(f) or []):
                        if not _is_file_ptr(pd.dtype or pd.type) or i in self.examiners.get((u.name, f), ()):
                            continue
                        void = _ret_type(fd) == 'void'
                        r, why = self.scan(u, fd, _stmts(u.body(f)), pd.id, void, dirty=True)
                        if r == 'yes':
                            self.examiners.setdefault((u.name, f), set()).add(i); changed = True
                            self.unknown_helpers.pop((u.name, f, i), None)
                        elif r == 'unknown':
                            self.unknown_helpers[(u.name, f, i)] = why

    def _examiner_of(self, u, name):
        if (u.name, name) in self.examiners:
            return (u.name, name)
        for (un, f) in self.examiners:
            if f == name and not any(uu.name == u.name for uu, fd in self.defs.get(name, ())):
                return (un, f)
        return None

    def _helper_unknown(self, u, name, idx):
        for (un, f, i), why in self.unknown_helpers.items():
            if f == name and i == idx:
                return why
        return None

    # ---------------------------------------------------------------- expression shapes
    def _is_var(self, e, vid):
        b = e.strip_all()
        return b.kind == 'DeclRefExpr' and b.ref_id == vid

    def _call_on(self, e, table, vid):
        b = e.strip_all()
        if b.kind == 'CallExpr' and b.callee() in table:
            a = b.args()
            i = table[b.callee()]
            return len(a) > i and self._is_var(a[i], vid)
        return False

    def _fail_test(self, d, pred):
        """d is true when the call selected by pred reported failure: call, call != 0, call == EOF(-1), call < 0"""
        b = d.strip_all()
        if pred(b):
            return True
        if b.kind == 'BinaryOperator' and len(b.inner) == 2:
            l, r = b.inner[0].strip_all(), b.inner[1].strip_all()
            for x, y, swapped in ((l, r, False), (r, l, True)):
                if pred(x):
                    v = y.int_value()
                    if b.opcode == '!=' and v == 0:
                        return True
                    if b.opcode == '==' and v == -1:
                        return True
                    if v == 0 and ((b.opcode == '<' and not swapped) or (b.opcode == '>' and swapped)):
                        return True
        return False

    def _only_conditional_flush(self, cond, vid, flushvars):
        """every flush of the stream in the condition is the right operand of an && whose left operand compares the stream variable itself (which stream it is decides
        whether the flush is looked at)"""
        found = False
        for x in cond.walk():
            if x.kind == 'CallExpr' and self._call_on(x, FLUSHERS, vid):
                p, prev = x.parent, x
                ok = False
                while p is not None and p is not cond.parent:
                    if p.kind == 'BinaryOperator' and p.opcode == '&&' and any(y is prev for y in p.inner[1].walk()) or (p.kind == 'BinaryOperator' and p.opcode == '&&' and p.inner[1] is prev):
                        l = p.inner[0].strip_all()
                        if l.kind == 'BinaryOperator' and l.opcode in ('==', '!=') and any(self._is_var(z, vid) for z in l.inner):
                            ok = True
                    prev, p = p, p.parent
                if not ok:
                    return False
                found = True
            if x.kind == 'DeclRefExpr' and x.ref_id in flushvars:
                return False
        return found

    def _disjuncts(self, c):
        b = c.strip_all()
        if b.kind == 'BinaryOperator' and b.opcode == '||':
            return self._disjuncts(b.inner[0]) + self._disjuncts(b.inner[1])
        return [b]

    def _mentions(self, s, vid):
        return [n for n in s.walk() if n.kind == 'DeclRefExpr' and n.ref_id == vid]

    def _harmless_mention(self, n):
        """the use of the stream variable neither writes to the stream nor hands it on: argument of a query / flush / close, operand of a comparison or truth test"""
        p = n.parent
        while p is not None and p.kind in ('ImplicitCastExpr', 'ParenExpr', 'CStyleCastExpr'):
            p = p.parent
        if p is None:
            return False
        if p.kind == 'CallExpr':
            cal = p.callee()
            if cal in HARMLESS:
                a = p.args()
                i = HARMLESS[cal]
                return len(a) > i and any(x is n for x in a[i].walk())
            return False
        if p.kind == 'BinaryOperator' and p.opcode in ('==', '!=', '&&', '||'):
            return True
        if p.kind == 'UnaryOperator' and p.opcode == '!':
            return True
        if p.kind in ('IfStmt', 'ConditionalOperator') and p.inner and any(x is n for x in p.inner[0].walk()):
            return True
        return False

    # ---------------------------------------------------------------- the statement scan
    def scan(self, u, fd, stmts, vid, void, dirty=False, start=0):
        """('yes'|'no'|'unknown', reason): the statements, in order, end with an examined flush of the stream variable after its last write"""
        examined = False
        pending = False           # fflush(S) was executed (result not looked at): ferror(S) now tells whether the buffered data was written
        flushvars = set()         # locals initialised with the result of fflush(S)/fclose(S)
        T = self.terminators
        for s in stmts[start:]:
            ms = self._mentions(s, vid)
            # ---- a flush whose result is kept in a local
            if s.kind == 'DeclStmt':
                hit = False
                for d in s.inner:
                    if d.kind == 'VarDecl' and d.inner and self._call_on(d.inner[-1], FLUSHERS, vid):
                        flushvars.add(d.id); pending = True; hit = True
                if hit:
                    continue
            b = s.strip_all() if s.kind not in ('DeclStmt',) else s
            # ---- fflush(S); as a statement
            if b.kind == 'CallExpr' and self._call_on(b, {'fflush': 0, 'fflush_unlocked': 0}, vid):
                pending = True
                continue
            # ---- helper(S)
            if b.kind == 'CallExpr' and b.callee() not in HARMLESS and ms:
                ex = self._examiner_of(u, b.callee())
                a = b.args()
                idxs = [i for i, x in enumerate(a) if self._is_var(x, vid)]
                if ex is not None and idxs and all(i in self.examiners[ex] for i in idxs) and len(idxs) == len(ms):
                    examined, dirty, pending = True, False, False
                    continue
                if idxs and len(idxs) == len(ms):
                    why = self._helper_unknown(u, b.callee(), idxs[0])
                    if why:
                        return 'unknown', 'hands the stream to %s(), in which %s' % (b.callee(), why)
            # ---- if (...) <ends>
            if s.kind == 'IfStmt' and ms and any(self._call_on(x, FLUSHERS, vid) or self._call_on(x, QUERIES, vid) or (x.kind == 'DeclRefExpr' and x.ref_id in flushvars) for x in s.inner[0].walk()):
                cond = s.inner[0]
                ds = self._disjuncts(cond)
                fl = [d for d in ds if self._fail_test(d, lambda x: self._call_on(x, FLUSHERS, vid) or (x.kind == 'DeclRefExpr' and x.ref_id in flushvars))]
                fe = [d for d in ds if self._fail_test(d, lambda x: self._call_on(x, QUERIES, vid))]
                uses_flush = any(self._call_on(x, FLUSHERS, vid) or (x.kind == 'DeclRefExpr' and x.ref_id in flushvars) for x in cond.walk())
                rest_ms = [n for br in s.inner[1:] for n in self._mentions(br, vid)]
                if self._ends(s.inner[1], T, void) and len(s.inner) == 2 and all(self._harmless_mention(n) for n in rest_ms):
                    if fl or (fe and pending):
                        examined, dirty, pending = True, False, False
                        continue
                    if fe and not uses_flush:
                        continue            # errors so far are examined; what is still buffered is not
                if uses_flush and not fl and self._only_conditional_flush(cond, vid, flushvars):
                    continue                # the flush is examined for some streams only (`S != stdout && fclose(S)`): no examination on the other path
                if uses_flush and fl and len(s.inner) == 2 and not self._ends(s.inner[1], T, void) and not any(x.kind in ('ReturnStmt', 'GotoStmt') for x in s.inner[1].walk()):
                    continue                # the failure is noticed but the function goes on to report success: not an examination
                if uses_flush:
                    return 'unknown', 'the result of flushing the stream is tested in a condition of a shape that is not followed (`%s`)' % cond.src()
            # ---- the result of a flush is stored / returned: who looks at it is not followed
            if ms:
                for x in s.walk():
                    if x.kind == 'CallExpr' and self._call_on(x, FLUSHERS, vid):
                        p = x.parent
                        while p is not None and p.kind in ('ImplicitCastExpr', 'ParenExpr'):
                            p = p.parent
                        if p is not None and (p.kind in ('ReturnStmt', 'VarDecl', 'CompoundAssignOperator') or (p.kind == 'BinaryOperator' and p.opcode == '=')):
                            return 'unknown', 'the result of %s() on the stream is kept in a value (`%s`): who decides on it is not followed' % (x.callee(), p.src() if p.kind != 'VarDecl' else p.name)
                for n in ms:
                    p = n.parent
                    while p is not None and p.kind in ('ImplicitCastExpr', 'ParenExpr', 'CStyleCastExpr'):
                        p = p.parent
                    if p is not None and ((p.kind == 'BinaryOperator' and p.opcode == '=' and any(x is n for x in p.inner[1].walk())) or (p.kind == 'VarDecl' and p.id != vid) or p.kind == 'InitListExpr'):
                        return 'unknown', 'the stream is stored elsewhere (`%s`): who flushes it is not followed' % (p.src() if p.kind != 'VarDecl' else p.name)
            if any(x.kind in ('GotoStmt', 'IndirectGotoStmt') for x in s.walk()) and (dirty or examined):
                return 'unknown', 'a goto leaves the statement order'
            # ---- anything else
            if ms and not all(self._harmless_mention(n) for n in ms):
                if examined:
                    return 'no', 'written-after-the-flush-was-examined'
                dirty, pending = True, False
                continue
            rets = [x for x in s.walk() if x.kind == 'ReturnStmt']
            if rets and dirty and not examined:
                bad = [x for x in rets if not (x.inner and any(self._call_on(y, FLUSHERS, vid) for y in x.walk()))]
                if bad:
                    return 'no', 'returns-before-the-flush-is-examined'
        if examined or not dirty:
            return 'yes', ''
        return 'no', 'flush-result-never-examined'


def run(P, rep):
    rep.rule(RULE, 'an output that could not be written is not a silent success: a function that writes to a stream opened for writing a file (fopen with a writing mode, stdout as "-", a function of '
                   'the program that returns such a stream) examines the RESULT OF FLUSHING it -- fflush()/fclose() in a condition that ends the process or the function, ferror() after an fflush(), '
                   'or a helper that does so for its parameter on every way through it (derived) -- after its last write and before it gives the stream up: ferror() alone sees only what has left '
                   'the stdio buffer, an output smaller than the buffer fails at flush time', floor=2)
    O = Out(P)
    n = 0
    for f, lst in sorted(O.defs.items()):
        for u, fd in lst:
            body = u.body(f)
            void = _ret_type(fd) == 'void'
            returned = set()
            for r in fd.walk():
                if r.kind == 'ReturnStmt' and r.inner:
                    b = r.inner[0].strip_all()
                    if b.kind == 'DeclRefExpr':
                        returned.add(b.ref_id)
            seen = set()
            for node in fd.walk():
                src = vid = holder = None
                if node.kind == 'VarDecl' and _is_file_ptr(node.dtype or node.type) and node.inner and node.parent is not None and node.parent.kind == 'DeclStmt':
                    src, vid, holder = node.inner[-1].strip_all(), node.id, node.parent
                elif node.kind == 'BinaryOperator' and node.opcode == '=' and len(node.inner) == 2:
                    lhs = node.inner[0].strip_all()
                    if _is_file_ptr(lhs.dtype or lhs.type):
                        src, holder = node.inner[1].strip_all(), node
                        vid = lhs.ref_id if lhs.kind == 'DeclRefExpr' else None
                        if src.kind == 'CallExpr' and O._classify_open(src) == 'write' and (vid is None or not any(d.kind == 'VarDecl' and d.id == vid for d in fd.walk())):
                            if f not in O.writer_open:
                                rep.undecided(RULE, '%s:%s:stream-from-%s:kept-outside-the-function' % (u.name, f, src.callee()),
                                              '%s() keeps the stream it opened for writing in `%s`, which is not a local variable: who flushes it is not followed' % (f, lhs.src()), where='%s:%d' % (u.name, node.line))
                            continue
                if src is None or vid is None or src.kind != 'CallExpr' or O._classify_open(src) != 'write':
                    continue
                if vid in returned:
                    continue            # the function hands the stream to its caller, who is judged
                opener = src.callee()
                base = '%s:%s:stream-from-%s' % (u.name, f, opener)
                if (base, vid) in seen:
                    continue
                seen.add((base, vid))
                where = '%s:%d' % (u.name, node.line)
                blk = holder.parent
                while blk is not None and blk.kind in ('ImplicitCastExpr', 'ParenExpr'):
                    blk = blk.parent
                if blk is None or blk.kind != 'CompoundStmt':
                    rep.undecided(RULE, base + ':opened-inside-an-expression', 'the stream is opened inside a larger statement: the statement order that follows is not recognised', where=where)
                    continue
                idx = [i for i, x in enumerate(blk.inner) if x is holder]
                if not idx:
                    rep.undecided(RULE, base + ':opened-inside-an-expression', 'the statement that opens the stream is not found in its block', where=where)
                    continue
                n += 1
                r, why = O.scan(u, fd, blk.inner, vid, void, dirty=False, start=idx[0] + 1)
                if r == 'unknown':
                    rep.undecided(RULE, base + ':flush-examination-not-followed', '%s() writes a file through the stream it got from %s(): %s' % (f, opener, why), where=where)
                    continue
                ok = r == 'yes'
                msgs = {
                    'flush-result-never-examined': 'gives the stream up without having examined the result of flushing it (no fflush()/fclose() result in a condition that ends the process, no ferror() after an '
                                                   'fflush(), no helper that does so): data that is still in the stdio buffer is written by fclose()/exit, and a failure there (disk full, quota, I/O error) '
                                                   'is lost -- for an output smaller than the buffer that is ALL the data: the compiler exits 0, without a diagnostic and without output',
                    'written-after-the-flush-was-examined': 'writes to the stream again (or hands it on) after the flush was examined: the later data is flushed by fclose()/exit with nobody looking at the result',
                    'returns-before-the-flush-is-examined': 'can return after it has written to the stream and before the flush is examined: on that path the buffered data is written at exit, unexamined',
                }
                rep.ob(RULE, base + (':buffered-writes-examined' if ok else ':' + why), ok,
                       '%s() writes a file through the stream it got from %s() and %s' % (f, opener, msgs.get(why, why)), where=where,
                       facts={'helpers_that_examine_the_flush_of_a_parameter': sorted('%s:%s#%d' % (k[0], k[1], i + 1) for k, v in O.examiners.items() for i in v)})
    rep.extra[RULE] = {'streams_judged': n, 'functions_returning_an_output_stream': sorted(O.writer_open),
                       'helpers_that_examine_the_flush_of_a_parameter (derived)': sorted('%s:%s#%d' % (k[0], k[1], i + 1) for k, v in O.examiners.items() for i in v),
                       'non-returning functions (derived)': sorted(O.terminators - BASE_TERMINATORS)}
    if n == 0:
        rep.undecided(RULE, 'program:no-output-stream-written', 'no function opens a file stream for writing: the output-writing anchor vanished')
