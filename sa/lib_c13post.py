"""C13 R13.32 / R13.33: two acceptance rules of the expression grammar and the type relation (a valid program is answered with output).

R13.32  C11 6.5.2p1: every form of postfix-expression -- a primary expression AND a compound literal `( type-name ) { ... }` -- may be followed by the
        postfix operators `[ ]`, `( )`, `.`, `->`, `++`, `--`.  The parser function that owns the postfix-operator loop (derived: a loop whose body tests the
        token against at least two of "[", ".", "->") must lead every form it recognises into that loop: a `return` that precedes the loop hands a
        postfix-expression back without looking for operators, so `(int[]){1,2,3}[1]` or `(struct S){1,2}.a` ends in "expected ','" / "expected ';'".
        A return whose value is a call of a function that itself owns such a loop (an extracted tail) is fine.

R13.33  C11 6.2.7p1, 6.7.6.1p2, 6.7.6.2p6, 6.7.6.3p15: a type is compatible with a type built separately from the same description: qualified/typedef copies
        of the scalar types (copy_type keeps `origin`), pointers, arrays of the same constant length, an array of known and one of unknown length, functions,
        and pointers to those.  The compatibility predicate of type.c is interpreted (Engine I) on such pairs; it has to answer `true` on every path: _Generic
        selects by it (no matching association without `default` is a diagnostic on a valid program, with `default` the wrong arm is taken silently) and
        __builtin_types_compatible_p returns it."""
from .build import AnalysisBroken
from .interp import Interp, Obj, Unsupported

OPS = ('[', '.', '->')


def _equal_strs(n):
    out = []
    for c in n.walk():
        if c.kind == 'CallExpr' and c.callee() in ('equal', 'consume'):
            a = c.args()
            s = a[1].str_value() if len(a) > 1 else None
            if s is not None:
                out.append(s)
    return out


def _operator_loops(fd):
    loops = []
    for l in fd.walk():
        if l.kind not in ('ForStmt', 'WhileStmt', 'DoStmt'):
            continue
        tested = set()
        for s in l.walk():
            if s.kind == 'IfStmt' and s.inner:
                tested |= set(x for x in _equal_strs(s.inner[0]) if x in OPS)
        if len(tested) >= 2 and not any(a.kind in ('ForStmt', 'WhileStmt', 'DoStmt') and a is not l and a in loops for a in l.ancestors()):
            loops.append(l)
    return loops


def run_postfix(P, rep, rule='R13.32'):
    rep.rule(rule, 'every form of postfix-expression the parser recognises (primary expression, compound literal) is led into the loop that applies the postfix operators [ ] ( ) . -> ++ -- '
                   '(C11 6.5.2p1): the function that owns that loop does not return a form before the loop', floor=1)
    u = P.unit('parse.c')
    owners = {}
    for f, fd in sorted(u.functions.items()):
        if u.body(f) is None:
            continue
        ls = _operator_loops(fd)
        if ls:
            owners[f] = ls
    if not owners:
        rep.undecided(rule, 'parse.c:postfix:operator-loop', 'no function of parse.c owns a loop that tests the token against the postfix operators "[", ".", "->": the anchor vanished')
        return
    for f, ls in sorted(owners.items()):
        fd = u.fn(f)
        body = u.body(f)
        loop = ls[0]
        top = loop
        while top.parent is not None and top.parent is not body:
            top = top.parent
        if top.parent is not body:
            rep.undecided(rule, 'parse.c:%s:operator-loop' % f, 'the operator loop is not found below the body of %s()' % f)
            continue
        idx = [i for i, x in enumerate(body.inner) if x is top][0]
        bad = {}
        for s in body.inner[:idx]:
            for r in s.walk():
                if r.kind != 'ReturnStmt':
                    continue
                v = r.inner[0].strip_all() if r.inner else None
                if v is not None and v.kind == 'CallExpr' and v.callee() in owners and v.callee() != f:
                    continue
                g = None
                for a in r.ancestors():
                    if a.kind == 'IfStmt' and a.inner and a.parent is body:
                        g = a
                names = sorted(set(c.callee() for c in g.inner[0].walk() if c.kind == 'CallExpr' and c.callee() and c.callee() not in ('equal', 'consume'))) if g is not None else []
                strs = _equal_strs(g.inner[0]) if g is not None else []
                label = 'form-guarded-by-' + ('+'.join(names) if names else ('token-' + '-'.join(strs) if strs else 'nothing'))
                bad.setdefault(label, r)
        where = 'parse.c:%d' % loop.line
        if not bad:
            rep.ob(rule, 'parse.c:%s:every-form-reaches-the-operator-loop' % f, True, '', where=where)
        for label, r in sorted(bad.items()):
            rep.ob(rule, 'parse.c:%s:%s:returns-before-the-operator-loop' % (f, label), False,
                   '%s() owns the loop that applies the postfix operators (parse.c:%d) but returns the expression it has parsed at parse.c:%d, before that loop: a postfix-expression of this form '
                   '(C11 6.5.2p1: `( type-name ) { initializer-list }` is one) cannot be subscripted, called or followed by `.`/`->`/`++`; `(int[]){1,2,3}[1]` and `(struct S){1,2}.a` are '
                   'answered with a syntax error ("expected \',\'" / "expected \';\'") although they are valid' % (f, loop.line, r.line),
                   where='parse.c:%d' % r.line, facts={'guard': label})


# ---------------------------------------------------------------------------------------------------------------------------------
SCALARS = ('bool', 'char', 'short', 'int', 'long', 'uchar', 'uint', 'ulong', 'float', 'double', 'ldouble', 'enum', 'void')
DERIVED = ('ptr-int', 'ptr-char', 'ptr-void', 'ptr-struct', 'ptr-ptr-int', 'array-int', 'ptr-array', 'func', 'ptr-func')


def _share(a, b):
    """the two descriptions end in the same scalar / tagged type object (type.c has one object per scalar type, one per struct declaration)"""
    for f in ('base', 'return_ty'):
        x, y = a.fields.get(f), b.fields.get(f)
        if isinstance(x, Obj) and isinstance(y, Obj):
            if any(isinstance(x.fields.get(g), Obj) for g in ('base', 'return_ty')):
                _share(x, y)
            else:
                b.fields[f] = x


def run_compat(P, rep, rule='R13.33'):
    from . import lib_c13decl as LD
    rep.rule(rule, 'the type-compatibility predicate of type.c answers true for two types built separately from the same description (C11 6.2.7p1, 6.7.6.1p2, 6.7.6.2p6, 6.7.6.3p15): '
                   'typedef/qualified copies of every scalar type, pointers, arrays of the same length, an array of known and one of unknown length, functions, pointers to those -- '
                   '_Generic selects its association by it (no match without `default` is a diagnostic on a valid program)', floor=20)
    u = P.unit('type.c')
    fn = 'is_compatible'
    if fn not in u.functions or [(p.type or '').replace(' ', '') for p in u.params(fn)] != ['Type*', 'Type*']:
        rep.undecided(rule, 'type.c:is_compatible:anchor', 'is_compatible(Type *, Type *) vanished')
        return
    tys = LD.Types(P)
    where = 'type.c:%d' % u.fn(fn).line
    pairs = []
    for n in SCALARS:
        try:
            a, b = tys.make(n), tys.make(n)
        except AnalysisBroken:
            continue
        b.fields['origin'] = a
        pairs.append((n + '~copy', a, b, 'a typedef / qualified copy of `%s` and `%s` itself' % (n, n)))
    for n in DERIVED:
        a, b = tys.make(n), tys.make(n)
        _share(a, b)
        pairs.append((n, a, b, 'two separately built types `%s`' % n))
    for n in ('array-int', 'ptr-array'):
        a, b = tys.make(n), tys.make(n)
        _share(a, b)
        arr = b if n == 'array-int' else b.fields['base']
        arr.fields['array_len'] = -1
        arr.fields['size'] = -1
        pairs.append((n + '~unknown-length', a, b, '`%s` with a known length and the same with an unknown length (`int[3]` / `int[]`)' % n))
    for name, a, b, what in pairs:
        key = 'type.c:%s:%s' % (fn, name)
        verdicts = []
        und = None
        for x, y in ((a, b), (b, a)):
            try:
                it = Interp(P, u, {'rec_limit': 16})
                res = it.explore(fn, lambda ctx, x=x, y=y: [x, y], max_paths=64)
            except (Unsupported, AnalysisBroken) as e:
                und = '%s() cannot be interpreted on %s: %s' % (fn, what, e)
                break
            outs = [out for ctx, out in res]
            if not outs or any(o[0] != 'ret' or not isinstance(o[1], int) for o in outs):
                und = '%s() on %s: result not determined (%r)' % (fn, what, [o[:2] for o in outs][:3])
                break
            verdicts.append(all(o[1] != 0 for o in outs))
        if und:
            rep.undecided(rule, key, und, where=where)
            continue
        rep.ob(rule, key, all(verdicts),
               '%s() answers false for %s, which are compatible types: a `_Generic` whose controlling expression has one of them and whose association names the other finds no match '
               '(diagnostic on a valid program, or silently the `default` arm), __builtin_types_compatible_p yields 0' % (fn, what), where=where)
