"""R13.39 loop progress: a small abstract executor (finite sets / intervals of integers, values relative to the value a variable had at the start of an
iteration) that decides, for every loop whose condition tests locals the loop changes, whether an iteration can be completed with all of them unchanged."""
from .cast import TRANSPARENT

NORETURN = frozenset(['error', 'error_at', 'error_tok', 'exit', '_exit', 'abort', '__assert_fail'])
LIBC_PURE = frozenset(['strlen', 'strcmp', 'strncmp', 'memcmp', 'strchr', 'strrchr', 'strstr', 'isalnum', 'isalpha', 'isdigit', 'isxdigit', 'isspace', 'ispunct',
                       'tolower', 'toupper', 'strncasecmp', 'strcasecmp', 'abs'])
LIBC_IO = frozenset(['fprintf', 'vfprintf', 'printf', 'fputc', 'fputs', 'putc', 'fflush', 'fwrite'])   # effects, but none on what a loop condition can read
CAP = 40


# ---------------------------------------------------------------------------------------- abstract integers
class AV:
    """finite set of integers (s) or interval [lo, hi] minus ex (None = unbounded)"""
    __slots__ = ('s', 'lo', 'hi', 'ex')

    def __init__(self, s=None, lo=None, hi=None, ex=frozenset()):
        self.s = frozenset(s) if s is not None else None
        self.lo, self.hi, self.ex = lo, hi, frozenset(ex)
        if self.s is not None and len(self.s) > CAP:
            self.lo, self.hi, self.s = min(self.s), max(self.s), None
        if self.s is None and self.lo is not None and self.hi is not None and self.hi - self.lo < CAP:
            self.s, self.lo, self.hi, self.ex = frozenset(x for x in range(self.lo, self.hi + 1) if x not in self.ex), None, None, frozenset()

    def is_top(self):
        return self.s is None and self.lo is None and self.hi is None

    def bounded(self):
        return self.s is not None or (self.lo is not None and self.hi is not None)

    def empty(self):
        return self.s is not None and not self.s

    def bounds(self):
        if self.s is not None:
            return (min(self.s), max(self.s)) if self.s else (0, -1)
        return self.lo, self.hi

    def has(self, c):
        if self.s is not None:
            return c in self.s
        return (self.lo is None or self.lo <= c) and (self.hi is None or c <= self.hi) and c not in self.ex

    def all_pos(self):
        lo, hi = self.bounds()
        return lo is not None and lo > 0

    def all_neg(self):
        lo, hi = self.bounds()
        return hi is not None and hi < 0

    def show(self):
        if self.s is not None:
            return '{%s}' % ', '.join(str(x) for x in sorted(self.s))
        return '[%s, %s]' % ('-inf' if self.lo is None else self.lo, '+inf' if self.hi is None else self.hi)


TOPAV = AV()


def const(c):
    return AV(s=[c])


def av_join(a, b):
    if a.s is not None and b.s is not None:
        return AV(s=a.s | b.s)
    (al, ah), (bl, bh) = a.bounds(), b.bounds()
    if a.empty():
        return b
    if b.empty():
        return a
    lo = None if al is None or bl is None else min(al, bl)
    hi = None if ah is None or bh is None else max(ah, bh)
    ex = frozenset(x for x in (a.ex if a.s is None else frozenset()) | (b.ex if b.s is None else frozenset()) if not a.has(x) and not b.has(x))
    return AV(lo=lo, hi=hi, ex=ex)


def _py(op, x, y):
    if op == '+': return x + y
    if op == '-': return x - y
    if op == '*': return x * y
    if op == '&': return x & y
    if op == '|': return x | y
    if op == '^': return x ^ y
    if op == '<<': return x << y if 0 <= y < 64 else None
    if op == '>>': return x >> y if 0 <= y < 64 else None
    if op == '/': return None if y == 0 else (abs(x) // abs(y)) * (1 if (x < 0) == (y < 0) else -1)
    if op == '%': return None if y == 0 else x - y * ((abs(x) // abs(y)) * (1 if (x < 0) == (y < 0) else -1))
    if op == '<': return int(x < y)
    if op == '<=': return int(x <= y)
    if op == '>': return int(x > y)
    if op == '>=': return int(x >= y)
    if op == '==': return int(x == y)
    if op == '!=': return int(x != y)
    return None


CMP = ('<', '<=', '>', '>=', '==', '!=')


def av_bin(op, a, b):
    if a.s is not None and b.s is not None and len(a.s) * len(b.s) <= 400:
        out = set()
        for x in a.s:
            for y in b.s:
                r = _py(op, x, y)
                if r is None:
                    return AV(s=[0, 1]) if op in CMP else TOPAV
                out.add(r)
        return AV(s=out)
    if op in CMP:
        (al, ah), (bl, bh) = a.bounds(), b.bounds()
        if op in ('<', '<=') or op in ('>', '>='):
            if op in ('>', '>='):
                (al, ah), (bl, bh), op = (bl, bh), (al, ah), {'>': '<', '>=': '<='}[op]
            if ah is not None and bl is not None and (ah < bl or (op == '<=' and ah <= bl)):
                return const(1)
            if al is not None and bh is not None and (al > bh or (op == '<' and al >= bh)):
                return const(0)
        return AV(s=[0, 1])
    if op in ('+', '-'):
        (al, ah), (bl, bh) = a.bounds(), b.bounds()
        if op == '-':
            bl, bh = (None if bh is None else -bh), (None if bl is None else -bl)
        return AV(lo=None if al is None or bl is None else al + bl, hi=None if ah is None or bh is None else ah + bh)
    if op == '&':
        for m in (a, b):
            lo, hi = m.bounds()
            if lo is not None and lo >= 0 and hi is not None:
                return AV(lo=0, hi=hi)
    if op == '%':
        lo, hi = b.bounds()
        al, ah = a.bounds()
        if lo is not None and lo > 0 and hi is not None and al is not None and al >= 0:
            return AV(lo=0, hi=hi - 1)
    return TOPAV


def av_refine(a, op, c):
    """a restricted to values x with x op c; may be empty"""
    if a.s is not None:
        return AV(s=[x for x in a.s if _py(op, x, c)])
    lo, hi, ex = a.lo, a.hi, set(a.ex)
    if op == '==':
        return AV(s=[c] if a.has(c) else [])
    if op == '!=':
        if lo is not None and c == lo:
            lo += 1
        elif hi is not None and c == hi:
            hi -= 1
        else:
            ex.add(c)
    elif op in ('<', '<='):
        h = c - 1 if op == '<' else c
        hi = h if hi is None else min(hi, h)
    elif op in ('>', '>='):
        l = c + 1 if op == '>' else c
        lo = l if lo is None else max(lo, l)
    if lo is not None and hi is not None and lo > hi:
        return AV(s=[])
    return AV(lo=lo, hi=hi, ex=ex)


# ---------------------------------------------------------------------------------------- values and states
TOP = (None, TOPAV)


def v_join(a, b):
    if a is None:
        return b
    if b is None:
        return a
    if a[0] != b[0]:
        return TOP
    return (a[0], av_join(a[1], b[1]))


class State:
    __slots__ = ('env', 'eff')

    def __init__(self, env=None, eff=False):
        self.env, self.eff = dict(env or {}), eff

    def copy(self):
        return State(self.env, self.eff)

    def get(self, vid):
        return self.env.get(vid, TOP)

    def take(self, o):
        self.env, self.eff = dict(o.env), o.eff


def s_join(a, b):
    if a is None:
        return b.copy() if b is not None else None
    if b is None:
        return a.copy()
    env = {}
    for k in set(a.env) & set(b.env):
        v = v_join(a.env[k], b.env[k])
        if v is not TOP:
            env[k] = v
    return State(env, a.eff or b.eff)


def _ex(n):
    """children of a declaration that are expressions"""
    return [c for c in n.inner if not c.kind.endswith('Attr')]


def written_vars(n):
    """declaration ids of the variables a subtree may change (assignment, ++/--, address taken, declared in it)"""
    out = set()
    for x in n.walk():
        t = None
        if x.kind == 'CompoundAssignOperator' or (x.kind == 'BinaryOperator' and x.opcode == '='):
            t = x.inner[0].strip_all()
        elif x.kind == 'UnaryOperator' and x.opcode in ('++', '--', '&'):
            t = x.inner[0].strip_all()
        elif x.kind == 'VarDecl':
            out.add(x.id)
        if t is not None and t.kind == 'DeclRefExpr':
            out.add(t.ref_id)
    return out


def _has_effect_syntax(n):
    for x in n.walk():
        if x.kind == 'CompoundAssignOperator' or (x.kind == 'BinaryOperator' and x.opcode == '=') or (x.kind == 'UnaryOperator' and x.opcode in ('++', '--')) or x.kind == 'CallExpr':
            return True
    return False


def loop_parts(p):
    """(init, cond, inc, body) of a loop statement"""
    if p.kind == 'ForStmt':
        raw, itr, slots = p.d.get('inner', []), iter(p.inner), []
        for r in raw:
            slots.append(next(itr) if (isinstance(r, dict) and r) else None)
        slots = (slots + [None] * 5)[:5]
        return slots[0], slots[2], slots[3], slots[4]
    if p.kind == 'DoStmt':
        return None, p.inner[1], None, p.inner[0]
    return None, p.inner[0], None, (p.inner[1] if len(p.inner) > 1 else None)


class Exec:
    """one function, executed once from the entry with joins at merges; every loop is judged when it is met"""

    def __init__(self, world, un, u, fname, depth=0):
        self.W, self.un, self.u, self.fname, self.depth = world, un, u, fname, depth
        self.fd = u.functions[fname]
        self.locals = set(x.id for x in self.fd.walk() if x.kind in ('VarDecl', 'ParmVarDecl') and x.d.get('storageClass') != 'static')
        self.unstable = set()       # address taken: the value is never known
        for x in self.fd.walk():
            if x.kind == 'UnaryOperator' and x.opcode == '&':
                t = x.inner[0].strip_all()
                if t.kind == 'DeclRefExpr':
                    self.unstable.add(t.ref_id)
        self.names = {x.id: x.name for x in self.fd.walk() if x.kind in ('VarDecl', 'ParmVarDecl')}
        # locals that keep the value of their initializer (declared with one, never assigned again): a test of such a flag is a test of its initializer
        targets = set()
        for x in self.fd.walk():
            t = None
            if x.kind == 'CompoundAssignOperator' or (x.kind == 'BinaryOperator' and x.opcode == '='):
                t = x.inner[0].strip_all()
            elif x.kind == 'UnaryOperator' and x.opcode in ('++', '--', '&'):
                t = x.inner[0].strip_all()
            if t is not None and t.kind == 'DeclRefExpr':
                targets.add(t.ref_id)
        self.const_params = set(x.id for x in self.fd.walk() if x.kind == 'ParmVarDecl' and x.id not in targets)
        self.single = {}
        for x in self.fd.walk():
            if x.kind == 'VarDecl' and 'init' in x.d and x.id in self.locals and x.id not in targets and _ex(x):
                self.single[x.id] = _ex(x)[-1]
        self.frames = []
        self.rets = []
        self.loops = []             # verdict records
        self.has_label = any(x.kind in ('LabelStmt', 'GotoStmt', 'IndirectGotoStmt') for x in self.fd.walk())

    def run(self):
        body = self.u.body(self.fname)
        if body is not None:
            self.stmt(body, State())
        return self

    # ---- expressions
    def is_local(self, n):
        return n.kind == 'DeclRefExpr' and n.ref_id in self.locals and n.ref_id not in self.unstable

    def assign(self, S, target, val):
        t = target.strip_all()
        if t.kind == 'DeclRefExpr' and t.ref_id in self.locals:
            if t.ref_id in self.unstable:
                return
            if val is TOP or (val[0] is None and val[1].is_top()):
                S.env.pop(t.ref_id, None)
            else:
                S.env[t.ref_id] = val
            return
        self.ev(target, S)
        S.eff = True

    def ev(self, e, S):
        k = e.kind
        if k in TRANSPARENT and e.inner:
            v = self.ev(e.inner[0], S)
            if k == 'ImplicitCastExpr' and e.cast_kind == 'IntegralCast':
                return self.cast(e, v)
            return v
        if k == 'CStyleCastExpr' and e.inner:
            return self.cast(e, self.ev(e.inner[-1], S))
        iv = e.int_value() if k in ('IntegerLiteral', 'CharacterLiteral', 'DeclRefExpr') else None
        if iv is not None:
            return (None, const(iv))
        if k == 'DeclRefExpr':
            if self.is_local(e):
                return S.get(e.ref_id)
            return TOP
        if k == 'UnaryOperator':
            op, x = e.opcode, e.inner[0]
            if op in ('++', '--'):
                old = self.ev(x, S)
                new = (old[0], av_bin('+', old[1], const(1 if op == '++' else -1)))
                self.assign(S, x, new)
                return old if e.d.get('isPostfix') else new
            v = self.ev(x, S)
            if op == '+':
                return v
            if op == '-' and v[0] is None:
                return (None, av_bin('-', const(0), v[1]))
            if op == '!':
                if v[0] is None and v[1].bounded():
                    if not v[1].has(0):
                        return (None, const(0))
                    if v[1].s == frozenset([0]):
                        return (None, const(1))
                return (None, AV(s=[0, 1]))
            return TOP
        if k == 'BinaryOperator':
            op, l, r = e.opcode, e.inner[0], e.inner[1]
            if op == '=':
                v = self.ev(r, S)
                self.assign(S, l, v)
                return v
            if op == ',':
                self.ev(l, S)
                return self.ev(r, S)
            if op in ('&&', '||'):
                lv = self.ev(l, S)
                go = self.refine(S.copy(), l, op == '&&')
                stop = self.refine(S.copy(), l, op != '&&')
                rv = None
                if go is not None:
                    rv = self.ev(r, go)
                j = s_join(go, stop)
                if j is not None:
                    S.take(j)
                if go is None:
                    return (None, const(0 if op == '&&' else 1))
                return (None, AV(s=[0, 1]))
            a, b = self.ev(l, S), self.ev(r, S)
            return self.arith(op, a, b)
        if k == 'CompoundAssignOperator':
            op = (e.opcode or '')[:-1]
            a = self.ev(e.inner[0], S)
            b = self.ev(e.inner[1], S)
            v = self.arith(op, a, b)
            self.assign(S, e.inner[0], v)
            return v
        if k == 'ConditionalOperator':
            c, x, y = e.inner[0], e.inner[1], e.inner[2]
            self.ev(c, S)
            St, Sf = self.refine(S.copy(), c, True), self.refine(S.copy(), c, False)
            vt = self.ev(x, St) if St is not None else None
            vf = self.ev(y, Sf) if Sf is not None else None
            j = s_join(St, Sf)
            if j is not None:
                S.take(j)
            v = v_join(vt, vf)
            return v if v is not None else TOP
        if k == 'CallExpr':
            for a in e.inner:
                self.ev(a, S)
            f = e.callee()
            if f is None or not (f in self.W.pure or f in LIBC_PURE or f in LIBC_IO or self.W_effect_free(f)):
                S.eff = True
            if f is not None:
                r = self.W_ret(f)
                if r is not None:
                    return (None, r)
            return TOP
        if k in ('StringLiteral', 'FloatingLiteral', 'UnaryExprOrTypeTraitExpr', 'OffsetOfExpr', 'CompoundLiteralExpr', 'InitListExpr', 'ImplicitValueInitExpr'):
            return TOP
        if k in ('MemberExpr', 'ArraySubscriptExpr'):
            for a in e.inner:
                self.ev(a, S)
            return TOP
        # anything else: its locals are not known afterwards
        for vid in written_vars(e):
            S.env.pop(vid, None)
        if _has_effect_syntax(e):
            S.eff = True
        return TOP

    def W_effect_free(self, f):
        return self.W.effect_free(f)

    def W_ret(self, f):
        return self.W.ret_of(f, self.depth)

    def cast(self, e, v):
        t = (e.dtype or '')
        if t in ('unsigned char', 'uint8_t', '_Bool', 'bool'):
            if v[0] is None and v[1].s is not None:
                return (None, AV(s=[(x & 0xff) if t != '_Bool' and t != 'bool' else int(x != 0) for x in v[1].s]))
            return (None, AV(lo=0, hi=255 if t not in ('_Bool', 'bool') else 1))
        return v

    def arith(self, op, a, b):
        if op in ('+', '-'):
            if a[0] is not None and b[0] is None:
                return (a[0], av_bin(op, a[1], b[1]))
            if op == '+' and a[0] is None and b[0] is not None:
                return (b[0], av_bin(op, a[1], b[1]))
            if op == '-' and a[0] is not None and a[0] == b[0]:
                return (None, av_bin('-', a[1], b[1]))
        if a[0] is None and b[0] is None:
            return (None, av_bin(op, a[1], b[1]))
        if op in CMP:
            if a[0] == b[0]:
                return (None, av_bin(op, a[1], b[1]))
            return (None, AV(s=[0, 1]))
        return TOP

    # ---- refinement by a condition (no effects)
    def refine(self, S, c, truth, depth=0):
        c = c.strip_all()
        if c.kind == 'UnaryOperator' and c.opcode == '!':
            return self.refine(S, c.inner[0], not truth)
        if c.kind == 'BinaryOperator' and c.opcode in ('&&', '||'):
            conj = (c.opcode == '&&') == truth
            if conj:
                S1 = self.refine(S, c.inner[0], truth)
                return self.refine(S1, c.inner[1], truth) if S1 is not None else None
            A = self.refine(S.copy(), c.inner[0], truth)
            B0 = self.refine(S.copy(), c.inner[0], not truth)
            B = self.refine(B0, c.inner[1], truth) if B0 is not None else None
            return s_join(A, B)
        if _has_effect_syntax(c) and not all(x.callee() and (x.callee() in self.W.pure or x.callee() in LIBC_PURE or self.W.effect_free(x.callee())) for x in c.find('CallExpr')):
            return S
        if any(x.kind == 'CompoundAssignOperator' or (x.kind == 'BinaryOperator' and x.opcode == '=') or (x.kind == 'UnaryOperator' and x.opcode in ('++', '--')) for x in c.walk()):
            return S
        if c.kind == 'BinaryOperator' and c.opcode in CMP:
            op = c.opcode
            if not truth:
                op = {'<': '>=', '<=': '>', '>': '<=', '>=': '<', '==': '!=', '!=': '=='}[op]
            l, r = c.inner[0].strip_all(), c.inner[1].strip_all()
            a, b = self.ev(c.inner[0], S.copy()), self.ev(c.inner[1], S.copy())
            if a[0] == b[0]:
                d = av_bin(op, a[1], b[1])
                if d.s == frozenset([0]):
                    return None
                for (x, vx, vo, o) in ((l, a, b, op), (r, b, a, {'<': '>', '<=': '>=', '>': '<', '>=': '<=', '==': '==', '!=': '!='}[op])):
                    if self.is_local(x) and vo[1].s is not None and len(vo[1].s) == 1:
                        n = av_refine(vx[1], o, next(iter(vo[1].s)))
                        if n.empty():
                            return None
                        S.env[x.ref_id] = (vx[0], n)
                    elif self.is_local(x) and o in ('<', '<=', '>', '>=') and vo[1].bounded():
                        lo, hi = vo[1].bounds()
                        n = av_refine(vx[1], o, hi if o in ('<', '<=') else lo)
                        if n.empty():
                            return None
                        S.env[x.ref_id] = (vx[0], n)
            return S
        v = self.ev(c, S.copy())
        if v[0] is None and v[1].bounded():
            if truth and v[1].s == frozenset([0]):
                return None
            if not truth and not v[1].has(0):
                return None
        if self.is_local(c) and v[0] is None:
            n = av_refine(v[1], '!=' if truth else '==', 0)
            if n.empty():
                return None
            S.env[c.ref_id] = (None, n)
        if self.is_local(c) and c.ref_id in self.single and depth < 3:
            init = self.single[c.ref_id]
            if not _has_effect_syntax(init) and all(x.ref_id in self.single or x.ref_id in self.const_params for x in init.walk() if x.kind == 'DeclRefExpr' and x.ref_id in self.locals) \
                    and init.strip_all().kind in ('BinaryOperator', 'UnaryOperator') and (init.strip_all().opcode in CMP or init.strip_all().opcode in ('&&', '||', '!')):
                return self.refine(S, init, truth, depth + 1)
        return S

    # ---- statements
    def stmt(self, st, S):
        """-> state after the statement, None if it does not complete normally"""
        if S is None or st is None:
            return S
        k = st.kind
        if k == 'CompoundStmt':
            for x in st.inner:
                S = self.stmt(x, S)
                if S is None:
                    return None
            return S
        if k == 'DeclStmt':
            for d in st.inner:
                if d.kind != 'VarDecl':
                    continue
                S.env.pop(d.id, None)
                if 'init' in d.d and d.id in self.locals and _ex(d):
                    v = self.ev(_ex(d)[-1], S)
                    if d.id not in self.unstable and v is not TOP and not (v[0] is None and v[1].is_top()):
                        S.env[d.id] = v
            return S
        if k == 'IfStmt':
            c = st.inner[0]
            self.ev(c, S)
            St, Sf = self.refine(S.copy(), c, True), self.refine(S.copy(), c, False)
            a = self.stmt(st.inner[1], St) if St is not None and len(st.inner) > 1 else St
            b = self.stmt(st.inner[2], Sf) if Sf is not None and len(st.inner) > 2 else Sf
            return s_join(a, b)
        if k in ('WhileStmt', 'ForStmt', 'DoStmt'):
            return self.loop(st, S)
        if k == 'ReturnStmt':
            if st.inner:
                v = self.ev(st.inner[0], S)
                self.rets.append(v[1] if v[0] is None else TOPAV)
            return None
        if k == 'BreakStmt':
            if self.frames:
                self.frames[-1]['brk'].append(S)
            return None
        if k == 'ContinueStmt':
            if self.frames:
                self.frames[-1]['cont'].append(S)
            return None
        if k in ('GotoStmt', 'IndirectGotoStmt'):
            return None
        if k == 'LabelStmt':
            S = State(eff=True)
            return self.stmt(st.inner[-1], S) if st.inner else S
        if k == 'NullStmt':
            return S
        if k == 'SwitchStmt':
            self.ev(st.inner[0], S)
            fr = {'brk': [], 'cont': self.frames[-1]['cont'] if self.frames else [], 'entry': S.copy(), 'default': False}
            self.frames.append(fr)
            out = self._switch_body(st.inner[-1], fr)
            self.frames.pop()
            for b in fr['brk']:
                out = s_join(out, b)
            if not fr['default']:
                out = s_join(out, fr['entry'])
            return out
        if k in ('CaseStmt', 'DefaultStmt'):
            fr = next((f for f in reversed(self.frames) if 'entry' in f), None)
            if fr is not None:
                if k == 'DefaultStmt':
                    fr['default'] = True
                S = s_join(S, fr['entry'])
            return self.stmt(st.inner[-1], S) if st.inner else S
        # expression statement
        if k == 'CallExpr' and st.callee() in NORETURN:
            self.ev(st, S)
            return None
        self.ev(st, S)
        return S

    def _switch_body(self, body, fr):
        """the body of a switch is entered only at its labels"""
        S = None
        sts = body.inner if body.kind == 'CompoundStmt' else [body]
        for x in sts:
            if x.kind in ('CaseStmt', 'DefaultStmt'):
                if x.kind == 'DefaultStmt':
                    fr['default'] = True
                S = s_join(S, fr['entry'])
                # nested labels: case 1: case 2: stmt
                y = x
                while y.kind in ('CaseStmt', 'DefaultStmt') and y.inner:
                    if y.kind == 'DefaultStmt':
                        fr['default'] = True
                    y = y.inner[-1]
                S = self.stmt(y, S)
            elif S is not None:
                S = self.stmt(x, S)
        return S

    def loop(self, L, S):
        init, cond, inc, body = loop_parts(L)
        if init is not None:
            S = self.stmt(init, S)
            if S is None:
                return None
        wr = set()
        for part in (cond, inc, body):
            if part is not None:
                wr |= written_vars(part)
        H = S.copy()
        for v in wr:
            H.env.pop(v, None)
        # ---- probe of one iteration
        I = H.copy()
        I.eff = False
        cvars = []
        if cond is not None:
            for x in cond.walk():
                if x.kind == 'DeclRefExpr' and x.ref_id in self.locals and x.ref_id not in cvars:
                    cvars.append(x.ref_id)
        cw = [v for v in cvars if v in wr]
        for v in wr:
            if v in self.locals and v not in self.unstable:
                I.env[v] = (v, const(0))
        fr = {'brk': [], 'cont': []}
        done = []
        if L.kind == 'DoStmt':
            self.frames.append(fr)
            F = self.stmt(body, I)
            self.frames.pop()
            for s in [F] + fr['cont']:
                if s is None:
                    continue
                self.ev(cond, s)
                s = self.refine(s, cond, True)
                if s is not None:
                    done.append(s)
        else:
            It = I
            if cond is not None:
                self.ev(cond, It)
                It = self.refine(It, cond, True)
            if It is not None:
                self.frames.append(fr)
                F = self.stmt(body, It) if body is not None else It
                self.frames.pop()
                for s in [F] + fr['cont']:
                    if s is None:
                        continue
                    if inc is not None:
                        self.ev(inc, s)
                    done.append(s)
        self.judge(L, cond, cvars, cw, done, wr)
        # ---- after the loop
        out = H.copy()
        out.eff = True if (S.eff or any(s.eff for s in done) or any(s.eff for s in fr['brk'])) else False
        if cond is not None and not fr['brk'] and L.kind != 'DoStmt':
            self.ev(cond, out)
            out = self.refine(out, cond, False)
        elif cond is not None:
            self.ev(cond, out)
        if cond is None and not fr['brk']:
            return None
        return out

    def judge(self, L, cond, cvars, cw, done, wr):
        rec = {'node': L, 'fn': self.fname, 'unit': self.un, 'verdict': 'skip', 'why': '', 'cursors': [self.names.get(v, '?') for v in cw],
               'cond': cond.src() if cond is not None else ''}
        self.loops.append(rec)
        if cond is None:
            rec['why'] = 'no condition: the loop is left by break/return only'
            return
        if any(v in self.unstable for v in cvars):
            rec['why'] = 'the condition tests a variable whose address is taken'
            return
        if self.has_label and any(x.kind in ('LabelStmt',) for x in L.walk()):
            rec['why'] = 'a label inside the loop'
            return
        if not cw:
            rec['why'] = 'the condition tests no local the loop changes'
            return
        reads_mem = any(x.kind in ('MemberExpr', 'ArraySubscriptExpr', 'CallExpr') or (x.kind == 'UnaryOperator' and x.opcode == '*')
                        or (x.kind == 'DeclRefExpr' and x.ref_kind == 'VarDecl' and x.ref_id not in self.locals) for x in cond.walk())
        rec['completed_iterations'] = len(done)
        stuck, unknown = None, None
        for s in done:
            st = {}
            for v in cw:
                val = s.env.get(v, TOP)
                if val[0] != v:
                    st[v] = ('unknown', None)
                elif val[1].all_pos() or val[1].all_neg():
                    st[v] = ('moves', val[1])
                elif val[1].bounded() and val[1].has(0):
                    st[v] = ('zero', val[1])
                else:
                    st[v] = ('unknown', val[1])
            if any(x[0] == 'moves' for x in st.values()):
                continue
            if all(x[0] == 'zero' for x in st.values()) and not (reads_mem and s.eff):
                stuck = st
            else:
                unknown = st
        if stuck is not None:
            rec['verdict'] = 'stuck'
            rec['amounts'] = {self.names.get(v, '?'): x[1].show() for v, x in stuck.items()}
        elif unknown is not None:
            rec['verdict'] = 'unknown'
            rec['why'] = 'an iteration can be completed along a path on which the change of %s is not a bounded amount the analysis can follow' % \
                         ', '.join('`%s`' % self.names.get(v, '?') for v in unknown)
        else:
            rec['verdict'] = 'progress'


class World:
    """return ranges and effect summaries of the functions of the program, on demand"""

    def __init__(self, W):
        self.W = W
        self.pure = set(W.pure)
        self.fdef = {}
        for un, u in sorted(W.units.items()):
            for f in u.functions:
                if len(W.fn_unit.get(f, ())) == 1:
                    self.fdef[f] = (un, u)
        self._ret, self._ef, self._busy = {}, {}, set()

    def effect_free(self, f):
        """no store outside its own locals, only calls to functions of which the same holds"""
        if f in self._ef:
            return self._ef[f]
        if f in self.pure or f in LIBC_PURE:
            return True
        if f not in self.fdef or ('ef', f) in self._busy:
            return False
        self._busy.add(('ef', f))
        un, u = self.fdef[f]
        fd = u.functions[f]
        loc = set(x.id for x in fd.walk() if x.kind in ('VarDecl', 'ParmVarDecl') and x.d.get('storageClass') != 'static')
        ok = True
        for x in fd.walk():
            t = None
            if x.kind == 'CompoundAssignOperator' or (x.kind == 'BinaryOperator' and x.opcode == '='):
                t = x.inner[0].strip_all()
            elif x.kind == 'UnaryOperator' and x.opcode in ('++', '--'):
                t = x.inner[0].strip_all()
            elif x.kind == 'CallExpr':
                g = x.callee()
                if g is None or not (g in LIBC_PURE or self.effect_free(g)):
                    ok = False
            if t is not None and not (t.kind == 'DeclRefExpr' and t.ref_id in loc):
                ok = False
            if not ok:
                break
        self._busy.discard(('ef', f))
        self._ef[f] = ok
        return ok

    def ret_of(self, f, depth):
        if f in self._ret:
            return self._ret[f]
        if f not in self.fdef or depth >= 3 or ('ret', f) in self._busy:
            return None
        un, u = self.fdef[f]
        t = (u.functions[f].type or '')
        if not any(t.startswith(p) for p in ('int ', 'int(', 'bool', '_Bool', 'long', 'unsigned', 'char ', 'char(', 'uint', 'int32', 'int64', 'size_t')) or '*' in t.split('(')[0]:
            self._ret[f] = None
            return None
        self._busy.add(('ret', f))
        try:
            ex = Exec(self, un, u, f, depth + 1).run()
            r = None
            for a in ex.rets:
                r = a if r is None else av_join(r, a)
            if r is not None and r.is_top():
                r = None
        except RecursionError:
            r = None
        self._busy.discard(('ret', f))
        self._ret[f] = r
        return r
