"""C13 R13.27: initializer lists of VALID programs are walked without a diagnostic also for structs/unions whose member lists contain members that take
no part in initialization (unnamed bit-fields, C11 6.7.9p9) -- the separator protocol of the list walk.

The engine is C05's (R05.14: token states E = start of an element, A = separator behind an element; skip(tok, ",") demanded at E is the diagnostic
"expected ','" on a valid program).  C05 decides the protocol for member lists WITHOUT bit-fields (Member.is_bitfield is 0 there: "the separator protocol
does not depend on the members").  It does depend on them wherever the code derives "this walk starts at the first element" from the member cursor: here the
same functions are interpreted with every member free to be an unnamed bit-field, a named bit-field, a named member or an anonymous aggregate member."""
from .build import AnalysisBroken
from .interp import Obj, View, Cell, Unsupported

U = 'parse.c'
RULE = 'R13.27'
ROOTS = [('initializer2', 'TY_STRUCT'), ('initializer2', 'TY_UNION'), ('designation', 'TY_STRUCT'), ('designation', 'TY_UNION')]
MAX_PATHS = 6000


def _hook(base):
    def hook(it, ctx, o, f, t):
        if o.tname == 'Token' and f == 'next':
            nx = Obj('Token', lazy=True, label=(o.label or 'tok') + '.next')
            nx.meta['prev'] = o
            return nx
        if o.tname == 'Member' and f == 'is_bitfield':
            return View(Cell([0, 1], (o.label or 'mem') + '.is_bitfield'))
        if o.tname == 'Member' and f == 'name':
            lab = (o.label or 'mem') + '.name'
            return View(Cell([0, Obj('Token', lazy=True, label=lab)], lab, names={0: 'NULL'}))
        return base(it, ctx, o, f, t)
    return hook


def _member_class(ctx):
    """which kind of member list the path has seen: the construct name of a violation is derived from it"""
    seen = set()
    for d in ctx.trail:
        if '.is_bitfield in {1}' in d:
            seen.add('bit-field')
        if '.name in {NULL}' in d:
            seen.add('unnamed')
    if seen == {'bit-field', 'unnamed'}:
        return 'unnamed-bit-field'
    if 'bit-field' in seen:
        return 'bit-field'
    if 'unnamed' in seen:
        return 'anonymous-member'
    return 'plain-members'


def run(P, rep):
    rep.rule(RULE, 'initializer lists of valid programs reach no diagnostic whatever the member list looks like: with members that take no part in initialization (unnamed '
                   'bit-fields, C11 6.7.9p9), named bit-fields and anonymous members anywhere in the list, every element parser of the initializer walk is entered at the start of '
                   'an element, `,` is demanded exactly behind an element, the closing brace is accepted behind the last element and a walk hands back the token behind its last '
                   'element -- braced, brace-elided (6.7.9p20) and continued behind a designator (engine of C05 R05.14, member lists free)', floor=18)
    try:
        from .rules import c05
        need = ('_sep_interp', 'short_lists_hook', '_mk_init', 'tk_state', '_tk_obj')
        missing = [n for n in need if not hasattr(c05, n)]
        if missing:
            raise AnalysisBroken('the separator-protocol engine of C05 is not available (%s)' % ', '.join(missing))
        u = P.unit(U)
        E = u.enums
        for f in ('initializer2', 'designation', 'struct_initializer1', 'struct_initializer2', 'union_initializer'):
            if f not in u.functions:
                raise AnalysisBroken('anchor %s vanished' % f)
    except (AnalysisBroken, ImportError) as e:
        rep.undecided(RULE, '%s:initializer-walk:engine' % U, 'the initializer walk cannot be interpreted: %s' % e)
        return
    stats = {}
    for root, kind in ROOTS:
        via = 'via-%s(%s)' % (root, kind.replace('TY_', '').lower())
        try:
            it = c05._sep_interp(P, u, E)
            it.lazy_field = _hook(c05.short_lists_hook(1))
            orig = it.models.get('assign')
            if orig is None:
                raise AnalysisBroken('assign() is not modelled by the engine any more')

            def m_assign(it_, ctx, n, a, orig=orig):
                # the type of the expression: the object's own type (whole-aggregate copy) or a witness of another class (scalar, another struct, another union)
                node = orig(it_, ctx, n, a)
                ty = node.fields.get('ty') if isinstance(node, Obj) else None
                if isinstance(ty, View):
                    for c in ty.cell.cands:
                        if isinstance(c, Obj) and c.lazy and 'kind' not in c.fields:
                            c.fields['kind'] = View(Cell([E['TY_INT'], E['TY_STRUCT'], E['TY_UNION']], (c.label or 'ty') + '.kind'))
                return node
            it.models['assign'] = m_assign

            def mk(ctx, kind=kind):
                a = c05._mk_init(E[kind])(ctx)
                a[1].meta['st'] = 'E'
                ctx.entry_tok = a[1]
                ctx.root_init.fields['expr'] = 0
                return a
            res = it.explore(root, mk, max_paths=MAX_PATHS)
        except (AnalysisBroken, Unsupported, KeyError) as e:
            rep.undecided(RULE, '%s:%s:%s' % (U, root, via), 'exploration not possible: %s' % e)
            continue
        if len(res) >= MAX_PATHS:
            rep.undecided(RULE, '%s:%s:%s' % (U, root, via), 'more than %d paths: exploration capped' % MAX_PATHS)
            continue
        nret, judged, with_bf = 0, 0, 0
        for ctx, out in res:
            if out[0] == 'ret':
                nret += 1
            mc = None
            for e in ctx.events:
                if e[0] != 'proto':
                    continue
                _, what, st, fn, line, extra = e
                if st is None:
                    continue
                if what == 'close':
                    ok = extra == 'ok'
                    construct = 'closing-brace-behind-the-last-element' if ok else 'trailing-comma-behind-%s-rejected' % str(extra).split(':', 1)[-1]
                    msg = ('%s demands the closing `}` directly behind the element although a trailing comma may stand there (C11 6.7.9: `{ initializer-list , }`): '
                           'a valid initializer is rejected with "expected \'}\'"' % fn)
                elif what == 'skip-comma':
                    ok = st == 'A' and extra in (None, ',')
                    if st == 'E':
                        construct = 'comma-demanded-where-an-element-starts'
                        msg = ('%s demands a `,` at a token that is the START of an initializer element: a valid initializer is rejected with "expected \',\'" -- e.g. '
                               '`struct S { int :4; int a, b; }; struct T { struct S s; int c; } t = {1, 2, 3};` (the brace-elided walk of s starts at the first member '
                               'that takes part in initialization; no separator precedes its initializer)' % fn)
                    elif not ok:
                        construct, msg = 'comma-demanded-at-the-end-of-the-list', '%s demands a `,` at a token already known to be the closing `}`' % fn
                    else:
                        construct, msg = 'comma-skipped-behind-an-element', ''
                else:
                    ok = st == 'E'
                    construct = '%s-entered-%s' % (extra, 'at-the-start-of-an-element' if ok else 'at-the-separator')
                    msg = ('%s calls %s while the token still stands on the separator (`,`) behind the previous element: the `,` is taken for the start of an element and a valid '
                           'initializer is rejected ("expected an expression")' % (fn, extra))
                if not ok:
                    mc = mc or _member_class(ctx)
                    construct += '(%s)' % mc
                judged += 1
                rep.ob(RULE, '%s:%s:%s/%s' % (U, fn, via, construct), ok, msg, where='%s:%d' % (U, line), facts={'path': list(ctx.trail)})
            if any('.is_bitfield in {1}' in d for d in ctx.trail):
                with_bf += 1
            if out[0] != 'ret':
                continue
            R = c05._tk_obj(it, ctx.slot.v)
            st = c05.tk_state(R)
            if R is None or st is None:
                continue
            ok = st == 'A' or R is ctx.entry_tok
            rep.ob(RULE, '%s:%s:%s/%s' % (U, root, via, 'hands-back-the-token-behind-its-last-element' if ok else
                                          'hands-back-a-token-behind-the-separator(%s)' % _member_class(ctx)), ok,
                   '%s (with the walks it continues inlined) hands back through *rest a token BEHIND the `,` that follows its last element: the caller, which skips that `,` '
                   'itself, rejects the valid initializer' % root, where='%s:%d' % (U, u.fn(root).line), facts={'path': list(ctx.trail)})
        stats[via] = {'paths': len(res), 'returning': nret, 'judged_events': judged, 'paths_with_a_bit_field_member': with_bf}
        if nret == 0 or not judged:
            rep.undecided(RULE, '%s:%s:%s' % (U, root, via), 'walk not recognised (%d returning paths, %d judged calls)' % (nret, judged))
        elif kind == 'TY_STRUCT' and root == 'initializer2' and with_bf == 0:
            rep.undecided(RULE, '%s:%s:%s/bit-field-members' % (U, root, via), 'no path of the walk looks at Member.is_bitfield: the member lists are not the ones this rule is about')
    rep.extra[RULE] = stats
