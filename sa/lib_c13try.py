"""C13 R13.34: a tentative recogniser decides that the input is its own before it judges it.

A function with a boolean result that has a "not mine" exit (`return false`: the caller goes on and reads the same input another way -- convert_pp_int() before
strtold(), expand_macro() before the token is copied) may issue a diagnostic only where the input is known to be its own: on no path from the point of the
diagnostic (were the diagnostic to return) is a "not mine" exit still ahead.  A diagnostic with a "not mine" exit behind it rejects (or warns about) an input
that another reading accepts: a valid program is answered with a diagnostic instead of output.

Decided structurally per function: statement order, the two arms of an `if` exclude each other, a common loop makes everything in it reachable, the arms of a
switch that end in break/return/continue exclude each other.  Diagnostics issued by callees are not followed (listed as not judged)."""
from .build import AnalysisBroken

RULE = 'R13.34'
DIAG = ('error_tok', 'error_at', 'error', 'warn_tok')
UNITS = ('tokenize.c', 'preprocess.c', 'parse.c')


def _is_bool_fn(fd):
    t = (fd.type or '')
    # bool: false is "not mine"; pointer: NULL is "not mine" (an integer 0 is a value, not an answer about the input)
    return t.startswith('bool (') or t.startswith('_Bool (') or (t.split('(')[0].rstrip().endswith('*') and not t.startswith('void *'))


def _const_false(ret):
    if not ret.inner:
        return False
    try:
        return ret.inner[0].int_value() == 0
    except Exception:
        return False


def _slug(s):
    out = ''.join(ch.lower() if ch.isalnum() else '-' for ch in (s or ''))
    while '--' in out:
        out = out.replace('--', '-')
    return out.strip('-')[:48] or 'diagnostic'


def _chain(n, top):
    c = [n]
    while c[-1] is not top and c[-1].parent is not None:
        c.append(c[-1].parent)
    return list(reversed(c))


def _arm_leaves(stmts):
    """the statement list of a switch arm ends in a jump"""
    for s in reversed(stmts):
        x = s
        while x.kind in ('CaseStmt', 'DefaultStmt', 'LabelStmt') and x.inner:
            x = x.inner[-1]
        if x.kind in ('BreakStmt', 'ReturnStmt', 'ContinueStmt', 'GotoStmt'):
            return True
        if x.kind == 'CallExpr' and x.callee() in ('error_tok', 'error_at', 'error', 'abort', 'exit'):
            return True
        if x.kind == 'CompoundStmt' and x.inner:
            return _arm_leaves(x.inner)
        return False
    return False


def _tail_returns(stmts):
    """control does not fall out of the end of this statement list: it ends in a return / a call that does not return (both arms of a closing if/else do)"""
    if not stmts:
        return False
    x = stmts[-1]
    while x.kind in ('CaseStmt', 'DefaultStmt', 'LabelStmt') and x.inner:
        x = x.inner[-1]
    if x.kind == 'ReturnStmt':
        return True
    if x.kind == 'CallExpr' and x.callee() in ('error_tok', 'error_at', 'error', 'abort', 'exit'):
        return True
    if x.kind == 'CompoundStmt':
        return _tail_returns(x.inner)
    if x.kind == 'IfStmt' and len(x.inner) > 2:
        return _tail_returns([x.inner[1]]) and _tail_returns([x.inner[2]])
    return False


def reachable(order, body, d, r):
    """can control get from statement-position d to r (d treated as returning)?"""
    cd, cr = _chain(d, body), _chain(r, body)
    i = 0
    while i < len(cd) and i < len(cr) and cd[i] is cr[i]:
        i += 1
    common = cd[:i]
    if any(c.kind in ('WhileStmt', 'ForStmt', 'DoStmt') for c in common):
        return True
    if any(c.kind == 'LabelStmt' for c in body.walk()):
        return True                      # gotos: not decided structurally, assume reachable
    lca = common[-1] if common else body
    # control that cannot fall out of a block below the common ancestor never gets to r (no common loop, no labels: checked above)
    for j in range(i, len(cd) - 1):
        c = cd[j]
        if c.kind == 'CompoundStmt' and cd[j + 1] in c.inner:
            k = c.inner.index(cd[j + 1])
            if _tail_returns(c.inner[k + 1:]):
                return False
        elif c.kind in ('WhileStmt', 'ForStmt', 'DoStmt', 'SwitchStmt'):
            break                       # break / continue inside: falls out behind the loop
    if i < len(cd) and i < len(cr):
        a, b = cd[i], cr[i]
        if lca.kind == 'IfStmt' and len(lca.inner) > 2:
            arms = (lca.inner[1], lca.inner[2])
            if (a is arms[0] and b is arms[1]) or (a is arms[1] and b is arms[0]):
                return False
        if lca.kind == 'CompoundStmt' and lca.parent is not None and lca.parent.kind == 'SwitchStmt':
            ia, ib = lca.inner.index(a), lca.inner.index(b)
            if ia < ib:
                # arms between a and b: if any arm boundary is preceded by a jump, b is entered only through its own label
                for j in range(ia, ib):
                    nxt = lca.inner[j + 1]
                    if nxt.kind in ('CaseStmt', 'DefaultStmt') and _arm_leaves(lca.inner[ia:j + 1]):
                        return False
    return order[id(r)] > order[id(d)]


def _result_is_tested(call):
    """the result of this call decides a branch right where it is made (if / loop condition, operand of && || !, condition of ?:): the caller asks
    "is this input yours?". A result that is stored, returned or passed on is a VALUE (a flag such as "the name was quoted"), and `false` no answer about the input"""
    n, p = call, call.parent
    while p is not None and (p.kind in ('ParenExpr', 'ImplicitCastExpr') or (p.kind == 'UnaryOperator' and p.opcode == '!')):
        n, p = p, p.parent
    if p is None:
        return False
    if p.kind in ('IfStmt', 'WhileStmt', 'ConditionalOperator'):
        return bool(p.inner) and p.inner[0] is n
    if p.kind == 'DoStmt':
        return len(p.inner) > 1 and p.inner[1] is n
    if p.kind == 'ForStmt':
        return n in p.inner[:-1]
    if p.kind == 'BinaryOperator' and p.opcode in ('&&', '||'):
        return True
    return False


def run(P, rep):
    rep.rule(RULE, 'a function with a boolean or pointer result and a "not mine" exit (`return false` / `return NULL`, after which the caller reads the same input another way) issues a diagnostic only where '
                   'no "not mine" exit is still ahead: the test that the input is its own dominates every diagnostic about it (a valid program that another reading accepts is not '
                   'answered with a diagnostic)', floor=2)
    stats = {'recognisers': {}, 'diagnostics_judged': 0}
    units = {}
    for un in UNITS:
        if un not in P.unit_names:
            continue
        try:
            units[un] = P.unit(un)
        except AnalysisBroken as e:
            rep.undecided(RULE, '%s:unit' % un, str(e))
    may = set(DIAG)
    for un in UNITS:
        u = units.get(un)
        if u is None:
            continue
        for f, fd in sorted(u.functions.items()):
            if not _is_bool_fn(fd):
                continue
            body = [c for c in fd.inner if c.kind == 'CompoundStmt']
            if not body:
                continue
            body = body[-1]
            order = {id(n): i for i, n in enumerate(body.walk())}
            rets = [n for n in body.walk() if n.kind == 'ReturnStmt']
            rej = [r for r in rets if _const_false(r)]
            acc = [r for r in rets if not _const_false(r)]
            if not rej or not acc:
                continue
            sites = [c for un2 in UNITS if units.get(un2) is not None for fd2 in units[un2].functions.values() for c in fd2.calls(f)]
            if not sites or not all(_result_is_tested(c) for c in sites):
                continue            # some caller keeps the result as a value: `false` is data, not "not mine"
            diags = [c for c in body.walk() if c.kind == 'CallExpr' and c.callee() in may]
            stats['recognisers'][('%s:%s' % (un, f))] = {'not_mine_exits': len(rej), 'diagnostics': len(diags)}
            seen = {}
            for c in diags:
                a = c.args()
                msg = None
                for x in a:
                    msg = x.str_value()
                    if msg is not None:
                        break
                slug = '%s-%s' % (c.callee(), _slug(msg)) if c.callee() in DIAG else 'diagnostics-of-%s' % c.callee()
                k = seen.get(slug, 0)
                seen[slug] = k + 1
                ahead = [r for r in rej if reachable(order, body, c, r)]
                stats['diagnostics_judged'] += 1
                rep.ob(RULE, '%s:%s:%s%s' % (un, f, slug, '' if k == 0 else '/%d' % (k + 1)), not ahead,
                       '%s() can still answer "not mine" (return false, line%s %s) after the point where it issues the diagnostic %s(%s): the caller would have gone on to read the '
                       'same input another way, so an input that reading accepts -- a valid program -- is answered with this diagnostic; the diagnostic must come after the last test '
                       'that decides the input is %s\'s own' % (f, 's' if len(ahead) > 1 else '', ', '.join(str(r.line) for r in ahead), c.callee(), '"%s"' % msg if c.callee() in DIAG else '.. may issue diagnostics about the input', f),
                       where='%s:%d' % (un, c.line))
    rep.extra[RULE] = {'recognisers': stats['recognisers'], 'diagnostics_judged': stats['diagnostics_judged']}
