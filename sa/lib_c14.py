"""Private helpers of the C14 / C12 rule modules: whole-program call graph over the
typed AST (all calls in chibicc are direct except m->handler(tok); a function whose
address is taken is treated as called from the function that takes it), structural
"is this call evaluated unconditionally" test, and a process model (fork / exec /
wait / exit) for Engine I.

Nothing here looks at line numbers or source text to decide anything.
"""
from .interp import Interp, Obj, Sym, Arr, NoReturn, _Ref, _UNINIT, _FnRef, View
from .build import AnalysisBroken


# ------------------------------------------------------------------ call graph ---
class CallGraph:
    def __init__(self, P):
        self.P = P
        self.defs = {}       # function name -> [(unit, FunctionDecl)]
        self.edges = {}      # caller name -> set(callee/referenced function names)
        self.sites = {}      # callee name -> [(unit, caller name, CallExpr node)]
        self.refs = {}       # function name -> [(unit, referencing function, DeclRefExpr)]  (address taken, not called)
        for un in P.unit_names:
            u = P.unit(un)
            for fname, fd in u.functions.items():
                self.defs.setdefault(fname, []).append((u, fd))
                e = self.edges.setdefault(fname, set())
                called_refs = set()
                for n in fd.walk():
                    if n.kind == 'CallExpr':
                        c = n.callee()
                        if c:
                            e.add(c)
                            self.sites.setdefault(c, []).append((u, fname, n))
                            called_refs.add(id(n.inner[0].strip()))
                for n in fd.walk():
                    if n.kind == 'DeclRefExpr' and n.ref_kind == 'FunctionDecl' and id(n) not in called_refs:
                        e.add(n.ref_name)
                        self.refs.setdefault(n.ref_name, []).append((u, fname, n))
            # function addresses in file-scope initialisers (tables of handlers)
            for gname, g in u.globals.items():
                for n in g.walk():
                    if n.kind == 'DeclRefExpr' and n.ref_kind == 'FunctionDecl':
                        self.edges.setdefault('<init:%s>' % gname, set()).add(n.ref_name)

    def reach(self, src):
        """functions (defined or external) transitively referenced from src, with src"""
        seen = {src}
        st = [src]
        while st:
            f = st.pop()
            for g in self.edges.get(f, ()):
                if g not in seen:
                    seen.add(g); st.append(g)
        return seen

    def reaches(self, targets):
        """set of defined functions from which some name in targets is transitively referenced"""
        targets = set(targets)
        rev = {}
        for f, gs in self.edges.items():
            for g in gs:
                rev.setdefault(g, set()).add(f)
        seen = set()
        st = [t for t in targets]
        while st:
            g = st.pop()
            for f in rev.get(g, ()):
                if f not in seen:
                    seen.add(f); st.append(f)
        return seen

    def path(self, src, dst):
        """one call path src -> ... -> dst (list of names) or None"""
        prev = {src: None}
        q = [src]
        while q:
            f = q.pop(0)
            if f == dst:
                out = []
                while f is not None:
                    out.append(f); f = prev[f]
                return out[::-1]
            for g in sorted(self.edges.get(f, ())):
                if g not in prev:
                    prev[g] = f; q.append(g)
        return None

    def witness(self, dst, src='main'):
        p = self.path(src, dst)
        return ' -> '.join(p) if p else '(not reachable from %s)' % src


# ---------------------------------------------------- structural position of a call ---
def unconditional_in(node, body):
    """True when `node` is evaluated on every execution of the compound statement
    `body` that reaches the top-level statement containing it (no enclosing branch,
    loop body, switch, ?: arm or short-circuit right operand). Returns
    (flag, top-level statement)."""
    child = node
    p = node.parent
    while p is not None and p is not body:
        k = p.kind
        if k == 'IfStmt':
            if child is not p.inner[0]:
                return False, None
        elif k in ('WhileStmt', 'SwitchStmt'):
            if child is not p.inner[0]:
                return False, None
        elif k in ('ForStmt', 'DoStmt', 'CaseStmt', 'DefaultStmt', 'LabelStmt'):
            # for-init is unconditional, but keep it simple: do not accept loops
            return False, None
        elif k == 'ConditionalOperator':
            if child is not p.inner[0]:
                return False, None
        elif k == 'BinaryOperator' and p.opcode in ('&&', '||'):
            if child is not p.inner[0]:
                return False, None
        elif k == 'StmtExpr' or k == 'CompoundStmt':
            pass
        child = p
        p = p.parent
    if p is None:
        return False, None
    return True, child


def has_early_exit(stmt):
    """a return statement anywhere inside stmt"""
    return any(n.kind == 'ReturnStmt' for n in stmt.walk())


# ----------------------------------------------------------------- process model ---
# wait statuses as the kernel encodes them (Linux/glibc: low 7 bits = terminating signal,
# bit 7 = core flag, bits 8..15 = exit code)
STATUSES = [
    ('child-success', 0),
    ('child-exit-code', 1 << 8),
    ('child-exit-code', 255 << 8),
    ('child-exit-code', 127 << 8),
    ('child-killed-by-signal', 9),
    ('child-killed-by-signal', 11 | 0x80),
    ('child-killed-by-signal', 15),
]
EXEC_FNS = ('execvp', 'execv', 'execve', 'execvpe', 'execl', 'execlp', 'execle', 'fexecve')
FORK_FNS = ('fork', 'vfork')
# process creation without a child-side path in this program.  Each family reports "no process was started" in its
# own way: fork -1; posix_spawn* a POSITIVE errno value (never -1, errno is not set; glibc >= 2.24 reports a failed exec of
# the child the same way, POSIX also allows a child that exits with 127); system -1, otherwise the wait status itself
SPAWN_FNS = ('posix_spawn', 'posix_spawnp')
SYSTEM_FNS = ('system',)
LAUNCH_FNS = FORK_FNS + SPAWN_FNS + SYSTEM_FNS
LAUNCH_KIND = dict([(f, 'fork') for f in FORK_FNS] + [(f, 'spawn') for f in SPAWN_FNS] + [(f, 'system') for f in SYSTEM_FNS])
LAUNCH_UNMODELLED = ('popen', 'clone', 'clone3', 'forkpty', 'daemon')
SPAWN_ERRNOS = (('ENOENT', 2), ('EAGAIN', 11))     # program not found (exec-time failure) / no process could be created
# name -> (index of the status pointer, index of the options argument or None)
WAIT_FNS = {'wait': (0, None), 'waitpid': (1, 2), 'wait3': (0, 1), 'wait4': (1, 2)}
WAIT_UNMODELLED = ()
# waitid(idtype, id, siginfo_t *, options) reports through si_code / si_status instead of an encoded status word.
# Enumerators and macros of <sys/wait.h> / <signal.h> (Linux/glibc values); siginfo_t as glibc lays it out
# (si_status is _sifields._sigchld.si_status)
SYS_ENUMERATORS = {'P_ALL': 0, 'P_PID': 1, 'P_PGID': 2, 'P_PIDFD': 3,
                   'CLD_EXITED': 1, 'CLD_KILLED': 2, 'CLD_DUMPED': 3, 'CLD_TRAPPED': 4, 'CLD_STOPPED': 5, 'CLD_CONTINUED': 6}
WNOHANG, WEXITED, WNOWAIT = 1, 4, 0x01000000
SIGCHLD = 17
HARD_EXIT = ('_exit', '_Exit', 'abort', 'quick_exit', '__builtin_trap')      # terminate without running atexit handlers
# a process that sends ITSELF a signal whose disposition is the default action "terminate" ends like a hard exit:
# no atexit handler runs.  name -> (index of the target argument or None = always the calling process, index of the signal)
SELF_SIGNAL_FNS = {'raise': (None, 0), 'gsignal': (None, 0), 'pthread_kill': (None, 1),
                   'kill': (0, 1), 'sigqueue': (0, 1), 'killpg': (0, 1), 'tgkill': (0, 2)}
# signal(2)-style disposition setters: name -> (signal index, handler index); sigaction takes a struct
SIGNAL_SET_FNS = {'signal': (0, 1), 'bsd_signal': (0, 1), 'sysv_signal': (0, 1), '__sysv_signal': (0, 1), 'sigset': (0, 1)}
SIGACTION_FNS = ('sigaction',)
DISPOSITION_UNMODELLED = ('sigvec', 'sigignore', 'signalfd', 'sigblock', 'sigsetmask', 'sigprocmask', 'pthread_sigmask', 'sighold')
# Linux signal numbers whose default action does not terminate the process (ignore / continue / stop)
SIG_DEFAULT_HARMLESS = {17: 'SIGCHLD', 18: 'SIGCONT', 23: 'SIGURG', 28: 'SIGWINCH', 19: 'SIGSTOP', 20: 'SIGTSTP', 21: 'SIGTTIN', 22: 'SIGTTOU'}
SIG_UNBLOCKABLE = (9, 19)
SELF_PID, PGRP = 1000, 999          # pid of the driver (parent side), process group shared by driver and children
SOFT_EXIT = ('exit',)
ERROR_FNS = ('error', 'error_at', 'error_tok')              # R14.7: end in exit(1)
PID = 4242
OTHER_PID = 4141        # a child the driver did not start itself (inherited through exec from a wrapper that forked a helper)
EINTR, ECHILD = 4, 10   # Linux errno values a wait for an existing child can fail with


class ErrnoPlace:
    """`errno` (= *__errno_location()) of the process a path describes: one cell per path, kept in the process state"""
    __slots__ = ()

    def get(self, it):
        st = proc_state(it.ctx)
        if 'errno' not in st:
            st['errno'] = Sym('g:errno', 'int')
        return st['errno']

    def set(self, it, v):
        proc_state(it.ctx)['errno'] = v


def is_uninit(v):
    return isinstance(v, Sym) and v.name.startswith('uninit:')


def _keys_mention_uninit(ctx):
    def m(k):
        if isinstance(k, tuple):
            return any(m(x) for x in k)
        return isinstance(k, str) and k.startswith('uninit:')
    for d in (ctx.facts, ctx.bounds, ctx.neq):
        for k in d:
            if m(k):
                return True
    return False


def uninit_read(ctx, out):
    """did this path branch on (or terminate with) a value that was never written?"""
    if _keys_mention_uninit(ctx):
        return True
    if out[0] == 'noreturn':
        return any(is_uninit(a) for a in out[2])
    return False


def proc_state(ctx):
    if not hasattr(ctx, 'proc'):
        ctx.proc = {'role': 'no-fork', 'children': 0, 'status': None, 'waits': 0, 'forks': 0, 'entered': [], 'stack': [], 'ann': {}}
    return ctx.proc


def make_interp(P, unit, opaque=(), extra_models=None, loop_limit=1, globals_=None, noreturn_extra=(), inline_other_units=False, inherited_child=False,
                wait_failures=False):
    """Engine I configured with the process model. Scalar locals without initializer
    become the symbol `uninit:<name>` so that a read of a never-written variable is visible
    in the path facts instead of aborting the analysis.

    inherited_child: the process may own one child it did not start itself (a process keeps its children across exec: a
    wrapper that forks a helper and then execs the driver).  A wait for ANY child (wait, wait3, waitpid/wait4 with pid
    -1 / 0 / -pgrp, waitid P_ALL / P_PGID) then returns either child, in either order; the other child exits with
    status 0.  `children` / `status` of the process state keep describing the child the path started itself.

    wait_failures: a wait for a child that exists can FAIL, and the environment decides: (a) a signal that is caught
    interrupts the call - -1/EINTR, the child is still there (explored at most once per path); (b) the process was started with SIGCHLD ignored (SIG_IGN survives exec: nohup-like wrappers, daemons) and no
    code of the program sets the disposition back - the kernel then reaps the child itself, the wait blocks until the child
    is gone and fails with -1/ECHILD without writing a status.  `wait_failures` may be a callable (state) -> bool saying
    whether (b) is possible (False when the program resets SIGCHLD); st['wait_failed'] records 'EINTR' / 'ECHILD'."""
    def set_errno(ctx, v):
        proc_state(ctx)['errno'] = v

    def env_wait_failure(it, ctx, n, name):
        """None, or -1 after having set errno: failure of a wait for an existing own child that the environment decides"""
        st = proc_state(ctx)
        if not wait_failures or st['role'] != 'parent' or st['children'] <= 0:
            return None
        if st.get('env_sigchld') is None:
            may = wait_failures(st) if callable(wait_failures) else True
            explicit = st.get('disp', {}).get(SIGCHLD) is not None or st.get('disp_all', 'dfl') != 'dfl'
            st['env_sigchld'] = 'dfl'
            if may and not explicit and ctx.choose(2, 'SIGCHLD at program start') == 1:
                st['env_sigchld'] = 'ign'
                ctx.note('the driver was started with SIGCHLD ignored (the disposition survives exec)')
        if st['env_sigchld'] == 'ign' and st.get('disp', {}).get(SIGCHLD) is None:
            st['children'] = 0
            st['others'] = 0
            st['sigchld_ignored'] = 'inherited'
            st['wait_failed'] = 'ECHILD'
            set_errno(ctx, ECHILD)
            ctx.note('%s()=-1 errno=ECHILD [SIGCHLD is ignored: the kernel reaped the child, no status is delivered]' % name)
            return -1
        if not st.get('eintr') and ctx.choose(2, '%s interrupted' % name) == 1:
            st['eintr'] = 1
            st['wait_failed'] = 'EINTR'
            set_errno(ctx, EINTR)
            ctx.note('%s()=-1 errno=EINTR [interrupted by a signal; the child is still running]' % name)
            return -1
        return None

    def m_errno_location(it, ctx, n, args):
        return _Ref(ErrnoPlace())

    def wait_target(it, ctx, n, name, args):
        """'own' | 'any' | 'unknown': which children a wait call can return"""
        if name in ('wait', 'wait3'):
            return 'any'
        if name == 'waitid':
            idt = args[0] if args else None
            pid = args[1] if len(args) > 1 else None
            if isinstance(idt, int) and not isinstance(idt, bool):
                if idt in (0, 2):
                    return 'any'
                if idt == 1 and isinstance(pid, int) and not isinstance(pid, bool) and pid == PID:
                    return 'own'
            return 'unknown'
        t = args[0] if args else None
        if isinstance(t, int) and not isinstance(t, bool):
            if t == PID:
                return 'own'
            if t in (-1, 0, -PGRP):
                return 'any'
        return 'unknown'

    def pick_child(it, ctx, n, name, args):
        """which child a successful wait returns: 'own' | 'other' | None (no child to return)"""
        st = proc_state(ctx)
        own = st['children']
        if not inherited_child or st['role'] != 'parent':
            return 'own' if own > 0 else None
        tgt = wait_target(it, ctx, n, name, args)
        if tgt == 'unknown':
            raise AnalysisBroken('%s: cannot tell which child is waited for (%s:%d)' % (name, it.unit.name, n.line))
        if tgt == 'own':
            return 'own' if own > 0 else None
        if st.get('others') is None:
            st['others'] = ctx.choose(2, 'inherited child')
            st['inherited'] = st['others']
            ctx.note('the process owns %s' % ('no other child' if st['others'] == 0 else 'one child it did not start (inherited through exec)'))
        oth = st['others']
        if own > 0 and oth > 0:
            return 'own' if ctx.choose(2, 'which child exits first') == 0 else 'other'
        if own > 0:
            return 'own'
        return 'other' if oth > 0 else None

    def m_fork(it, ctx, n, args):
        st = proc_state(ctx)
        if st['role'] == 'child' or st['forks'] >= 1:
            raise AnalysisBroken('fork() is reached twice on one path (%s:%d): process tree not modelled' % (it.unit.name, n.line))
        st['forks'] += 1
        i = ctx.choose(3, 'fork')
        if i == 0:
            st['role'] = 'child'; ctx.note('fork()=0 [child]'); return 0
        if i == 1:
            st['role'] = 'parent'; st['children'] += 1; ctx.note('fork()>0 [parent]'); return PID
        st['role'] = 'fork-failed'; ctx.note('fork()=-1 [failed]'); return -1

    def m_wait(it, ctx, n, args):
        st = proc_state(ctx)
        name = n.callee()
        idx, oidx = WAIT_FNS[name]
        st['waits'] += 1
        if st['children'] <= 0 and not st.get('others'):
            ctx.note('%s()=-1 [no child]' % name)
            set_errno(ctx, ECHILD)
            return -1
        r = env_wait_failure(it, ctx, n, name)
        if r is not None:
            return r
        if st.get('disp', {}).get(SIGCHLD) == 'ign' or st.get('disp_all', 'dfl') != 'dfl':
            if st.get('disp', {}).get(SIGCHLD) != 'ign':
                raise AnalysisBroken('%s with an unknown SIGCHLD disposition (%s:%d)' % (name, it.unit.name, n.line))
            # SIGCHLD ignored: children are reaped by the kernel, wait blocks until all are gone and fails with ECHILD
            st['children'] = 0
            st['others'] = 0
            st['sigchld_ignored'] = True
            set_errno(ctx, ECHILD)
            ctx.note('%s()=-1 [SIGCHLD is ignored: no status is delivered]' % name)
            return -1
        who = pick_child(it, ctx, n, name, args)
        if who is None:
            ctx.note('%s()=-1 [no such child]' % name)
            return -1
        if who == 'other':
            # the child this path did not start: exited with status 0
            st['others'] -= 1
            st['others_reaped'] = st.get('others_reaped', 0) + 1
            ctx.note('%s()=%d: status=0 [a child the driver did not start]' % (name, OTHER_PID))
            p = args[idx] if idx < len(args) else 0
            if isinstance(p, _Ref):
                p.place.set(it, 0)
            elif not (isinstance(p, int) and p == 0):
                raise AnalysisBroken('%s: status pointer %r not understood (%s:%d)' % (name, p, it.unit.name, n.line))
            return OTHER_PID
        if oidx is not None:
            opts = args[oidx] if len(args) > oidx else 0
            if not isinstance(opts, int):
                raise AnalysisBroken('%s options %r not understood (%s:%d)' % (name, opts, it.unit.name, n.line))
            if opts & 1:    # WNOHANG: the child may still be running
                if ctx.choose(2, '%s WNOHANG' % name) == 1:
                    ctx.note('%s(WNOHANG)=0 [child still running]' % name)
                    return 0
        st['children'] -= 1
        i = ctx.choose(len(STATUSES), 'wait status')
        cls, val = STATUSES[i]
        st['status'] = (cls, val)
        ctx.note('%s(): status=%#x [%s]' % (name, val, cls))
        p = args[idx] if idx < len(args) else 0
        if isinstance(p, _Ref):
            p.place.set(it, val)
        elif isinstance(p, int) and p == 0:
            st['status_dropped'] = True
        else:
            raise AnalysisBroken('%s: status pointer %r not understood (%s:%d)' % (name, p, it.unit.name, n.line))
        return PID

    def m_waitid(it, ctx, n, args):
        st = proc_state(ctx)
        st['waits'] += 1
        opts = args[3] if len(args) > 3 else None
        if not isinstance(opts, int) or isinstance(opts, bool) or not (opts & WEXITED) or (opts & ~(WNOHANG | WEXITED | WNOWAIT)):
            raise AnalysisBroken('waitid options %r not understood (%s:%d)' % (opts, it.unit.name, n.line))
        if st['children'] <= 0 and not st.get('others'):
            ctx.note('waitid()=-1 [no child]')
            set_errno(ctx, ECHILD)
            return -1
        r = env_wait_failure(it, ctx, n, 'waitid')
        if r is not None:
            return r
        who = pick_child(it, ctx, n, 'waitid', args)
        if who is None:
            ctx.note('waitid()=-1 [no such child]')
            return -1
        p = args[2] if len(args) > 2 else 0
        info = p if isinstance(p, Obj) else None
        if info is None and not (isinstance(p, int) and p == 0):
            raise AnalysisBroken('waitid: siginfo pointer %r not understood (%s:%d)' % (p, it.unit.name, n.line))
        chld = None
        if info is not None:
            sif = info.fields.get('_sifields')
            chld = sif.fields.get('_sigchld') if isinstance(sif, Obj) else None
            if not isinstance(chld, Obj):
                raise AnalysisBroken('waitid: siginfo object %r not understood (%s:%d)' % (p, it.unit.name, n.line))
        if who == 'other':
            if opts & WNOWAIT:
                raise AnalysisBroken('waitid(WNOWAIT) in a process with several children is not modelled (%s:%d)' % (it.unit.name, n.line))
            st['others'] -= 1
            st['others_reaped'] = st.get('others_reaped', 0) + 1
            ctx.note('waitid(): si_pid=%d si_code=1 si_status=0 [a child the driver did not start]' % OTHER_PID)
            if info is not None:
                info.fields.update({'si_signo': SIGCHLD, 'si_errno': 0, 'si_code': 1})
                chld.fields.update({'si_pid': OTHER_PID, 'si_uid': 0, 'si_status': 0})
            return 0
        if opts & WNOHANG and ctx.choose(2, 'waitid WNOHANG') == 1:
            ctx.note('waitid(WNOHANG)=0 [child still running]')
            if info is not None:
                info.fields['si_signo'] = 0; chld.fields['si_pid'] = 0
            return 0
        if not (opts & WNOWAIT):
            st['children'] -= 1
        i = ctx.choose(len(STATUSES), 'wait status')
        cls, val = STATUSES[i]
        st['status'] = (cls, val)
        if val & 0x7f:
            code, sval = (3 if val & 0x80 else 2), val & 0x7f
        else:
            code, sval = 1, (val >> 8) & 0xff
        ctx.note('waitid(): si_code=%d si_status=%d [%s]' % (code, sval, cls))
        if info is None:
            st['status_dropped'] = True
        else:
            info.fields.update({'si_signo': SIGCHLD, 'si_errno': 0, 'si_code': code})
            chld.fields.update({'si_pid': PID, 'si_uid': 0, 'si_status': sval})
        return 0

    def m_spawn(it, ctx, n, args):
        st = proc_state(ctx)
        name = n.callee()
        if st['role'] == 'child' or st['forks'] >= 1:
            raise AnalysisBroken('%s() is reached after another process creation on one path (%s:%d): process tree not modelled' % (name, it.unit.name, n.line))
        st['forks'] += 1
        i = ctx.choose(1 + len(SPAWN_ERRNOS), name)
        if i == 0:
            st['role'] = 'parent'; st['children'] += 1
            ctx.note('%s()=0 [child started]' % name)
            p = args[0] if args else 0
            if isinstance(p, _Ref):
                p.place.set(it, PID)
            return 0
        ename, eno = SPAWN_ERRNOS[i - 1]
        st['role'] = 'spawn-failed'; st['launch_error'] = ename; st['launch_api'] = name
        ctx.note('%s()=%d [%s, no child; pid not written]' % (name, eno, ename))
        return eno

    def m_system(it, ctx, n, args):
        st = proc_state(ctx)
        if st['role'] == 'child' or st['forks'] >= 1:
            raise AnalysisBroken('system() is reached after another process creation on one path (%s:%d): process tree not modelled' % (it.unit.name, n.line))
        st['forks'] += 1
        i = ctx.choose(1 + len(STATUSES), 'system')
        if i == 0:
            st['role'] = 'fork-failed'; ctx.note('system()=-1 [no child]'); return -1
        cls, val = STATUSES[i - 1]
        st['role'] = 'parent'; st['status'] = (cls, val)
        ctx.note('system(): status=%#x [%s]' % (val, cls))
        return val

    def m_exec(it, ctx, n, args):
        st = proc_state(ctx)
        i = ctx.choose(2, 'exec')
        if i == 0:
            ctx.note('%s succeeds' % n.callee())
            raise NoReturn(n.callee(), args, n.line)
        ctx.note('%s fails' % n.callee())
        return -1

    # ---- signals: dispositions set on the path, and signals a process sends (to itself, its group, its child, its parent)
    def own_pid(st):
        return PID if st['role'] == 'child' else SELF_PID

    def m_getpid(it, ctx, n, args):
        return own_pid(proc_state(ctx))

    def m_getppid(it, ctx, n, args):
        st = proc_state(ctx)
        return SELF_PID if st['role'] == 'child' else Sym('g:ppid-of-driver', 'int')

    def m_getpgrp(it, ctx, n, args):
        return PGRP

    def _handler_kind(h):
        if isinstance(h, bool):
            return 'unknown'
        if isinstance(h, int):
            return 'dfl' if h == 0 else ('ign' if h == 1 else 'unknown')
        if isinstance(h, _FnRef):
            return ('fn', h.name)
        return 'unknown'

    def m_signal(it, ctx, n, args):
        st = proc_state(ctx)
        sidx, hidx = SIGNAL_SET_FNS[n.callee()]
        sig = args[sidx] if len(args) > sidx else None
        h = _handler_kind(args[hidx]) if len(args) > hidx else 'unknown'
        st.setdefault('sig_sites_done', set()).add((it.unit.name, n.line))
        if isinstance(sig, int) and not isinstance(sig, bool):
            st.setdefault('disp', {})[sig] = h
            ctx.note('%s(%d, %s)' % (n.callee(), sig, h if isinstance(h, str) else h[1]))
        elif h == 'dfl':
            # some signal is reset to its default action: what this path set explicitly may or may not be undone
            d = st.setdefault('disp', {})
            for k in list(d):
                if d[k] != 'dfl':
                    d[k] = 'unknown'
        else:
            st['disp_all'] = 'unknown'
            st['disp'] = {}
        return _opaque_call(it, ctx, n, args)

    def m_sigaction(it, ctx, n, args):
        st = proc_state(ctx)
        sig = args[0] if args else None
        act = args[1] if len(args) > 1 else None
        st.setdefault('sig_sites_done', set()).add((it.unit.name, n.line))
        if isinstance(act, int) and not isinstance(act, bool) and act == 0:
            return _opaque_call(it, ctx, n, args)       # query only
        h = 'unknown'
        if isinstance(act, Obj):
            try:
                hu = act.fields.get('__sigaction_handler')
                hv = hu.fields.get('sa_handler') if isinstance(hu, Obj) else None
                fl = act.fields.get('sa_flags')
                if hv is not None and isinstance(fl, int) and not (fl & 0x80000000):    # SA_RESETHAND changes the disposition later
                    h = _handler_kind(hv)
            except Exception:
                h = 'unknown'
        if isinstance(sig, int) and not isinstance(sig, bool):
            st.setdefault('disp', {})[sig] = h
        else:
            st['disp_all'] = 'unknown'
            st['disp'] = {}
        return _opaque_call(it, ctx, n, args)

    def m_selfsig(it, ctx, n, args):
        """raise / kill / killpg / ...: who receives the signal, and what it does to the receiver"""
        st = proc_state(ctx)
        name = n.callee()
        tidx, sidx = SELF_SIGNAL_FNS[name]
        sig = args[sidx] if len(args) > sidx else None
        role = st['role']
        driver = role != 'child'

        def undecided(why):
            st.setdefault('sig_undecided', []).append((name, n.line, why))
            ctx.note('%s(): %s' % (name, why))
            return _opaque_call(it, ctx, n, args)
        # ---- receivers
        if tidx is None:
            hit = 'self'
        else:
            t = args[tidx] if len(args) > tidx else None
            if not isinstance(t, int) or isinstance(t, bool):
                return undecided('target process %r is not a known process id' % (t,))
            if name == 'killpg':
                t = -t if t > 1 else (0 if t == 0 else None)
                if t is None:
                    return undecided('process group 1/negative not understood')
            if t == own_pid(st):
                hit = 'self'
            elif t in (0, -1, -PGRP):
                hit = 'group'
            elif driver and t == PID:
                hit = 'child' if st['children'] > 0 else 'nobody'
            elif not driver and t == SELF_PID:
                hit = 'parent'
            else:
                return undecided('target process %d is not a known process id' % t)
        if not isinstance(sig, int) or isinstance(sig, bool):
            return undecided('signal number %r is not concrete on this path' % (sig,))
        if sig == 0 or hit in ('child', 'nobody'):
            ctx.emit('call', name, args, n.line, 0)
            return 0
        # ---- disposition in the receiving process(es): what this path set, else what the program start left (default),
        # unless some other reachable code may have installed something for this signal
        disp = st.get('disp', {}).get(sig)
        if disp is None and st.get('disp_all', 'dfl') != 'dfl':
            disp = 'unknown'
        if disp is None:
            may = getattr(it, 'sig_may_install', None)
            if may is not None and may(sig, st.get('sig_sites_done', ())):
                disp = 'unknown'
            else:
                disp = 'dfl'
        if sig in SIG_UNBLOCKABLE:
            disp = 'dfl'
        if disp == 'unknown':
            return undecided('the disposition of signal %d at this point is not known' % sig)
        if disp == 'ign':
            ctx.emit('call', name, args, n.line, 0)
            return 0
        if isinstance(disp, tuple):
            # a handler function runs in the receiver (child and parent share the dispositions set before fork)
            u2, fn = it.find_def(disp[1])
            if fn is None:
                return undecided('handler %s of signal %d is not defined in this unit' % (disp[1], sig))
            if hit == 'parent':
                return undecided('handler %s runs in the driver asynchronously' % disp[1])
            ctx.note('%s(%d): handler %s runs' % (name, sig, disp[1]))
            it.call_fn(u2, fn, [sig])
            return 0
        # default action
        if sig in SIG_DEFAULT_HARMLESS:
            ctx.note('%s(%d): default action does not terminate' % (name, sig))
            ctx.emit('call', name, args, n.line, 0)
            return 0
        if not driver and hit in ('parent', 'group'):
            st['child_signals_driver'] = (name, sig, n.line)
            ctx.note('%s(%d) from the child terminates the driver' % (name, sig))
            if hit == 'parent':
                ctx.emit('call', name, args, n.line, 0)
                return 0
        st['killed_by'] = sig
        ctx.note('%s(%d): default action terminates the calling process, no exit handler runs' % (name, sig))
        raise NoReturn(name, args, n.line)

    def m_calloc(it, ctx, n, args):
        return Arr([], label=ctx.fresh('calloc'))

    def m_nop(it, ctx, n, args):
        ctx.emit('call', n.callee(), args, n.line, None)
        return None

    models = {}
    for f in FORK_FNS:
        models[f] = m_fork
    for f in WAIT_FNS:
        models[f] = m_wait
    for f in EXEC_FNS:
        models[f] = m_exec
    models['waitid'] = m_waitid
    for f in SPAWN_FNS:
        models[f] = m_spawn
    for f in SYSTEM_FNS:
        models[f] = m_system
    for f in SELF_SIGNAL_FNS:
        models[f] = m_selfsig
    for f in SIGNAL_SET_FNS:
        models[f] = m_signal
    for f in SIGACTION_FNS:
        models[f] = m_sigaction
    models['__errno_location'] = m_errno_location
    models['getpid'] = m_getpid
    models['getppid'] = m_getppid
    models['getpgrp'] = m_getpgrp
    models['calloc'] = m_calloc
    models['malloc'] = m_calloc
    models['memcpy'] = m_nop
    if extra_models:
        models.update(extra_models)
    from .interp import NORETURN
    nr = set(NORETURN) | set(HARD_EXIT) | set(SOFT_EXIT) | set(ERROR_FNS) | set(noreturn_extra)
    cfg = {'opaque': list(opaque), 'models': models, 'loop_limit': loop_limit, 'noreturn': nr,
           'inline_other_units': inline_other_units}
    if globals_:
        cfg['globals'] = globals_
    it = Interp(P, unit, cfg)
    orig_default = it.default_value

    def default_value(t, name, zero=False):
        v = orig_default(t, name, zero)
        if v is _UNINIT or (isinstance(v, int) and not isinstance(v, bool) and v == 0):
            tt = (t or '').replace('struct ', '').strip()
            if tt in ('siginfo_t', 'siginfo') and tt not in unit.records:
                def f(x):
                    return 0 if zero else Sym('uninit:%s.%s' % (name, x), 'int')
                chld = Obj(None, lazy=False, fields=dict((x, f(x)) for x in ('si_pid', 'si_uid', 'si_status')))
                return Obj(None, lazy=False, label=name,
                           fields={'si_signo': f('si_signo'), 'si_errno': f('si_errno'), 'si_code': f('si_code'),
                                   '_sifields': Obj(None, lazy=False, fields={'_sigchld': chld})})
            if tt == 'sigaction' and tt not in unit.records:
                return _sigaction_obj(name, zero)
        if v is _UNINIT:
            return Sym('uninit:%s' % name, t)
        return v
    it.default_value = default_value

    def _sigaction_obj(name, zero):
        # struct sigaction as glibc lays it out (sa_handler / sa_sigaction are members of the union __sigaction_handler)
        def f(x):
            return 0 if zero else Sym('uninit:%s.%s' % (name, x), 'int')
        return Obj(None, lazy=False, label=name,
                   fields={'__sigaction_handler': Obj(None, lazy=False, fields={'sa_handler': f('sa_handler')}),
                           'sa_mask': Obj(None, lazy=True), 'sa_flags': f('sa_flags'), 'sa_restorer': f('sa_restorer')})
    orig_initlist = it.eval_initlist

    def eval_initlist(n, env):
        t = (n.dtype or n.type or '').replace('struct ', '').replace('const ', '').strip()
        if t == 'sigaction' and t not in unit.records:
            # `= {0}` / `= {}`: an all-zero object
            def zero_init(c):
                if c.kind == 'ImplicitValueInitExpr':
                    return True
                if c.kind == 'InitListExpr':
                    return all(zero_init(k) for k in c.inner)
                try:
                    return c.strip_all().int_value() == 0
                except Exception:
                    return False
            if all(zero_init(c) for c in n.inner):
                return _sigaction_obj('sigaction', True)
        return orig_initlist(n, env)
    it.eval_initlist = eval_initlist
    orig_declref = it.e_DeclRefExpr

    def e_DeclRefExpr(n, env):
        # enumerators of system headers are not part of the unit's tables
        if n.ref_kind == 'EnumConstantDecl' and n.ref_name in SYS_ENUMERATORS and it.unit.enum_value(n.ref_name) is None:
            return SYS_ENUMERATORS[n.ref_name]
        return orig_declref(n, env)
    it.e_DeclRefExpr = e_DeclRefExpr
    orig_call = it.call_fn

    def call_fn(unit_, fn, args):
        st = proc_state(it.ctx)
        st['entered'].append((fn.name, st['role']))
        return orig_call(unit_, fn, args)
    it.call_fn = call_fn
    orig_callexpr = it.e_CallExpr

    def e_CallExpr(n, env):
        ctx = it.ctx
        st = proc_state(ctx)
        st['stack'].append((n.callee(), n.line))
        k = len(ctx.events)
        try:
            return orig_callexpr(n, env)
        finally:
            st['stack'].pop()
            for i in range(k, len(ctx.events)):
                if i not in st['ann']:
                    st['ann'][i] = list(st['stack'])
    it.e_CallExpr = e_CallExpr
    if inherited_child:
        # a loop whose condition reaps children makes one more decided iteration per child the process owns: do not let the
        # iteration bound of generic loops cut the schedules with the inherited child off
        waits = set(WAIT_FNS) | {'waitid'}

        def reaps(e):
            return e is not None and any(c.kind == 'CallExpr' and c.callee() in waits for c in e.walk())
        orig_loop, orig_do = it.exec_loop, it.exec_do

        def exec_loop(s, a, cond, inc, body, env):
            old = it.loop_limit
            if reaps(cond):
                it.loop_limit = old + 1
            try:
                return orig_loop(s, a, cond, inc, body, env)
            finally:
                it.loop_limit = old

        def exec_do(s, env):
            old = it.loop_limit
            if len(s.inner) > 1 and (reaps(s.inner[1]) or reaps(s.inner[0])):
                it.loop_limit = old + 1
            try:
                return orig_do(s, env)
            finally:
                it.loop_limit = old
        it.exec_loop = exec_loop
        it.exec_do = exec_do
    return it


def outer_site(ctx, ev):
    """(callee, line) of the outermost call in the explored function through which event ev was reached, or None"""
    st = proc_state(ctx)
    for i, e in enumerate(ctx.events):
        if e is ev:
            fr = st['ann'].get(i)
            return fr[0] if fr else None
    return None


def calls_of(ctx, name=None):
    out = []
    for e in ctx.events:
        if e[0] == 'call' and (name is None or e[1] == name or (not isinstance(name, str) and e[1] in name)):
            out.append(e)
    return out


def same_value(a, b):
    from .interp import vkey
    if a is b:
        return True
    try:
        return vkey(a) == vkey(b) and not isinstance(a, (Obj, Arr))
    except Exception:
        return False


def slice_loops(it, unit, relevant_callees):
    """Loops whose body contains no call of interest (resolved callee in relevant_callees, or an
    indirect call) and no store to a file-scope variable contribute nothing to the event
    sequence of a path: run them for zero generic iterations instead of forking on them.
    Loops with concrete conditions are unaffected."""
    cache = {}

    def relevant(s):
        r = cache.get(s.id)
        if r is not None:
            return r
        r = False
        for n in s.walk():
            if n.kind == 'CallExpr':
                c = n.callee()
                if c is None or c in relevant_callees:
                    r = True; break
            elif n.kind in ('BinaryOperator', 'CompoundAssignOperator', 'UnaryOperator') and \
                    (n.kind == 'CompoundAssignOperator' or n.opcode in ('=', '++', '--')):
                b = n.inner[0].strip()
                while b.kind in ('MemberExpr', 'ArraySubscriptExpr') and b.inner:
                    b = b.inner[0].strip()
                if b.kind == 'DeclRefExpr' and b.ref_kind == 'VarDecl' and b.ref_name in unit.globals and unit.globals[b.ref_name].id == b.ref_id:
                    r = True; break
            elif n.kind == 'ReturnStmt':
                r = True; break
        cache[s.id] = r
        return r
    orig_loop, orig_do, base = it.exec_loop, it.exec_do, it.loop_limit

    def exec_loop(s, a, cond, inc, body, env):
        old = it.loop_limit
        it.loop_limit = base if relevant(s) else 0
        try:
            return orig_loop(s, a, cond, inc, body, env)
        finally:
            it.loop_limit = old

    def exec_do(s, env):
        old = it.loop_limit
        it.loop_limit = base if relevant(s) else 0
        try:
            return orig_do(s, env)
        finally:
            it.loop_limit = old
    it.exec_loop = exec_loop
    it.exec_do = exec_do
    return it


# ------------------------------------------------------------------ C string model ---
# NUL-terminated strings for concrete evaluation of file-name helpers: an immutable python str
# (string literal, configured global) or a pointer `_Ref(ElemPlace(Arr of char codes, i))` into a
# writable buffer (strdup/malloc'd copy).  Every model falls back to an opaque call when an
# argument is not a concrete string, so an unknown shape ends as "name not concrete"
# (undecided), never as a wrong concrete name.
from .interp import ElemPlace


def cstr(v):
    """python str denoted by a char* value, or None when it is not a concrete NUL-terminated string"""
    if isinstance(v, str):
        return v
    arr = i = None
    if isinstance(v, _Ref) and isinstance(v.place, ElemPlace) and isinstance(v.place.arr, Arr) and isinstance(v.place.i, int):
        arr, i = v.place.arr, v.place.i
    elif isinstance(v, Arr):
        arr, i = v, 0
    if arr is None or i < 0:
        return None
    out = []
    for c in arr.elems[i:]:
        if not isinstance(c, int) or isinstance(c, bool):
            return None
        if c == 0:
            return ''.join(out)
        out.append(chr(c & 0xff))
    return None


def cbuf(s, label='buf'):
    """fresh writable copy of s; the value is a pointer to its first char"""
    return _Ref(ElemPlace(Arr([ord(c) for c in s] + [0], label=label), 0))


def _sub(v, off):
    """pointer to v + off (same buffer when v is writable)"""
    if isinstance(v, str):
        return v[off:]
    if isinstance(v, Arr):
        return _Ref(ElemPlace(v, off))
    return _Ref(ElemPlace(v.place.arr, v.place.i + off))


def _opaque_call(it, ctx, n, args):
    t = n.dtype or n.type
    r = None if t == 'void' else it.lazy_value(t, ctx.fresh(n.callee()))
    ctx.emit('call', n.callee(), args, n.line, r)
    return r


def _chr(v):
    return chr(v & 0xff) if isinstance(v, int) and not isinstance(v, bool) else None


def _printf_format(fmt, args):
    """result of a printf-style format restricted to %s %d %c %%, or None"""
    out = []
    i = 0
    k = 0
    while i < len(fmt):
        c = fmt[i]
        if c != '%':
            out.append(c); i += 1; continue
        if i + 1 >= len(fmt):
            return None
        d = fmt[i + 1]
        i += 2
        if d == '%':
            out.append('%'); continue
        if k >= len(args):
            return None
        a = args[k]; k += 1
        if d == 's':
            s = cstr(a)
            if s is None:
                return None
            out.append(s)
        elif d == 'd' and isinstance(a, int):
            out.append(str(a))
        elif d == 'c' and _chr(a) is not None:
            out.append(_chr(a))
        else:
            return None
    return ''.join(out)


def string_models():
    def wrap(f):
        def m(it, ctx, n, args):
            try:
                r = f(args)
            except (IndexError, TypeError):
                r = NotImplemented
            if r is NotImplemented:
                return _opaque_call(it, ctx, n, args)
            return r
        return m

    def need(*vs):
        ss = [cstr(v) for v in vs]
        if any(s is None for s in ss):
            raise TypeError
        return ss

    def m_strdup(a):
        s, = need(a[0]); return cbuf(s, 'strdup')

    def m_strndup(a):
        s, = need(a[0])
        if not isinstance(a[1], int):
            return NotImplemented
        return cbuf(s[:a[1]], 'strndup')

    def m_strlen(a):
        s, = need(a[0]); return len(s)

    def m_strchr(a, last=False):
        s, = need(a[0]); c = _chr(a[1])
        if c is None:
            return NotImplemented
        if c == '\0':
            return _sub(a[0], len(s))
        i = s.rfind(c) if last else s.find(c)
        return 0 if i < 0 else _sub(a[0], i)

    def m_strstr(a):
        s, t = need(a[0], a[1]); i = s.find(t)
        return 0 if i < 0 else _sub(a[0], i)

    def m_basename(a):
        # POSIX basename (libgen.h): trailing slashes removed, "" -> ".", "/" -> "/"
        s, = need(a[0])
        if s == '':
            return '.'
        if s.strip('/') == '':
            return '/'
        t = s.rstrip('/')
        if len(t) != len(s):
            if isinstance(a[0], str):
                return t[t.rfind('/') + 1:]
            arr, i0 = a[0].place.arr, a[0].place.i
            arr.elems[i0 + len(t)] = 0
        return _sub(a[0], t.rfind('/') + 1)

    def m_dirname(a):
        s, = need(a[0])
        t = s.rstrip('/')
        if '/' not in t:
            return '/' if s.startswith('/') else '.'
        d = t[:t.rfind('/')].rstrip('/') or '/'
        return cbuf(d, 'dirname')

    def m_strcmp(a):
        s, t = need(a[0], a[1]); return (s > t) - (s < t)

    def m_strncmp(a):
        s, t = need(a[0], a[1])
        if not isinstance(a[2], int):
            return NotImplemented
        s, t = s[:a[2]], t[:a[2]]
        return (s > t) - (s < t)

    def m_format(a):
        f, = need(a[0]); r = _printf_format(f, a[1:])
        return NotImplemented if r is None else cbuf(r, 'format')

    def m_strcpy(a):
        s, = need(a[1])
        d = a[0]
        if not (isinstance(d, _Ref) and isinstance(d.place, ElemPlace) and isinstance(d.place.arr, Arr) and isinstance(d.place.i, int)):
            return NotImplemented
        for k, c in enumerate(s + '\0'):
            ElemPlace(d.place.arr, d.place.i + k).set(None, ord(c))
        return d

    def m_strcat(a):
        s, = need(a[0])
        return m_strcpy([_sub(a[0], len(s)), a[1]]) is NotImplemented and NotImplemented or a[0]

    def m_strtok(it, ctx, n, args):
        # ISO C strtok over a writable buffer; the saved position is part of the process state of the path
        st = proc_state(ctx)
        try:
            delim, = need(args[1])
            p = args[0]
            if isinstance(p, int) and not isinstance(p, bool) and p == 0:
                p = st.get('strtok')
                if p is None:
                    return _opaque_call(it, ctx, n, args)
                if p == 0:
                    return 0
            if not (isinstance(p, _Ref) and isinstance(p.place, ElemPlace) and isinstance(p.place.arr, Arr) and isinstance(p.place.i, int)):
                return _opaque_call(it, ctx, n, args)
            s, = need(p)
        except (IndexError, TypeError):
            return _opaque_call(it, ctx, n, args)
        arr, i0 = p.place.arr, p.place.i
        k = 0
        while k < len(s) and s[k] in delim:
            k += 1
        if k == len(s):
            st['strtok'] = 0
            return 0
        e = k
        while e < len(s) and s[e] not in delim:
            e += 1
        if e < len(s):
            arr.elems[i0 + e] = 0
            st['strtok'] = _Ref(ElemPlace(arr, i0 + e + 1))
        else:
            st['strtok'] = 0
        return _Ref(ElemPlace(arr, i0 + k))

    return {'strtok': m_strtok,
            'strdup': wrap(m_strdup), 'strndup': wrap(m_strndup), 'strlen': wrap(m_strlen),
            'strchr': wrap(m_strchr), 'strrchr': wrap(lambda a: m_strchr(a, True)), 'strstr': wrap(m_strstr),
            'basename': wrap(m_basename), '__xpg_basename': wrap(m_basename), 'dirname': wrap(m_dirname),
            'strcmp': wrap(m_strcmp), 'strncmp': wrap(m_strncmp), 'format': wrap(m_format),
            'strcpy': wrap(m_strcpy), 'strcat': wrap(m_strcat)}


STRING_FNS = tuple(sorted(string_models()))


# ------------------------------------------------------------------ stdio stream model ---
# A FILE as ISO C describes it, as far as failures go: an end-of-file flag, an error flag, data that may still sit in the
# buffer of an output stream.  What the ENVIRONMENT decides is forked: every read delivers data, ends the file or fails (with a
# zero or - fread - a short count); the flush of buffered output (fflush, else the one inside fclose) succeeds or fails; a write
# that happened before the stream is first examined may have failed already (error flag set, later flushes succeed).  What the
# PROGRAM can observe is then deterministic: ferror/feof give the flags, a read after end/error gives "no data".
# State: proc_state(ctx)['streams'][id(stream value)] = record; proc_state(ctx)['stream_log'] = list of records in creation order.
READ_RESULT = {  # name -> (index of the stream argument, kind)
    'fread': (3, 'count'), 'fread_unlocked': (3, 'count'), 'fgets': (2, 'buffer'), 'fgets_unlocked': (2, 'buffer'),
    'fgetc': (0, 'char'), 'getc': (0, 'char'), 'getc_unlocked': (0, 'char'), 'fgetc_unlocked': (0, 'char'),
    'getline': (2, 'length'), 'getdelim': (3, 'length')}
STD_STREAMS = {'stdin': 'r', 'stdout': 'w', 'stderr': 'w'}


def std_stream_globals():
    return dict((nm, (lambda n_: (lambda ctx: Obj(None, lazy=True, label='g:' + n_)))(nm)) for nm in STD_STREAMS)


def streams_of(ctx):
    return proc_state(ctx).setdefault('stream_log', [])


def stream_models(data_reads=2, open_fails=True):
    def table(ctx):
        return proc_state(ctx).setdefault('streams', {})

    def new_rec(ctx, v, kind, origin, line=None):
        rec = {'kind': kind, 'origin': origin, 'err': False, 'eof': False, 'reads': 0, 'dirty': kind == 'w', 'closed': False,
               'early': None, 'wfail': None, 'rfail': None, 'value': v, 'line': line, 'event': None, 'std': origin in STD_STREAMS}
        table(ctx)[id(v)] = rec
        streams_of(ctx).append(rec)
        return rec

    def rec_of(it, ctx, v, want=None):
        """record of the stream value v; standard streams and streams that come from outside the explored code (parameters)
        are entered on first use, with the direction of that use"""
        if isinstance(v, View):
            v = it.settle(v)
        if not isinstance(v, Obj):
            return None
        rec = table(ctx).get(id(v))
        if rec is None:
            lab = (v.label or '')
            if lab.startswith('g:') and lab[2:] in STD_STREAMS:
                rec = new_rec(ctx, v, STD_STREAMS[lab[2:]], lab[2:])
        return rec

    def m_fopen(it, ctx, n, args):
        name = n.callee()
        mode = cstr(args[1]) if len(args) > 1 else None
        if mode is None:
            return _opaque_call(it, ctx, n, args)
        kind = 'w' if (mode[:1] in ('w', 'a') or '+' in mode) else 'r'
        if open_fails and ctx.choose(2, name) == 1:
            proc_state(ctx)['open_failed'] = True
            ctx.note('%s(%s) fails' % (name, mode))
            ctx.emit('call', name, args, n.line, 0)
            return 0
        s = Obj(None, lazy=True, label=ctx.fresh('stream'))
        rec = new_rec(ctx, s, kind, name, n.line)
        ctx.emit('call', name, args, n.line, s)
        rec['event'] = ctx.events[-1]
        return s

    def m_read(it, ctx, n, args):
        name = n.callee()
        idx, kind = READ_RESULT[name]
        rec = rec_of(it, ctx, args[idx], 'r') if len(args) > idx else None
        if rec is None:
            return _opaque_call(it, ctx, n, args)
        end = {'count': 0, 'buffer': 0, 'char': -1, 'length': -1}[kind]
        if rec['eof'] or rec['err'] or rec['closed']:
            return end
        full = {'count': args[2] if len(args) > 2 else 1, 'buffer': args[0], 'char': 97, 'length': 5}[kind]
        opts = []
        if rec['reads'] < data_reads:
            opts.append('data')
        if kind == 'count' and isinstance(full, int) and not isinstance(full, bool) and full > 1:
            opts += ['short-count-end', 'short-count-error']
        opts += ['end', 'zero-count-error' if kind == 'count' else 'error']
        o = opts[ctx.choose(len(opts), name)]
        rec['reads'] += 1
        if o == 'data':
            ctx.note('%s() delivers data' % name)
            return full
        if o.endswith('error'):
            rec['err'] = True
            rec['rfail'] = (name, 'short-count' if o.startswith('short') else ('zero-count' if kind == 'count' else 'no-data'), n.line)
            ctx.note('%s() FAILS (%s, error flag set)' % (name, 'after some bytes' if o.startswith('short') else 'nothing read'))
        else:
            rec['eof'] = True
            ctx.note('%s() reaches end of file%s' % (name, ' after some bytes' if o.startswith('short') else ''))
        return 1 if o.startswith('short') else end

    def first_look(it, ctx, rec):
        # a write that happened before the program first asks about the stream may have failed already
        if rec['kind'] == 'w' and rec['early'] is None:
            rec['early'] = ctx.choose(2, 'earlier write') == 1
            if rec['early']:
                rec['err'] = True
                rec['wfail'] = 'earlier-write'
                ctx.note('an earlier write to the stream failed (error flag set; what is left in the buffer can still be flushed)')

    def m_ferror(it, ctx, n, args):
        rec = rec_of(it, ctx, args[0], None) if args else None
        if rec is None:
            # a stream the model does not follow (memory stream, stream from outside): it may have failed, and a path on which it
            # did is not a path on which everything went well
            if ctx.choose(2, n.callee()) == 1:
                proc_state(ctx)['other_stream_failed'] = True
                ctx.note('%s()!=0 on a stream that is not followed' % n.callee())
                return 1
            return 0
        first_look(it, ctx, rec)
        return 1 if rec['err'] else 0

    def m_feof(it, ctx, n, args):
        rec = rec_of(it, ctx, args[0], None) if args else None
        if rec is None:
            return _opaque_call(it, ctx, n, args)
        return 1 if rec['eof'] else 0

    def m_clearerr(it, ctx, n, args):
        rec = rec_of(it, ctx, args[0], None) if args else None
        if rec is not None:
            rec['err'] = rec['eof'] = False
            rec['cleared'] = True
        return None

    def m_fflush(it, ctx, n, args):
        rec = rec_of(it, ctx, args[0], None) if args else None
        if rec is None or rec['kind'] != 'w':
            return 0
        first_look(it, ctx, rec)
        if rec['dirty'] and not rec['early']:
            rec['dirty'] = False
            if ctx.choose(2, 'fflush') == 1:
                rec['err'] = True
                rec['wfail'] = 'fflush'
                ctx.note('fflush() FAILS (buffered data could not be written)')
                return -1
        rec['dirty'] = False
        return 0

    def m_fclose(it, ctx, n, args):
        rec = rec_of(it, ctx, args[0], None) if args else None
        if rec is None:
            return 0
        if rec['kind'] == 'w' and not rec['closed']:
            first_look(it, ctx, rec)
            rec['closed'] = True
            if rec['dirty'] and not rec['early']:
                rec['dirty'] = False
                if ctx.choose(2, 'fclose') == 1:
                    rec['wfail'] = 'fclose'
                    ctx.note('fclose() FAILS (the data still in the buffer could not be written)')
                    return -1
            rec['dirty'] = False
            return 0
        rec['closed'] = True
        return 0

    m = {'fopen': m_fopen, 'fopen64': m_fopen, 'ferror': m_ferror, 'ferror_unlocked': m_ferror, 'feof': m_feof, 'feof_unlocked': m_feof,
         'clearerr': m_clearerr, 'clearerr_unlocked': m_clearerr, 'fflush': m_fflush, 'fflush_unlocked': m_fflush, 'fclose': m_fclose}
    for f in READ_RESULT:
        m[f] = m_read
    return m
