"""private helpers of sa/rules/c15.py: emitted-line parsing (format string + abstract
arguments -> directive / label / instruction with operand shapes), value comparison,
result aggregation."""
import re
from .interp import Obj, Sym, Term, Lin, View, vkey, is_opaque

A = '\x01'          # stands for one abstract (non-literal) argument inside an operand shape


def _conversions(fmt):
    """split a printf format into ['literal', ('arg', conv), ...]"""
    out, i, n, cur = [], 0, len(fmt), ''
    while i < n:
        c = fmt[i]
        if c != '%':
            cur += c; i += 1; continue
        if i + 1 < n and fmt[i + 1] == '%':
            cur += '%'; i += 2; continue
        j = i + 1
        while j < n and fmt[j] in '0123456789.-+ #lhzjt*':
            j += 1
        if cur:
            out.append(cur); cur = ''
        out.append(('arg', fmt[i + 1:j + 1]))
        i = j + 1
    if cur:
        out.append(cur)
    return out


def _split_commas(s):
    out, cur, d, q = [], '', 0, False
    for ch in s:
        if ch == '"':
            q = not q
        if not q:
            if ch in '({':
                d += 1
            elif ch in ')}':
                d -= 1
        if ch == ',' and d == 0 and not q:
            out.append(cur); cur = ''
        else:
            cur += ch
    if cur.strip():
        out.append(cur)
    return [x.strip() for x in out]


class Line:
    """one emitted line. kind: 'label' | 'dir' | 'ins' | 'blank'; head = directive / mnemonic
    (or label shape); ops = [(shape, [abstract args])] where shape is the operand text with
    A in place of every abstract argument (concrete int/str arguments are folded into the text)"""

    def __init__(self, kind, head, ops, text, src_line):
        self.kind = kind; self.head = head; self.ops = ops; self.text = text; self.src_line = src_line

    def __repr__(self):
        return self.text.strip()

    def mentions(self, key):
        return any(vkey(a) == key for _, aa in self.ops for a in aa)


def parse_emit(it, fmt, args, src_line=0):
    """Line of one println(fmt, args...) event"""
    from .chibi import fmt_emit
    text = fmt_emit(fmt, args) if isinstance(fmt, str) else repr(fmt)
    if not isinstance(fmt, str):
        return Line('unknown', None, [], text, src_line)
    parts = _conversions(fmt)
    s = ''
    vals = []
    ai = 0
    for p in parts:
        if isinstance(p, str):
            s += p
            continue
        a = args[ai] if ai < len(args) else Sym('<missing>')
        ai += 1
        if isinstance(a, View):
            a = it.settle(a)
        if isinstance(a, bool):
            a = int(a)
        if isinstance(a, int) and p[1][-1] in 'dui':
            s += str(a)
        elif isinstance(a, int) and p[1][-1] == 'x':
            s += '%x' % a
        elif isinstance(a, str):
            s += a
        else:
            s += '\x02%d\x03' % len(vals)
            vals.append(a)
    st = s.strip()
    if not st:
        return Line('blank', None, [], text, src_line)

    def shape(x):
        aa = []

        def rep(m):
            aa.append(vals[int(m.group(1))])
            return A
        return (re.sub('\x02(\\d+)\x03', rep, x), aa)
    if st.endswith(':') and not re.search(r'\s', st):
        sh = shape(st[:-1])
        return Line('label', sh[0], [sh], text, src_line)
    m = re.match(r'^(\S+)\s*(.*)$', st)
    head, rest = m.group(1), m.group(2)
    if head in ('data16', 'lock', 'rep', 'repz', 'repnz') and rest and not rest.startswith('.'):
        m2 = re.match(r'^(\S+)\s*(.*)$', rest)
        head, rest = head + ' ' + m2.group(1), m2.group(2)
    ops = [shape(o) for o in _split_commas(rest)] if rest else []
    kind = 'dir' if head.startswith('.') else 'ins'
    return Line(kind, head, ops, text, src_line)


def lines_of(it, ctx):
    return [parse_emit(it, e[1], e[2], e[3] if len(e) > 3 else 0) for e in ctx.events if e[0] == 'emit']


def op_is(op, shape, *keys):
    """operand has exactly this shape and its abstract arguments are exactly these values (by key)"""
    if op[0] != shape or len(op[1]) != len(keys):
        return False
    return all(vkey(a) == k for a, k in zip(op[1], keys))


def op_int(op):
    """concrete integer operand or None"""
    if op[1]:
        return None
    try:
        return int(op[0], 0)
    except ValueError:
        return None


def op_val(op):
    """the single value of an operand: int literal, or the abstract argument when the operand is just
    that argument; else None"""
    if op[0] == A and len(op[1]) == 1:
        return op[1][0]
    return op_int(op)


def same(a, b):
    return vkey(a) == vkey(b)


def bounds_of(ctx, v):
    """[lo, hi] known for an opaque integer value on this path (None = unbounded)"""
    if isinstance(v, bool):
        v = int(v)
    if isinstance(v, int):
        return [v, v]
    b = ctx.bounds.get(vkey(v)) if is_opaque(v) else None
    INF = 1 << 70
    if not b:
        return [None, None]
    return [None if b[0] <= -INF else b[0], None if b[1] >= INF else b[1]]


class Agg:
    """collects verdicts per obligation key over many abstract inputs / paths; one rep.ob per key"""

    def __init__(self, rep, rule, unit, fn):
        self.rep = rep; self.rule = rule; self.unit = unit; self.fn = fn
        self.d = {}
        self.order = []
        self.und = {}

    def note(self, construct, ok, msg='', line=None, facts=None):
        k = construct
        if k not in self.d:
            self.d[k] = [True, '', None, None, 0]; self.order.append(k)
        cur = self.d[k]
        cur[4] += 1
        if cur[0] and not ok:
            cur[0] = False; cur[1] = msg; cur[2] = line; cur[3] = facts

    def undecided(self, construct, why, line=None):
        if construct not in self.und:
            self.und[construct] = (why, line)

    def flush(self, default_line):
        for k in self.order:
            ok, msg, line, facts, n = self.d[k]
            if k in self.und:
                continue
            self.rep.ob(self.rule, '%s:%s:%s' % (self.unit, self.fn, k), ok, msg,
                        where='%s:%d' % (self.unit, line or default_line), facts=facts)
        for k, (why, line) in self.und.items():
            self.rep.undecided(self.rule, '%s:%s:%s' % (self.unit, self.fn, k), why,
                               where='%s:%d' % (self.unit, line or default_line))
