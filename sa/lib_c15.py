"""private helpers of sa/rules/c15.py: emitted-line parsing (format string + abstract
arguments -> directive / label / instruction with operand shapes), value comparison,
result aggregation."""
import re
from .interp import Obj, Sym, Term, Lin, View, vkey, is_opaque

A = '\x01'          # stands for one abstract (non-literal) argument inside an operand shape


def _conversions(fmt):
    """split a printf format into ['literal', ('arg', conv), ...]"""
    out, i, n, cur = [], 0, len(fmt), ''
    while i < n:
        c = fmt[i]
        if c != '%':
            cur += c; i += 1; continue
        if i + 1 < n and fmt[i + 1] == '%':
            cur += '%'; i += 2; continue
        j = i + 1
        while j < n and fmt[j] in '0123456789.-+ #lhzjt*':
            j += 1
        if cur:
            out.append(cur); cur = ''
        out.append(('arg', fmt[i + 1:j + 1]))
        i = j + 1
    if cur:
        out.append(cur)
    return out


def _split_commas(s):
    out, cur, d, q = [], '', 0, False
    for ch in s:
        if ch == '"':
            q = not q
        if not q:
            if ch in '({':
                d += 1
            elif ch in ')}':
                d -= 1
        if ch == ',' and d == 0 and not q:
            out.append(cur); cur = ''
        else:
            cur += ch
    if cur.strip():
        out.append(cur)
    return [x.strip() for x in out]


class Line:
    """one emitted line. kind: 'label' | 'dir' | 'ins' | 'blank'; head = directive / mnemonic
    (or label shape); ops = [(shape, [abstract args])] where shape is the operand text with
    A in place of every abstract argument (concrete int/str arguments are folded into the text)"""

    def __init__(self, kind, head, ops, text, src_line):
        self.kind = kind; self.head = head; self.ops = ops; self.text = text; self.src_line = src_line

    def __repr__(self):
        return self.text.strip()

    def mentions(self, key):
        return any(vkey(a) == key for _, aa in self.ops for a in aa)


def parse_emit(it, fmt, args, src_line=0):
    """Line of one println(fmt, args...) event"""
    from .chibi import fmt_emit
    text = fmt_emit(fmt, args) if isinstance(fmt, str) else repr(fmt)
    if not isinstance(fmt, str):
        return Line('unknown', None, [], text, src_line)
    parts = _conversions(fmt)
    s = ''
    vals = []
    ai = 0
    for p in parts:
        if isinstance(p, str):
            s += p
            continue
        a = args[ai] if ai < len(args) else Sym('<missing>')
        ai += 1
        if isinstance(a, View):
            a = it.settle(a)
        if isinstance(a, bool):
            a = int(a)
        if isinstance(a, int) and p[1][-1] in 'dui':
            s += str(a)
        elif isinstance(a, int) and p[1][-1] == 'x':
            s += '%x' % a
        elif isinstance(a, str):
            s += a
        else:
            s += '\x02%d\x03' % len(vals)
            vals.append(a)
    st = s.strip()
    if not st:
        return Line('blank', None, [], text, src_line)

    def shape(x):
        aa = []

        def rep(m):
            aa.append(vals[int(m.group(1))])
            return A
        return (re.sub('\x02(\\d+)\x03', rep, x), aa)
    if st.endswith(':') and not re.search(r'\s', st):
        sh = shape(st[:-1])
        return Line('label', sh[0], [sh], text, src_line)
    m = re.match(r'^(\S+)\s*(.*)$', st)
    head, rest = m.group(1), m.group(2)
    if head in ('data16', 'lock', 'rep', 'repz', 'repnz') and rest and not rest.startswith('.'):
        m2 = re.match(r'^(\S+)\s*(.*)$', rest)
        head, rest = head + ' ' + m2.group(1), m2.group(2)
    ops = [shape(o) for o in _split_commas(rest)] if rest else []
    kind = 'dir' if head.startswith('.') else 'ins'
    return Line(kind, head, ops, text, src_line)


def lines_of(it, ctx):
    return [parse_emit(it, e[1], e[2], e[3] if len(e) > 3 else 0) for e in ctx.events if e[0] == 'emit']


def op_is(op, shape, *keys):
    """operand has exactly this shape and its abstract arguments are exactly these values (by key)"""
    if op[0] != shape or len(op[1]) != len(keys):
        return False
    return all(vkey(a) == k for a, k in zip(op[1], keys))


def op_int(op):
    """concrete integer operand or None"""
    if op[1]:
        return None
    try:
        return int(op[0], 0)
    except ValueError:
        return None


def op_val(op):
    """the single value of an operand: int literal, or the abstract argument when the operand is just
    that argument; else None"""
    if op[0] == A and len(op[1]) == 1:
        return op[1][0]
    return op_int(op)


def same(a, b):
    return vkey(a) == vkey(b)


def bounds_of(ctx, v):
    """[lo, hi] known for an opaque integer value on this path (None = unbounded)"""
    if isinstance(v, bool):
        v = int(v)
    if isinstance(v, int):
        return [v, v]
    b = ctx.bounds.get(vkey(v)) if is_opaque(v) else None
    INF = 1 << 70
    if not b:
        return [None, None]
    return [None if b[0] <= -INF else b[0], None if b[1] >= INF else b[1]]


class _NoEval(Exception):
    pass


def _key_mentions(k, leaf):
    if k == leaf:
        return True
    return isinstance(k, tuple) and any(_key_mentions(x, leaf) for x in k)


def _key_eval(k, leaf, d):
    """value of the value key k (interp.vkey of an int / Sym / Term / Lin) when the symbol `leaf` is the non-negative int d; C semantics of int
    arithmetic on small non-negative operands.  _NoEval when k contains anything else that is not a constant"""
    if isinstance(k, bool):
        return int(k)
    if isinstance(k, int):
        return k
    if k == leaf:
        return d
    if not isinstance(k, tuple) or not k:
        raise _NoEval()
    if k[0] == 'lin':
        r = k[1]
        for sub, c in k[2:]:
            r += c * _key_eval(sub, leaf, d)
        return r
    if k[0] != 'term' or not isinstance(k[1], str):
        raise _NoEval()
    op = k[1].split(':')[0]
    a = [_key_eval(x, leaf, d) for x in k[2:]]
    if len(a) == 1:
        if op == '!': return int(not a[0])
        if op == '-': return -a[0]
        if op == '~': return ~a[0]
        raise _NoEval()
    if len(a) != 2:
        raise _NoEval()
    x, y = a
    if op in ('/', '%'):
        if y == 0:
            raise _NoEval()
        q = abs(x) // abs(y) * (1 if (x >= 0) == (y >= 0) else -1)
        return q if op == '/' else x - q * y
    if op in ('<<', '>>'):
        if not 0 <= y < 32:
            raise _NoEval()
        return x << y if op == '<<' else x >> y
    f = {'+': lambda: x + y, '-': lambda: x - y, '*': lambda: x * y, '&': lambda: x & y, '|': lambda: x | y, '^': lambda: x ^ y,
         '==': lambda: int(x == y), '!=': lambda: int(x != y), '<': lambda: int(x < y), '<=': lambda: int(x <= y), '>': lambda: int(x > y),
         '>=': lambda: int(x >= y), '&&': lambda: int(bool(x) and bool(y)), '||': lambda: int(bool(x) or bool(y))}.get(op)
    if f is None:
        raise _NoEval()
    return f()


def sym_values(ctx, name, domain):
    """The values d of `domain` (non-negative ints) the symbol `name` can have on this path: those every decision the path made on a value
    computed from the symbol (ctx.facts / ctx.bounds / ctx.neq) admits.  None when one of these decisions cannot be evaluated (it also
    depends on something else, or uses an operator this evaluator does not know)."""
    leaf = ('sym', name)
    cons = []
    for k, v in ctx.facts.items():
        if _key_mentions(k, leaf):
            cons.append(('truth', k, bool(v)))
    for k, b in ctx.bounds.items():
        if _key_mentions(k, leaf):
            cons.append(('range', k, b))
    for k, s in ctx.neq.items():
        if _key_mentions(k, leaf):
            cons.append(('neq', k, s))
    out = []
    try:
        for d in domain:
            ok = True
            for what, k, x in cons:
                v = _key_eval(k, leaf, d)
                if what == 'truth':
                    ok = bool(v) == x
                elif what == 'range':
                    ok = x[0] <= v <= x[1]
                else:
                    ok = v not in x
                if not ok:
                    break
            if ok:
                out.append(d)
    except _NoEval:
        return None
    return out


class Agg:
    """collects verdicts per obligation key over many abstract inputs / paths; one rep.ob per key"""

    def __init__(self, rep, rule, unit, fn):
        self.rep = rep; self.rule = rule; self.unit = unit; self.fn = fn
        self.d = {}
        self.order = []
        self.und = {}

    def note(self, construct, ok, msg='', line=None, facts=None):
        k = construct
        if k not in self.d:
            self.d[k] = [True, '', None, None, 0]; self.order.append(k)
        cur = self.d[k]
        cur[4] += 1
        if cur[0] and not ok:
            cur[0] = False; cur[1] = msg; cur[2] = line; cur[3] = facts

    def undecided(self, construct, why, line=None):
        if construct not in self.und:
            self.und[construct] = (why, line)

    def flush(self, default_line):
        for k in self.order:
            ok, msg, line, facts, n = self.d[k]
            if k in self.und:
                continue
            self.rep.ob(self.rule, '%s:%s:%s' % (self.unit, self.fn, k), ok, msg,
                        where='%s:%d' % (self.unit, line or default_line), facts=facts)
        for k, (why, line) in self.und.items():
            self.rep.undecided(self.rule, '%s:%s:%s' % (self.unit, self.fn, k), why,
                               where='%s:%d' % (self.unit, line or default_line))


# ---------------------------------------------------------------------------------------------
# R15.9: the link command of a concrete command line (driver interpreted from main() to the
# argument vector handed to the process launcher)
# ---------------------------------------------------------------------------------------------
def _tok_state(ctx):
    if not hasattr(ctx, 'c15_strtok'):
        ctx.c15_strtok = [None]
    return ctx.c15_strtok


def _tokenise(it, pos, delim):
    """one strtok step on the writable buffer position pos=(arr, i): (token pointer | 0, new position) or None
    when the buffer is not a concrete NUL-terminated string"""
    from .interp import _Ref, ElemPlace
    arr, i = pos
    el = arr.elems

    def ch(k):
        if k >= len(el) or not isinstance(el[k], int) or isinstance(el[k], bool):
            raise ValueError
        return el[k] & 0xff
    try:
        while ch(i) != 0 and chr(ch(i)) in delim:
            i += 1
        if ch(i) == 0:
            return 0, (arr, i)
        start = i
        while ch(i) != 0 and chr(ch(i)) not in delim:
            i += 1
        if ch(i) != 0:
            ElemPlace(arr, i).set(it, 0)
            return _Ref(ElemPlace(arr, start)), (arr, i + 1)
        return _Ref(ElemPlace(arr, start)), (arr, i)
    except ValueError:
        return None


def _buf_pos(v):
    from .interp import _Ref, ElemPlace, Arr
    if isinstance(v, _Ref) and isinstance(v.place, ElemPlace) and isinstance(v.place.arr, Arr) and isinstance(v.place.i, int):
        return (v.place.arr, v.place.i)
    return None


def tokeniser_models():
    """ISO C strtok / POSIX strtok_r on writable concrete buffers; anything else stays an opaque call (so an unknown
    shape ends as `not concrete`, never as a wrong token)"""
    from . import lib_c14 as L
    from .interp import _Ref

    def m_strtok(it, ctx, n, args):
        d = L.cstr(args[1]) if len(args) > 1 else None
        st = _tok_state(ctx)
        s = args[0] if args else None
        pos = st[0] if (isinstance(s, int) and not isinstance(s, bool) and s == 0) else _buf_pos(s)
        r = _tokenise(it, pos, d) if (d is not None and pos is not None) else None
        if r is None:
            return L._opaque_call(it, ctx, n, args)
        st[0] = r[1]
        return r[0]

    def m_strtok_r(it, ctx, n, args):
        d = L.cstr(args[1]) if len(args) > 2 else None
        save = args[2] if len(args) > 2 else None
        if d is None or not isinstance(save, _Ref):
            return L._opaque_call(it, ctx, n, args)
        s = args[0]
        if isinstance(s, int) and not isinstance(s, bool) and s == 0:
            try:
                pos = _buf_pos(save.place.get(it))
            except Exception:
                pos = None
        else:
            pos = _buf_pos(s)
        r = _tokenise(it, pos, d) if pos is not None else None
        if r is None:
            return L._opaque_call(it, ctx, n, args)
        from .interp import ElemPlace
        save.place.set(it, _Ref(ElemPlace(r[1][0], r[1][1])))
        return r[0]
    return {'strtok': m_strtok, 'strtok_r': m_strtok_r, '__strtok_r': m_strtok_r}


TMP_CREATE = ('mkstemp', 'mkostemp', 'mkstemps', 'mkostemps', 'mkdtemp', 'tmpfile', 'tmpnam', 'tmpnam_r', 'tempnam', 'mktemp')


def _m_strarray_push_store(it, ctx, n, args):
    """strarray_push on a list object: the elements are kept (an all-zero StringArray grows a data array), so that lists
    filled by the interpreted option parser are read back by main and by the link-command builder"""
    from .interp import Obj, Arr, View
    arr = args[0]
    val = args[1] if len(args) > 1 else None
    ctx.emit('call', 'strarray_push', args, n.line, None)
    if isinstance(arr, Obj):
        old = it.read_field(arr, 'len')
        if isinstance(old, View):
            old = it.force(old)
        d = arr.fields.get('data')
        if isinstance(old, int) and not isinstance(old, bool):
            if not isinstance(d, Arr):
                d = Arr([0] * old, label=(arr.label or 'list') + '.data')
                arr.fields['data'] = d
            while len(d.elems) < old + 2:
                d.elems.append(0)
            d.elems[old] = val
            d.elems[old + 1] = 0
        arr.fields['len'] = it.arith('+', old, 1, 'int')
    return None


def _zero_statics(u):
    """file-scope variables without initialiser are zero at program start (records: all-zero objects)"""
    from .interp import Obj
    glob = {}
    for name, g in u.globals.items():
        if 'init' in g.d:
            continue
        t = (g.dtype or g.type or '').replace('struct ', '').strip()
        if t.endswith(']'):
            continue
        if t in u.records:
            glob[name] = (lambda nm, tt: (lambda ctx: Obj(tt, lazy=False, label='g:' + nm)))(name, t)
        else:
            glob[name] = 0
    return glob


class UnitEdges:
    """direct-call edges of one unit (the `edges` part of lib_c14.CallGraph, without loading the other units)"""

    def __init__(self, u):
        self.edges = {}
        for f, fd in u.functions.items():
            e = self.edges.setdefault(f, set())
            for n in fd.walk():
                if n.kind == 'CallExpr' and n.callee():
                    e.add(n.callee())


class LinkDriver:
    """Runs main() of main.c on concrete command lines with the real option parser and the real link-command
    builder.  Interpreted: main, parse_args, run_linker and every function of main.c that (transitively) calls
    nothing but modelled string/list functions, diagnostics, each other and the cut points.  Cut points
    (recorded as events, never entered): the stage functions run_cc1 / assemble, the temporary-name creator, the
    process launcher run_subprocess, and parameterless functions returning a string (probes of the installation:
    library directories)."""
    KEEP = ('main', 'parse_args', 'run_linker')
    STAGES = ('run_cc1', 'assemble')
    LAUNCH = 'run_subprocess'

    def __init__(self, P, u):
        from . import lib_c14 as L
        from .build import AnalysisBroken
        self.P, self.u, self.L = P, u, L
        for f in self.KEEP + self.STAGES + (self.LAUNCH,):
            if f not in u.functions:
                raise AnalysisBroken('main.c: anchor function %s vanished' % f)
        eg = UnitEdges(u)
        self.tmp_fns = sorted(f for f in u.functions if eg.edges[f] & set(TMP_CREATE))
        if not self.tmp_fns:
            raise AnalysisBroken('main.c: no function creates temporaries with mkstemp (anchor vanished)')
        probes = set()
        for f, fd in u.functions.items():
            t = (fd.dtype or fd.type or '').replace(' ', '')
            if t in ('char*(void)', 'char*()') and f not in self.KEEP:
                probes.add(f)
        self.probes = probes
        cuts = set(self.STAGES) | set(self.tmp_fns) | {self.LAUNCH} | probes
        ok_ext = set(L.STRING_FNS) | set(L.ERROR_FNS) | {'strerror', '__errno_location', 'strarray_push', '__assert_fail'} | set(tokeniser_models())

        def pure(f, seen):
            if f in ok_ext or f in cuts:
                return True
            if f not in u.functions:
                return False
            if f in seen:
                return True
            seen.add(f)
            return all(pure(g, seen) for g in eg.edges.get(f, ()))
        self.interpreted = set(self.KEEP) | set(f for f in u.functions if f not in cuts and pure(f, set()))
        self.opaque = [f for f in u.functions if f not in self.interpreted and f not in self.tmp_fns and f != self.LAUNCH]

        def m_tmp(it, ctx, n, args):
            from .interp import Obj
            s = Obj(None, lazy=False, label=ctx.fresh('tmp'))
            ctx.emit('call', 'create_tmpfile', args, n.line, s)
            return s

        def m_launch(it, ctx, n, args):
            ctx.emit('call', self.LAUNCH, args, n.line, None)
            return None
        self.models = dict(L.string_models())
        self.models.update(tokeniser_models())
        self.models['strarray_push'] = _m_strarray_push_store
        for t in self.tmp_fns:
            self.models[t] = m_tmp
        self.models[self.LAUNCH] = m_launch

    def run(self, words, max_paths=200):
        """[(ctx, out)] of main(argc, argv) for the command line `words` (words[0] = program name)"""
        from .interp import Arr, _Ref, ElemPlace
        L = self.L
        it = L.make_interp(self.P, self.u, opaque=self.opaque, extra_models=self.models, globals_=_zero_statics(self.u), loop_limit=2)

        def mk(ctx):
            argv = Arr([L.cbuf(x, 'argv') for x in words] + [0], label='argv')
            return [len(words), _Ref(ElemPlace(argv, 0))]
        return it.explore('main', mk, max_paths=max_paths)

    def link_command(self, ctx):
        """The argument vector of the ld process of one path: (items, line, None) | (None, line, 'unreadable' | 'count:<n>').
        item = ('str', s) literal / command-line word; ('obj-of', name) temporary holding the assembled
        input `name`; ('asm-of', name) temporary holding compiler output of `name`; ('tmp', k) other temporary;
        ('file', basename) path built from an installation directory; ('end',) terminating NULL; ('?', repr)"""
        L = self.L
        evs = L.calls_of(ctx)
        cc1_out, as_out, fmts, tmps = {}, {}, {}, {}
        for e in evs:
            if e[1] == 'create_tmpfile':
                tmps[id(e[4])] = len(tmps)
            elif e[1] == 'run_cc1' and len(e[2]) >= 4:
                cc1_out[id(e[2][3])] = L.cstr(e[2][2])
            elif e[1] == 'assemble' and len(e[2]) >= 2:
                src = e[2][0]
                nm = L.cstr(src)
                if nm is None and id(src) in cc1_out:
                    nm = cc1_out[id(src)]
                as_out[id(e[2][1])] = nm
            elif e[1] == 'format' and len(e) > 4 and e[2]:
                fmts[id(e[4])] = L.cstr(e[2][0])
        lds = []
        from .interp import Arr, _Ref, ElemPlace
        for e in evs:
            if e[1] != self.LAUNCH or not e[2]:
                continue
            a = e[2][0]
            if isinstance(a, _Ref) and isinstance(a.place, ElemPlace) and a.place.i == 0:
                a = a.place.arr
            if not isinstance(a, Arr):
                return None, e[3], 'unreadable'
            if a.elems and L.cstr(a.elems[0]) == 'ld':
                lds.append((a, e[3]))
        if len(lds) != 1:
            return None, None, 'count:%d' % len(lds)
        a, line = lds[0]
        items = []
        for x in a.elems:
            s = L.cstr(x)
            if s is not None:
                items.append(('str', s))
            elif isinstance(x, int) and not isinstance(x, bool) and x == 0:
                items.append(('end',))
                break
            elif id(x) in as_out and as_out[id(x)] is not None:
                items.append(('obj-of', as_out[id(x)]))
            elif id(x) in cc1_out and cc1_out[id(x)] is not None:
                items.append(('asm-of', cc1_out[id(x)]))
            elif id(x) in tmps:
                items.append(('tmp', tmps[id(x)]))
            elif id(x) in fmts and fmts[id(x)] is not None:
                items.append(('file', fmts[id(x)].rsplit('/', 1)[-1] if '/' in fmts[id(x)] else fmts[id(x)]))
            else:
                items.append(('?', repr(x)))
        return items, line, None
