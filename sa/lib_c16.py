"""Typed evaluation of the statement-expression macros of include/stdatomic.h (private helper of sa/rules/c16.py).

sa/lib_minic.py parses the expanded macro; here every expression has its C type (integer types by size/signedness, pointers), every
local object has the width of its DECLARED type (`typeof(expr)` is typed, not evaluated; integer promotion and the usual arithmetic
conversions apply), values are converted on initialisation, assignment and cast, and the atomic object is a typed shared cell that
other threads change between any two accesses of this thread. The two builtins have the semantics the code generator gives them
(C16 R16.3 / R16.7): __builtin_compare_and_swap(p, e, n) compares the object with the first sizeof(*p) bytes of *e, stores n converted
to the object's type on equality, and otherwise writes the object's value over the first sizeof(*p) bytes of *e - nothing more.
Anything outside the subset raises NotInSubset (-> undecided)."""
from .lib_minic import Parser, NotInSubset

INT = ('int', 4, False)
LONG = ('int', 8, False)
ULONG = ('int', 8, True)
BOOL = ('int', 1, True)
CTYPES = {'schar': ('int', 1, False), 'uchar': ('int', 1, True), 'short': ('int', 2, False), 'ushort': ('int', 2, True),
          'int': INT, 'uint': ('int', 4, True), 'long': LONG, 'ulong': ULONG}


def unq(t):
    """the unqualified version of a type: an _Atomic-qualified integer type is the 4-tuple t + ('A',)"""
    return t[:3] if t[0] == 'int' else t


def atomic(t):
    """the _Atomic-qualified version of an integer type"""
    return unq(t) + ('A',) if t[0] == 'int' else t


def is_atomic(t):
    return t[0] == 'int' and len(t) > 3


def tname(t):
    if t[0] == 'ptr':
        return tname(t[1]) + ' *'
    if is_atomic(t):
        return '_Atomic ' + tname(unq(t))
    for n, x in CTYPES.items():
        if x == t:
            return {'schar': 'signed char', 'uchar': 'unsigned char', 'ushort': 'unsigned short', 'uint': 'unsigned int', 'ulong': 'unsigned long'}.get(n, n)
    return repr(t)


def wrap(t, v):
    """conversion of the mathematical integer v to the integer type t"""
    if t[0] != 'int':
        return v
    if not isinstance(v, int):
        raise NotInSubset('conversion of a pointer to an integer')
    n = t[1] * 8
    v &= (1 << n) - 1
    if not t[2] and v >> (n - 1):
        v -= 1 << n
    return v


def promote(t):
    if t[0] != 'int':
        raise NotInSubset('arithmetic on a non-integer')
    return INT if t[1] < 4 else unq(t)


def uac(a, b):
    a, b = promote(a), promote(b)
    if a[1] != b[1]:
        return a if a[1] > b[1] else b
    return a if a[2] else b


class Diverges(Exception):
    """a loop repeats a state it was in before, with no interference left: it never terminates"""


class TCell:
    """a local object of a declared type: `raw` is its object representation (little-endian bytes as an unsigned number)"""
    def __init__(self, t, v=0, name='?'):
        self.type = t; self.name = name; self.raw = 0
        self.set(v)

    def get(self):
        return wrap(self.type, self.raw) if self.type[0] == 'int' else self.raw

    def set(self, v):
        self.raw = (v & ((1 << (self.type[1] * 8)) - 1)) if self.type[0] == 'int' else v


PYOP = {'+': lambda a, b: a + b, '-': lambda a, b: a - b, '|': lambda a, b: a | b, '^': lambda a, b: a ^ b, '&': lambda a, b: a & b}


class TShared:
    """the atomic object, of integer type t; `inject` = values other threads store right before this thread's k-th access"""
    def __init__(self, t, v, inject):
        self.type = t; self.v = wrap(t, v); self.inject = {k: wrap(t, x) for k, x in inject.items()}
        self.n = 0; self.updates = []; self.seen = []; self.fault = None

    def quiet(self):
        return not any(k >= self.n for k in self.inject)

    def _tick(self):
        if self.n in self.inject:
            self.v = self.inject[self.n]
        self.n += 1
        self.seen.append(self.v)

    def get(self):
        self._tick(); return self.v

    def set(self, v):
        self._tick(); v = wrap(self.type, v); self.updates.append((self.v, v, 'plain-store')); self.v = v

    def rmw(self, op, operand):
        self._tick(); old = self.v; self.v = wrap(self.type, PYOP[op](old, operand)); self.updates.append((old, self.v, 'rmw')); return self.v

    def xchg(self, new):
        self._tick(); old = self.v; self.v = wrap(self.type, new); self.updates.append((old, self.v, 'xchg')); return old

    def cas(self, exp, new):
        self._tick()
        w = self.type[1]
        if not isinstance(exp, TCell) or exp.type[0] != 'int':
            raise NotInSubset('compare-exchange: the expected-value operand does not point to an integer object')
        if exp.type[1] < w:
            self.fault = ('expected-object-narrower-than-atomic-object',
                          'compare-exchange on a %d-byte object reads and (on failure) writes %d bytes through a pointer to the %d-byte object `%s`: adjacent memory is compared and overwritten'
                          % (w, w, exp.type[1], exp.name))
        m = (1 << (8 * w)) - 1
        mine = self.v & m
        if mine == (exp.raw & m):
            old = self.v; self.v = wrap(self.type, new); self.updates.append((old, self.v, 'cas')); return 1
        if exp.type[1] >= w:
            exp.raw = (exp.raw & ~m) | mine          # exactly the object's width is written back; the other bytes of *e keep what they held
        else:
            exp.raw = mine & ((1 << (8 * exp.type[1])) - 1)
        return 0


class TypedEval:
    def __init__(self, typedefs=None):
        self.steps = 0
        self.typedefs = dict(typedefs or {})

    # ---------------------------------------------------------------- types ---
    def parse_type(self, toks, tenv):
        toks = list(toks)
        stars = 0
        qual_atomic = False
        while toks and toks[-1] == ('p', '*'):
            toks.pop(); stars += 1
        words = []
        base = None
        i = 0
        while i < len(toks):
            t = toks[i]
            if t[0] == 'id' and t[1] in ('typeof', '__typeof__', '_Atomic') and i + 1 < len(toks) and toks[i + 1] == ('p', '('):
                d = 0; j = i + 1
                while j < len(toks):
                    if toks[j] == ('p', '('):
                        d += 1
                    elif toks[j] == ('p', ')'):
                        d -= 1
                        if d == 0:
                            break
                    j += 1
                inner = toks[i + 2:j]
                if not inner or j >= len(toks):
                    raise NotInSubset('empty typeof')
                if base is not None:
                    raise NotInSubset('two type specifiers')
                if t[1] == '_Atomic':
                    qual_atomic = True
                ps = Parser(inner + [('p', ';')], typenames=tuple(self.typedefs))
                if ps.is_type():
                    tt = ps.skip_type()
                    if ps.peek() != ('p', ';'):
                        raise NotInSubset('type name in typeof')
                    base = self.parse_type(tt, tenv)
                else:
                    e = ps.expr()
                    while ps.peek() == ('p', ','):
                        ps.eat(); e = ('comma', e, ps.expr())
                    if ps.peek() != ('p', ';'):
                        raise NotInSubset('expression in typeof')
                    base = self.ty(e, tenv)
                i = j + 1
                continue
            if t[0] != 'id':
                raise NotInSubset('type name token %r' % (t,))
            if t[1] in ('const', 'volatile', 'static', 'register', '_Atomic', 'restrict'):
                qual_atomic = qual_atomic or t[1] == '_Atomic'
                i += 1; continue
            if t[1] in self.typedefs:
                if base is not None:
                    raise NotInSubset('two type specifiers')
                base = self.typedefs[t[1]]; i += 1; continue
            words.append(t[1]); i += 1
        if words:
            if base is not None:
                raise NotInSubset('two type specifiers')
            uns = 'unsigned' in words
            core = sorted(x for x in words if x not in ('signed', 'unsigned', 'int'))
            if core == []:
                base = ('int', 4, uns)
            elif core == ['char']:
                base = ('int', 1, uns)
            elif core == ['short']:
                base = ('int', 2, uns)
            elif core in (['long'], ['long', 'long']):
                base = ('int', 8, uns)
            elif core == ['_Bool']:
                raise NotInSubset('_Bool object')
            elif core == ['void']:
                base = ('void',)
            else:
                raise NotInSubset('type %s' % ' '.join(words))
        if base is None:
            raise NotInSubset('no type specifier')
        if qual_atomic:
            # the qualifier belongs to the specified type (the pointee when a `*` follows); typeof keeps the qualifiers of its operand
            # (chibicc hands the very Type object on, is_atomic included)
            if base[0] != 'int':
                raise NotInSubset('_Atomic on a non-integer type')
            base = atomic(base)
        for _ in range(stars):
            base = ('ptr', base)
        return base

    def ty(self, e, tenv):
        """static type of an expression (nothing is evaluated)"""
        k = e[0]
        if k == 'num':
            v = e[1]
            return INT if v < (1 << 31) else (LONG if v < (1 << 63) else ULONG)
        if k == 'var':
            if e[1] not in tenv:
                raise NotInSubset('unknown identifier %s' % e[1])
            return tenv[e[1]]
        if k == 'deref':
            t = self.ty(e[1], tenv)
            if t[0] != 'ptr':
                raise NotInSubset('dereference of a non-pointer')
            return t[1]
        if k == 'addr':
            return ('ptr', self.ty(e[1], tenv))
        if k == 'un':
            return INT if e[1] == '!' else promote(self.ty(e[2], tenv))
        if k == 'bin':
            op = e[1]
            if op in ('&&', '||', '<', '>', '<=', '>=', '==', '!='):
                return INT
            a = self.ty(e[2], tenv)
            if op in ('<<', '>>'):
                return promote(a)
            b = self.ty(e[3], tenv)
            if a[0] == 'ptr' and b[0] == 'int' and op in ('+', '-'):
                return a
            if b[0] == 'ptr' and a[0] == 'int' and op == '+':
                return b
            return uac(a, b)
        if k == 'cond':
            a, b = self.ty(e[2], tenv), self.ty(e[3], tenv)
            return a if a[0] == 'ptr' else (b if b[0] == 'ptr' else uac(a, b))
        if k == 'comma':
            return unq(self.ty(e[2], tenv))
        if k == 'cast':
            if len(e) < 3:
                raise NotInSubset('cast without a recorded type')
            return self.parse_type(e[2], tenv)
        if k == 'assign':
            return unq(self.ty(e[2], tenv))
        if k == 'call':
            if e[1] == '__builtin_compare_and_swap':
                return BOOL
            if e[1] == '__builtin_atomic_exchange' and e[2]:
                t = self.ty(e[2][0], tenv)
                if t[0] != 'ptr':
                    raise NotInSubset('exchange on a non-pointer')
                return unq(t[1])
            raise NotInSubset('call of %s' % e[1])
        if k == 'stmtexpr':
            inner = dict(tenv)
            last = None
            for st in e[1][1]:
                last = None
                if st[0] == 'decl':
                    if len(st) < 4:
                        raise NotInSubset('declaration without a recorded type')
                    inner[st[1]] = self.parse_type(st[3], inner)
                elif st[0] == 'expr':
                    last = self.ty(st[1], inner)
            if last is None:
                raise NotInSubset('statement expression without a value')
            return last
        if k == 'typeop' and e[1] in ('sizeof', '_Alignof'):
            return ULONG
        raise NotInSubset('type of %s' % k)

    @staticmethod
    def tenv(env):
        return {n: c.type for n, c in env.items()}

    # ---------------------------------------------------------------- statements ---
    def snapshot(self, env):
        st = []
        for n in sorted(env):
            c = env[n]
            st.append((n, c.raw if isinstance(c.raw, int) else id(c.raw)))
            if isinstance(c.raw, TShared):
                if not c.raw.quiet():
                    return None
                st.append(('obj', c.raw.v))
        return tuple(st)

    def loop(self, cond, body, env, test_first):
        seen = set()
        first = True
        while True:
            if test_first or not first:
                snap = self.snapshot(env)
                if snap is not None:
                    if snap in seen:
                        raise Diverges()
                    seen.add(snap)
                if not self.ev(cond, env):
                    return
            first = False
            self.steps += 1
            if self.steps > 300:
                raise NotInSubset('loop does not terminate within 300 iterations')
            self.exec(body, env)

    def exec(self, s, env):
        k = s[0]
        if k == 'block':
            inner = dict(env)
            for x in s[1]:
                self.exec(x, inner)
        elif k == 'if':
            if self.ev(s[1], env):
                self.exec(s[2], env)
            elif s[3] is not None:
                self.exec(s[3], env)
        elif k == 'decl':
            if len(s) < 4:
                raise NotInSubset('declaration without a recorded type')
            t = self.parse_type(s[3], self.tenv(env))
            v = 0
            if s[2] is not None:
                v = self.conv(self.ev(s[2], env), self.ty(s[2], self.tenv(env)), t)
            env[s[1]] = TCell(t, v, s[1])
        elif k == 'while':
            self.loop(s[1], s[2], env, True)
        elif k == 'dowhile':
            self.loop(s[2], s[1], env, False)
        elif k == 'for':
            inner = dict(env)
            self.exec(s[1], inner)
            body = ('block', [s[4]] + ([('expr', s[3])] if s[3] is not None else []))
            self.loop(s[2], body, inner, True)
        elif k == 'expr':
            self.ev(s[1], env)
        else:
            raise NotInSubset(k)

    # ---------------------------------------------------------------- expressions ---
    @staticmethod
    def conv(v, frm, to):
        if to[0] == 'int':
            if frm[0] != 'int':
                raise NotInSubset('pointer converted to an integer')
            return wrap(to, v)
        if to[0] == 'ptr':
            if frm[0] != 'ptr' and v != 0:
                raise NotInSubset('integer converted to a pointer')
            return v
        raise NotInSubset('conversion to %r' % (to,))

    def lv(self, e, env):
        """the object an lvalue expression designates"""
        k = e[0]
        if k == 'var':
            if e[1] not in env:
                raise NotInSubset('unknown identifier %s' % e[1])
            return env[e[1]]
        if k == 'deref':
            p = self.ev(e[1], env)
            if not isinstance(p, (TCell, TShared)):
                raise NotInSubset('dereference of a non-pointer value')
            return p
        raise NotInSubset('lvalue %s' % k)

    def ev(self, e, env):
        """value of an expression, converted to its static type"""
        k = e[0]
        if k == 'num':
            return e[1]
        if k in ('var', 'deref'):
            return self.lv(e, env).get()
        if k == 'addr':
            return self.lv(e[1], env)
        te = self.tenv(env)
        if k == 'un':
            v = self.ev(e[2], env)
            if e[1] == '!':
                return int(not v)
            t = promote(self.ty(e[2], te))
            return wrap(t, {'-': -v, '~': ~v, '+': v}[e[1]])
        if k == 'bin':
            op = e[1]
            if op == '&&':
                return int(bool(self.ev(e[2], env)) and bool(self.ev(e[3], env)))
            if op == '||':
                return int(bool(self.ev(e[2], env)) or bool(self.ev(e[3], env)))
            ta, tb = self.ty(e[2], te), self.ty(e[3], te)
            a, b = self.ev(e[2], env), self.ev(e[3], env)
            if ta[0] != 'int' or tb[0] != 'int':
                if op in ('==', '!=') and ta[0] == tb[0] == 'ptr':
                    return int((a is b) == (op == '=='))
                raise NotInSubset('pointer arithmetic')
            if op in ('<<', '>>'):
                t = promote(ta)
                a = wrap(t, a)
                if not 0 <= b < t[1] * 8:
                    raise NotInSubset('shift count')
                return wrap(t, a << b if op == '<<' else a >> b)
            t = uac(ta, tb)
            a, b = wrap(t, a), wrap(t, b)
            if op in ('/', '%'):
                if b == 0:
                    raise NotInSubset('division by zero')
                q = abs(a) // abs(b) * (1 if (a >= 0) == (b >= 0) else -1)
                return wrap(t, q if op == '/' else a - q * b)
            if op in ('<', '>', '<=', '>=', '==', '!='):
                return int({'<': a < b, '>': a > b, '<=': a <= b, '>=': a >= b, '==': a == b, '!=': a != b}[op])
            if op == '*':
                return wrap(t, a * b)
            if op in PYOP:
                return wrap(t, PYOP[op](a, b))
            raise NotInSubset('operator %s' % op)
        if k == 'cond':
            t = self.ty(e, te)
            arm = e[2] if self.ev(e[1], env) else e[3]
            return self.conv(self.ev(arm, env), self.ty(arm, te), t)
        if k == 'comma':
            self.ev(e[1], env)
            return self.ev(e[2], env)
        if k == 'cast':
            t = self.ty(e, te)
            if t == ('void',):
                self.ev(e[1], env); return 0
            return self.conv(self.ev(e[1], env), self.ty(e[1], te), t)
        if k == 'stmtexpr':
            inner = dict(env)
            last = None
            for st in e[1][1]:
                if st[0] == 'expr':
                    last = self.ev(st[1], inner)
                else:
                    last = None
                    self.exec(st, inner)
            if last is None:
                raise NotInSubset('statement expression without a value')
            return last
        if k == 'call':
            if e[1] == '__builtin_compare_and_swap' and len(e[2]) == 3:
                p = self.ev(e[2][0], env); x = self.ev(e[2][1], env)
                tn = self.ty(e[2][2], te)
                n = self.ev(e[2][2], env)
                if not isinstance(p, TShared):
                    raise NotInSubset('compare-exchange on something else than the atomic object')
                return p.cas(x, self.conv(n, tn, p.type))
            if e[1] == '__builtin_atomic_exchange' and len(e[2]) == 2:
                p = self.ev(e[2][0], env)
                tn = self.ty(e[2][1], te)
                n = self.ev(e[2][1], env)
                if not isinstance(p, TShared):
                    raise NotInSubset('exchange on something else than the atomic object')
                return p.xchg(self.conv(n, tn, p.type))
            raise NotInSubset('call of %s' % e[1])
        if k == 'assign':
            op, lhs, rhs = e[1], e[2], e[3]
            post = len(e) == 5
            cell = self.lv(lhs, env)
            tl = cell.type
            tr = self.ty(rhs, te)
            r = self.ev(rhs, env)
            if op == '=':
                v = self.conv(r, tr, tl)
                cell.set(v)
                return v
            if tl[0] != 'int' or tr[0] != 'int':
                raise NotInSubset('compound assignment on a pointer')
            bop = op[:-1]
            if isinstance(cell, TShared) and is_atomic(self.ty(lhs, te)):
                # the compiler rewrites op= to the compare-exchange loop exactly when the static type of the lvalue carries _Atomic
                # (parse.c to_assign tests binary->lhs->ty->is_atomic; C16 R16.1/R16.2): one indivisible update; value = new value,
                # or the old one for x++. Through an lvalue of unqualified type the same object gets a plain load, the operation and
                # a plain store - other threads run in between.
                if bop not in PYOP:
                    raise NotInSubset('op= %s on the atomic object' % op)
                new = cell.rmw(bop, r)
                return cell.updates[-1][0] if post else new
            old = cell.get()
            t = promote(tl) if bop in ('<<', '>>') else uac(tl, tr)
            a, b = wrap(t, old), (r if bop in ('<<', '>>') else wrap(t, r))
            if bop in PYOP:
                v = PYOP[bop](a, b)
            elif bop == '*':
                v = a * b
            elif bop == '<<' and 0 <= b < t[1] * 8:
                v = a << b
            elif bop == '>>' and 0 <= b < t[1] * 8:
                v = a >> b
            else:
                raise NotInSubset('operator %s' % op)
            v = wrap(tl, wrap(t, v))
            cell.set(v)
            return old if post else v
        raise NotInSubset(k)


# ------------------------------------------------------------------ the atomic_* typedefs of C11 7.17.6 ---
# name -> (kind, size, unsigned) of the corresponding direct type on x86-64 System V / glibc (<stdint.h>, <stddef.h>, <uchar.h>, <wchar.h>:
# int_fastN_t is long for N >= 16, char16_t/char32_t are uint_least16_t/uint_least32_t, wchar_t is int, plain char is signed)
def _c11_atomic_typedefs():
    s1, u1, s2, u2, s4, u4, s8, u8 = [('int', n, u) for n in (1, 2, 4, 8) for u in (False, True)]
    d = {'atomic_bool': ('bool', 1, True), 'atomic_char': s1, 'atomic_schar': s1, 'atomic_uchar': u1, 'atomic_short': s2, 'atomic_ushort': u2,
         'atomic_int': s4, 'atomic_uint': u4, 'atomic_long': s8, 'atomic_ulong': u8, 'atomic_llong': s8, 'atomic_ullong': u8,
         'atomic_char16_t': u2, 'atomic_char32_t': u4, 'atomic_wchar_t': s4,
         'atomic_intptr_t': s8, 'atomic_uintptr_t': u8, 'atomic_size_t': u8, 'atomic_ptrdiff_t': s8, 'atomic_intmax_t': s8, 'atomic_uintmax_t': u8}
    for n, (s, u) in ((8, (s1, u1)), (16, (s2, u2)), (32, (s4, u4)), (64, (s8, u8))):
        d['atomic_int_least%d_t' % n] = s; d['atomic_uint_least%d_t' % n] = u
        d['atomic_int_fast%d_t' % n] = s if n == 8 else s8; d['atomic_uint_fast%d_t' % n] = u if n == 8 else u8
    return d


C11_ATOMIC_TYPEDEFS = _c11_atomic_typedefs()


def header_decls(text):
    """the non-directive part of a header as tokens, split into declarations at top-level `;`; plus the directive lines [(name, rest)]"""
    import re
    from .lib_minic import tokenize
    text = re.sub(r'/\*.*?\*/', ' ', text, flags=re.S)
    text = re.sub(r'\\\n', ' ', text)
    directives = []
    code = []
    for line in text.split('\n'):
        m = re.match(r'[ \t]*#[ \t]*(\w*)(.*)$', line)
        if m:
            directives.append((m.group(1), re.sub(r'//.*$', '', m.group(2)).strip()))
        else:
            code.append(line)
    toks = tokenize('\n'.join(code))
    decls = [[]]
    depth = 0
    for t in toks:
        if t == ('p', '{'):
            depth += 1
        elif t == ('p', '}'):
            depth -= 1
        if t == ('p', ';') and depth == 0:
            decls.append([])
        else:
            decls[-1].append(t)
    return [d for d in decls if d], directives


def typedef_type(toks, known):
    """(atomic?, (kind, size, unsigned)) of `typedef <toks-without-the-name>`; `known` = earlier typedef names -> such pairs.
    Accepts the qualifier in any position and the specifier form _Atomic(T), the way declspec does (C16 R16.6 decides that both
    spellings set is_atomic). A declarator with `*` makes a (non-atomic) pointer."""
    toks = list(toks)
    is_at = False
    words = []
    base = None
    i = 0
    while i < len(toks):
        t = toks[i]
        if t == ('p', '*'):
            if any(x != ('p', '*') and x not in (('id', 'const'), ('id', 'volatile'), ('id', 'restrict')) for x in toks[i:]):
                raise NotInSubset('declarator')
            return False, ('ptr', 8, True)
        if t[0] != 'id':
            raise NotInSubset('token %r in a typedef' % (t[1],))
        if t[1] == '_Atomic' and i + 1 < len(toks) and toks[i + 1] == ('p', '('):
            d = 0; j = i + 1
            while j < len(toks):
                if toks[j] == ('p', '('):
                    d += 1
                elif toks[j] == ('p', ')'):
                    d -= 1
                    if d == 0:
                        break
                j += 1
            if j >= len(toks) or base is not None or words:
                raise NotInSubset('_Atomic( ) specifier')
            _, base = typedef_type(toks[i + 2:j], known)
            is_at = True
            i = j + 1; continue
        if t[1] == '_Atomic':
            is_at = True
        elif t[1] in ('const', 'volatile'):
            pass
        elif t[1] in ('char', 'short', 'int', 'long', 'signed', 'unsigned', '_Bool'):
            words.append(t[1])
        elif t[1] in known and base is None and not words:
            a, base = known[t[1]]
            is_at = is_at or a
        else:
            raise NotInSubset('type specifier %s' % t[1])
        i += 1
    if words:
        if base is not None:
            raise NotInSubset('two type specifiers')
        uns = 'unsigned' in words
        core = sorted(x for x in words if x not in ('signed', 'unsigned', 'int'))
        if core == [] :
            base = ('int', 4, uns)
        elif core == ['char']:
            base = ('int', 1, uns)
        elif core == ['short']:
            base = ('int', 2, uns)
        elif core in (['long'], ['long', 'long']):
            base = ('int', 8, uns)
        elif core == ['_Bool'] and len(words) == 1:
            base = ('bool', 1, True)
        else:
            raise NotInSubset('type %s' % ' '.join(words))
    if base is None:
        raise NotInSubset('no type specifier')
    return is_at, base
