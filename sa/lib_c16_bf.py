"""C16 R16.14: a bit-field store is a plain load / merge / store of a whole storage unit. It is harmless for the indivisible updates of the
neighbouring members only if the bytes it rewrites belong to the bit-field's own memory location (C11 3.14: a maximal sequence of adjacent
non-zero-width bit-fields is ONE location; every other member, and what follows a zero-width bit-field, is a distinct one). If the rewritten
unit contains a byte of another member - e.g. of an _Atomic counter - an update another thread performs on that member between the unit's load
and store is undone, however indivisible that update is.

Two facts are combined:
  * layout: struct_decl (parse.c) is interpreted on a catalogue of concrete member sequences (struct_union_decl cut by contract: it returns the
    member list), giving offset / bit_offset of every member;
  * accessor width: the width of the one store instruction gen_expr (codegen.c) emits for an assignment to a bit-field of each declared type
    (term machine over the emitted code, machinery of C04 R04.2).
"""
from .build import AnalysisBroken
from .interp import Interp, Obj, View, _Ref, _ValPlace
from .lib_types import Types, SIZE, UNS

# (declared type, bit width or None for an ordinary member, _Atomic)
LAYOUTS = {
    'atomic-uchar+int:3': (False, [('uchar', None, 1), ('int', 3, 0)]),
    'int:3+atomic-uchar': (False, [('int', 3, 0), ('uchar', None, 1)]),
    'atomic-uchar+short:8': (False, [('uchar', None, 1), ('short', 8, 0)]),
    'char+long:5': (False, [('char', None, 0), ('long', 5, 0)]),
    'ulong:5+atomic-short': (False, [('ulong', 5, 0), ('short', None, 1)]),
    'atomic-int+int:3': (False, [('int', None, 1), ('int', 3, 0)]),
    'int:3+atomic-int': (False, [('int', 3, 0), ('int', None, 1)]),
    'atomic-uchar+char:3': (False, [('uchar', None, 1), ('char', 3, 0)]),
    'atomic-uchar+short:9': (False, [('uchar', None, 1), ('short', 9, 0)]),
    'atomic-long+long:33+atomic-long': (False, [('long', None, 1), ('long', 33, 0), ('long', None, 1)]),
    'uint:3+uint:7+atomic-ushort': (False, [('uint', 3, 0), ('uint', 7, 0), ('ushort', None, 1)]),
    'packed:atomic-uchar+int:3': (True, [('uchar', None, 1), ('int', 3, 0)]),
    'packed:atomic-int+uchar:4+atomic-int': (True, [('int', None, 1), ('uchar', 4, 0), ('int', None, 1)]),
    'int:3+char:0+int:3': (False, [('int', 3, 0), ('char', 0, 0), ('int', 3, 0)]),
    'int:3+int:0+int:3': (False, [('int', 3, 0), ('int', 0, 0), ('int', 3, 0)]),
}


def store_widths(cg):
    """{declared type: width in bytes of the store of a bit-field assignment} or raises AnalysisBroken"""
    from .lib_sem import run_paths
    from .rules.c04 import bitfield_node
    out = {}
    for cat in ('char', 'uchar', 'short', 'ushort', 'int', 'uint', 'long', 'ulong', 'bool'):
        ws = set()
        for ctx, tr, finals, cats, it in run_paths(cg, 'gen_expr', bitfield_node(cg, cat, 'ND_ASSIGN')):
            if isinstance(finals, Exception):
                raise AnalysisBroken('bit-field assignment to %s not interpretable: %s' % (cat, finals))
            for s in finals:
                if not s.stores:
                    ws.add(0)
                for addr, sw, val, kind in s.stores:
                    if addr != ('addr', ('r', 'lhs&', 64), 0):
                        raise AnalysisBroken('bit-field assignment to %s stores to %r, not to the member address (see C04 R04.2)' % (cat, addr))
                    ws.add(sw // 8)
        if len(ws) != 1:
            raise AnalysisBroken('bit-field assignment to %s: store widths %s' % (cat, sorted(ws)))
        out[cat] = ws.pop()
    return out


def layout(P, pu, T, packed, members):
    """interpret struct_decl on the member sequence -> [(decl, width, atomic, offset, bit_offset, size)]"""
    E = pu.enums
    box = {}

    def cut_sud(it, ctx, call, args):
        if args and isinstance(args[0], _Ref):
            args[0].place.set(it, Obj('Token', lazy=True, label='after-declaration'))
        it.ctx = ctx
        ms = []
        for i, (decl, width, atomic) in enumerate(members):
            ty = T.make(it, decl)
            if atomic:
                ty = it.call_fn(*it.find_def('copy_type'), [ty])
                ty.fields['is_atomic'] = 1
            named = not (width == 0 and width is not None)
            m = Obj('Member', lazy=False, label='m%d' % i, fields={
                'ty': ty, 'align': 1 if packed else ty.fields.get('align'), 'is_bitfield': 0 if width is None else 1, 'bit_width': width or 0,
                'name': Obj('Token', lazy=True, label='m%d.name' % i) if named else 0, 'tok': Obj('Token', lazy=True, label='m%d.tok' % i),
                'idx': i, 'offset': 0, 'bit_offset': 0, 'next': 0})
            if ms:
                ms[-1].fields['next'] = m
            ms.append(m)
        box['ms'] = ms
        t = Obj('Type', lazy=False, label='struct', fields={'kind': E.get('TY_STRUCT', 0), 'size': 0, 'align': 1, 'members': ms[0], 'is_packed': 1 if packed else 0,
                                                            'is_flexible': 0, 'is_atomic': 0, 'is_unsigned': 0, 'base': 0, 'origin': 0, 'name': 0, 'name_pos': 0})
        return t
    from .lib_c16_qual import COPY_MODELS
    it = Interp(P, pu, {'cut': {'struct_union_decl': cut_sud}, 'models': dict(COPY_MODELS), 'opaque': ['error_tok']})
    paths = it.explore('struct_decl', lambda ctx: [_Ref(_ValPlace(0)), Obj('Token', lazy=True, label='tok')], max_paths=20)
    rets = [(ctx, o) for ctx, o in paths if o[0] == 'ret']
    if len(rets) != 1 or 'ms' not in box:
        raise AnalysisBroken('struct_decl has %d returning paths on a concrete member list' % len(rets))
    out = []
    for m, (decl, width, atomic) in zip(box['ms'], members):
        off, bo = m.fields.get('offset'), m.fields.get('bit_offset')
        ty = m.fields.get('ty')
        sz = ty.fields.get('size') if isinstance(ty, Obj) else None
        if not all(isinstance(v, int) for v in (off, bo, sz)):
            raise AnalysisBroken('struct_decl leaves a non-concrete offset (%r, %r) for member %s' % (off, bo, m.label))
        out.append((decl, width, atomic, off, bo, sz))
    return out


def locations(lay):
    """C11 3.14 memory locations of the laid-out members: [(name, set of bytes, [indices of the bit-fields in it])]"""
    locs = []
    run = None
    for i, (decl, width, atomic, off, bo, sz) in enumerate(lay):
        if width is None:
            run = None
            locs.append(('%smember %d (%s)' % ('_Atomic ' if atomic else '', i, decl), set(range(off, off + sz)), [], atomic))
        elif width == 0:
            run = None
        else:
            lo, hi = off * 8 + bo, off * 8 + bo + width
            by = set(range(lo // 8, (hi + 7) // 8))
            if run is None:
                run = ('bit-field sequence starting at member %d' % i, set(), [], False)
                locs.append(run)
            run[1].update(by)
            run[2].append(i)
    return locs


def r_bitfield_store_unit(P, cg, rep, rule):
    pu = P.unit('parse.c')
    if 'struct_decl' not in pu.functions:
        raise AnalysisBroken('parse.c: struct_decl vanished')
    where = 'parse.c:%d' % pu.fn('struct_decl').line
    T = Types(P)
    try:
        W = store_widths(cg)
    except AnalysisBroken as e:
        rep.undecided(rule, 'codegen.c:gen_expr:bitfield-store-width', str(e), where='codegen.c:%d' % cg.cu.fn('gen_expr').line)
        return
    for name, (packed, members) in LAYOUTS.items():
        key = 'parse.c:struct_decl:bitfield-store-unit/%s' % name
        try:
            lay = layout(P, pu, T, packed, members)
        except AnalysisBroken as e:
            rep.undecided(rule, key, 'struct_decl not interpretable on this member list: %s' % e, where=where)
            continue
        except Exception as e:
            rep.undecided(rule, key, 'struct_decl not interpretable on this member list: %s: %s' % (type(e).__name__, e), where=where)
            continue
        locs = locations(lay)
        bad = []
        for li, (lname, lbytes, fields, _) in enumerate(locs):
            for i in fields:
                decl, width, atomic, off, bo, sz = lay[i]
                w = W.get(decl)
                if w is None:
                    rep.undecided(rule, key, 'no store width known for a bit-field of type %s' % decl, where=where)
                    bad = None
                    break
                unit = set(range(off, off + w))
                for lj, (oname, obytes, _, oatomic) in enumerate(locs):
                    if lj != li and unit & obytes:
                        bad.append('the store to the %s:%d bit-field (member %d, bits %d..%d of the unit at offset %d) rewrites the %d bytes [%d, %d), which include byte(s) %s of %s' % (
                            decl, width, i, bo, bo + width - 1, off, w, off, off + w, sorted(unit & obytes), oname))
            if bad is None:
                break
        if bad is None:
            continue
        rep.ob(rule, key, not bad, 'struct { %s }%s: %s: a concurrent update of that member (indivisible or not) between the load and the store of the unit is lost (C11 3.14: a bit-field and a neighbouring member are distinct memory locations)' % (
            '; '.join('%s%s%s' % ('_Atomic ' if a else '', d, '' if w is None else ' :%d' % w) for d, w, a in members), ' packed' if packed else '', '; '.join(bad[:2])),
            where=where, facts={'layout': [list(x) for x in lay], 'store-width': W})
