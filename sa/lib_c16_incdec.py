"""C16 R16.13 / R16.14: the *meaning* of the trees the parser builds for ++/-- (prefix and postfix, through unary()/postfix()) and for `A op= B`
(through to_assign) on an _Atomic object, under interference.

The operand is a concrete atomic lvalue (variable, dereference, member) of every scalar type (incl. _Bool, enum, pointer, float, double); the
arms of the parser and the lowering helpers run for real (machinery of C01 R01.15: sa/lib_c01unary.Builder), add_type types the result. The typed
tree is then run by a reference evaluator of the node language in which ANOTHER THREAD may overwrite the atomic object immediately before any
access this thread makes to it (a finite set of schedules, incl. none). Required, for every boundary value of the object and every schedule:

  * the thread writes the object only through the indivisible primitives (ND_CAS success / ND_EXCH), exactly once;
  * with h the value the object held at the moment that exchange took effect, the value installed is conv_T(h op k)
    (C11 6.5.2.4p2, 6.5.3.1, 6.5.16.2; wrap-around for signed types, 7.17.7.5p3);
  * the value of a postfix expression is h itself (for every type: the conversion to T is not invertible for _Bool and floating types, so h cannot be
    recomputed from the installed value), the value of a prefix expression / compound assignment is the installed value;
  * the retry loop terminates once the interference stops.

A tree with a node kind the evaluator does not know is undecided, never a violation."""
import struct
from .interp import Obj, View
from .build import AnalysisBroken
from .lib_types import SIZE, FPR, promote, common
from .lib_c01unary import Builder, Evaluator, NotEvaluable, UnwrittenRead, conv, boundary_values, typed, c_type_of

SHAPES = ('ND_VAR', 'ND_DEREF', 'ND_MEMBER')
TYPES = ('bool', 'char', 'uchar', 'short', 'ushort', 'int', 'uint', 'long', 'ulong', 'enum', 'ptr', 'float', 'double')
LOOP_LIMIT = 8
PTR_ELEM = 8


class Livelock(Exception):
    pass


def rep_bits(t, v):
    """object representation of a value of type t (what cmpxchg compares)"""
    if isinstance(v, tuple):
        return v
    if t == 'float':
        return struct.pack('<f', v)
    if t == 'double':
        return struct.pack('<d', v)
    if t == 'bool':
        return conv('uchar', v)
    return conv(t if t != 'ptr' else 'ulong', v)


class AtomicBuilder(Builder):
    """operand: an _Atomic lvalue of the given shape"""

    def __init__(self, P, shape):
        Builder.__init__(self, P)
        self.shape = shape

    def atomic_type(self, it, decl):
        T = self.T
        ty = it.call_fn(*it.find_def('pointer_to'), [T.make(it, 'long')]) if decl == 'ptr' else T.make(it, decl)
        ty = it.call_fn(*it.find_def('copy_type'), [ty])
        ty.fields['is_atomic'] = 1
        return ty

    def operand(self, it, decl, width):
        E, T = self.E, self.T
        tok = Obj('Token', lazy=True, label='A.tok')
        ty = self.atomic_type(it, decl)
        if self.shape == 'ND_VAR':
            var = Obj('Obj', lazy=False, label='A.var', fields={'ty': ty, 'is_local': 1})
            return Obj('Node', lazy=False, label='A', fields={'kind': E['ND_VAR'], 'ty': ty, 'tok': tok, 'var': var})
        if self.shape == 'ND_DEREF':
            pty = it.call_fn(*it.find_def('pointer_to'), [ty])
            pvar = Obj('Obj', lazy=False, label='P.var', fields={'ty': pty, 'is_local': 1})
            p = Obj('Node', lazy=False, label='P', fields={'kind': E['ND_VAR'], 'ty': pty, 'tok': tok, 'var': pvar})
            return Obj('Node', lazy=False, label='A', fields={'kind': E['ND_DEREF'], 'ty': ty, 'tok': tok, 'lhs': p})
        sty = Obj('Type', lazy=False, label='struct S', fields={'kind': E['TY_STRUCT'], 'size': 16, 'align': 8, 'is_unsigned': 0, 'base': 0, 'is_atomic': 0})
        svar = Obj('Obj', lazy=False, label='S.var', fields={'ty': sty, 'is_local': 1})
        base = Obj('Node', lazy=False, label='S', fields={'kind': E['ND_VAR'], 'ty': sty, 'tok': tok, 'var': svar})
        mem = Obj('Member', lazy=False, label='A.member', fields={'ty': ty, 'is_bitfield': 0, 'bit_width': 0, 'bit_offset': 0, 'offset': 8, 'idx': 1, 'align': 8, 'next': 0})
        sty.fields['members'] = mem
        return Obj('Node', lazy=False, label='A', fields={'kind': E['ND_MEMBER'], 'ty': ty, 'tok': tok, 'lhs': base, 'member': mem})


class ConcEval(Evaluator):
    """reference evaluator with one shared atomic object: `schedule` {n: value} lets another thread store `value` immediately before the n-th access
    this thread makes to the object"""

    def __init__(self, it, T, E, schedule, tcache=None):
        Evaluator.__init__(self, it, T, E)
        self.aplace = None
        self.atype = None
        self.schedule = schedule
        self.access = 0
        self.log = []
        self._tn = tcache if tcache is not None else {}

    def tname(self, n):
        ty = n.fields.get('ty')
        k = id(ty)
        if k not in self._tn:
            self._tn[k] = Evaluator.tname(self, n)
        return self._tn[k]

    def touch(self):
        self.access += 1
        if self.access in self.schedule:
            self.mem[self.aplace] = self.schedule[self.access]

    def pointee_type(self, n):
        ty = n.fields.get('ty')
        ty = self.it.settle(ty) if isinstance(ty, View) else ty
        b = ty.fields.get('base') if isinstance(ty, Obj) else None
        b = self.it.settle(b) if isinstance(b, View) else b
        if not isinstance(b, Obj):
            raise NotEvaluable('%s operand whose type is not a pointer to an object type' % self.kind(n))
        c = self.T.classify(self.it, b)
        if c not in SIZE and c not in FPR and c != 'ptr':
            raise NotEvaluable('indivisible primitive on an object of type %s' % c)
        return c

    def load(self, n):
        p = self.place(n)
        if p == self.aplace:
            self.touch()
            self.log.append(('read', self.mem.get(p)))
        if p not in self.mem:
            raise UnwrittenRead()
        return self.mem[p]

    def ref(self, n, what):
        r = self.eval(n)
        if not (isinstance(r, tuple) and r[0] == 'ref'):
            raise NotEvaluable('%s is %r, not the address of an object' % (what, r))
        return r[1]

    def eval(self, n):
        n = self.node(n)
        k = self.kind(n)
        if k == 'ND_ASSIGN':
            lhs = self.node(n.fields.get('lhs'))
            if self.kind(lhs) == 'ND_MEMBER' and self.bitfield(lhs):
                raise NotEvaluable('bit-field store')
            v = self.eval(n.fields.get('rhs'))
            p = self.place(lhs)
            lt = self.tname(lhs)
            if isinstance(v, tuple) or lt in FPR or isinstance(v, float):
                nv = conv(lt, v)
            else:
                nv = conv(lt, v) if lt != 'bool' else conv('uchar', v)
            if p == self.aplace:
                self.touch()
                self.log.append(('store', self.mem.get(p), nv))
            self.mem[p] = nv
            return v
        if k == 'ND_CAS':
            p = self.ref(n.fields.get('cas_addr'), 'the object operand of the compare-exchange')
            q = self.ref(n.fields.get('cas_old'), 'the expected-value operand of the compare-exchange')
            nv = self.eval(n.fields.get('cas_new'))
            t = self.pointee_type(self.node(n.fields.get('cas_addr')))
            if p == self.aplace:
                self.touch()
            if p not in self.mem or q not in self.mem:
                raise UnwrittenRead()
            cur, exp = self.mem[p], self.mem[q]
            if rep_bits(t, cur) == rep_bits(t, exp):
                new = conv(t, nv) if t != 'bool' else conv('uchar', nv)
                self.mem[p] = new
                if p == self.aplace:
                    self.log.append(('rmw', cur, new))
                return 1
            self.mem[q] = cur
            if p == self.aplace:
                self.log.append(('cas-fail', cur))
            return 0
        if k == 'ND_EXCH':
            p = self.ref(n.fields.get('lhs'), 'the object operand of the exchange')
            nv = self.eval(n.fields.get('rhs'))
            t = self.pointee_type(self.node(n.fields.get('lhs')))
            if p == self.aplace:
                self.touch()
            if p not in self.mem:
                raise UnwrittenRead()
            cur = self.mem[p]
            new = conv(t, nv) if t != 'bool' else conv('uchar', nv)
            self.mem[p] = new
            if p == self.aplace:
                self.log.append(('rmw', cur, new))
            return cur
        if k == 'ND_STMT_EXPR':
            return self.block(n.fields.get('body'), value=True)
        if k in ('ND_SHL', 'ND_SHR'):
            t = self.tname(n)
            a = conv(t, self.eval(n.fields.get('lhs')))
            b = self.eval(n.fields.get('rhs'))
            if isinstance(a, (tuple, float)) or isinstance(b, (tuple, float)) or not 0 <= b < SIZE.get(t, 0) * 8:
                raise NotEvaluable('shift outside the evaluator')
            return conv(t, a << b) if k == 'ND_SHL' else conv(t, a >> b)
        if k in ('ND_EQ', 'ND_NE', 'ND_LT', 'ND_LE'):
            a, b = self.eval(n.fields.get('lhs')), self.eval(n.fields.get('rhs'))
            if isinstance(a, tuple) or isinstance(b, tuple):
                raise NotEvaluable('comparison of references')
            return int({'ND_EQ': a == b, 'ND_NE': a != b, 'ND_LT': a < b, 'ND_LE': a <= b}[k])
        if k == 'ND_COND':
            c = self.eval(n.fields.get('cond'))
            return self.eval(n.fields.get('then') if c != 0 else n.fields.get('els'))
        if k == 'ND_LOGAND':
            return int(self.eval(n.fields.get('lhs')) != 0 and self.eval(n.fields.get('rhs')) != 0)
        if k == 'ND_LOGOR':
            return int(self.eval(n.fields.get('lhs')) != 0 or self.eval(n.fields.get('rhs')) != 0)
        if k in ('ND_DIV', 'ND_MOD') and self.tname(n) in FPR:
            a, b = self.eval(n.fields.get('lhs')), self.eval(n.fields.get('rhs'))
            if k == 'ND_MOD' or b == 0:
                raise NotEvaluable('floating %s' % k)
            return conv(self.tname(n), a / b)
        return Evaluator.eval(self, n)

    def block(self, s, value=False):
        last = None
        cnt = 0
        while s is not None and s != 0:
            s = self.node(s)
            last = self.stmt(s)
            s = s.fields.get('next')
            cnt += 1
            if cnt > 40:
                raise NotEvaluable('statement list too long')
        if value and last is None:
            raise NotEvaluable('statement expression whose last statement has no value')
        return last

    def stmt(self, s):
        k = self.kind(s)
        if k == 'ND_EXPR_STMT':
            return self.eval(s.fields.get('lhs'))
        if k == 'ND_BLOCK':
            self.block(s.fields.get('body'))
            return None
        if k == 'ND_DO':
            for _ in range(LOOP_LIMIT):
                self.stmt(self.node(s.fields.get('then')))
                if self.eval(s.fields.get('cond')) == 0:
                    return None
            raise Livelock()
        if k == 'ND_IF':
            c = self.eval(s.fields.get('cond'))
            if c != 0:
                self.stmt(self.node(s.fields.get('then')))
            elif s.fields.get('els'):
                self.stmt(self.node(s.fields.get('els')))
            return None
        raise NotEvaluable('statement kind %s' % k)


def object_values(decl):
    vs = boundary_values(decl)
    if decl == 'float':
        vs = vs + [-0.0]
    if decl == 'double':
        vs = vs + [-0.0, 1e300]
    return vs


def schedules(decl, x, small=False):
    """interference: what another thread stores, and before which access of this thread"""
    if small:
        others = [v for v in object_values(decl) if rep_bits(decl, v) != rep_bits(decl, x)]
        if not others:
            return [{}]
        w, w2 = others[0], others[-1]
        return [{}, {1: w}, {2: w}, {3: w2}, {2: w, 3: w2}, {2: w, 3: x}, {2: w2, 3: w, 4: w2}]
    others = [v for v in object_values(decl) if rep_bits(decl, v) != rep_bits(decl, x)]
    pick = []
    for v in others[:1] + others[-1:] + others[len(others) // 2:len(others) // 2 + 1]:
        if v not in pick:
            pick.append(v)
    out = [{}]
    for w in pick:
        out += [{1: w}, {2: w}, {3: w}, {4: w}]
    if pick:
        w, w2 = pick[0], pick[-1]
        out += [{2: w, 3: w2}, {2: w, 3: x}, {2: w, 3: w2, 4: w}, {2: x}, {3: w, 4: w2}]
    return out


def run_tree(B, it, tree, leaf, decl, shape, x, sched, setup=None, tcache=None):
    ev = ConcEval(it, B.T, B.E, sched, tcache)
    if shape == 'ND_DEREF':
        pv = leaf.fields['lhs'].fields['var']
        ev.mem[('var', id(pv))] = ('ref', ('obj', 'A'))
    ev.aplace = ev.place(leaf)
    ev.mem[ev.aplace] = x
    if setup:
        setup(ev)
    got = ev.eval(tree)
    return ev, got


def judge_atomic(B, it, ctx, tree, leaf, decl, shape, expect_new, yields_old, setup=None, values=None, tcache=None, small=False):
    """-> (ok, text, tag); raises NotEvaluable. expect_new(h) -> the value the update must install when the object holds h"""
    if tcache is None:
        typed(it, ctx, tree)
        tcache = {}           # type classes of the tree's Type objects (the tree outlives the cache)
    for x in (values if values is not None else object_values(decl)):
        for sched in schedules(decl, x, small):
            sd = ', another thread storing %s' % ', '.join('%r before access %d' % (v, i) for i, v in sorted(sched.items())) if sched else ''
            try:
                ev, got = run_tree(B, it, tree, leaf, decl, shape, x, sched, setup, tcache)
            except UnwrittenRead:
                return False, 'the expression reads a temporary of the lowering before anything is stored to it', 'reads-unwritten-temporary'
            except Livelock:
                return False, ('for an object holding %r%s the retry loop is still running after %d rounds although the interference has stopped: a failed exchange does not '
                               'bring the expected value up to date' % (x, sd, LOOP_LIMIT)), 'retry-loop-does-not-terminate'
            if isinstance(got, tuple):
                raise NotEvaluable('the result is a reference')
            stores = [e for e in ev.log if e[0] == 'store']
            rmws = [e for e in ev.log if e[0] == 'rmw']
            if stores:
                return False, ('the object is written by a plain store (of %r)%s: an update another thread makes between the read and the store is lost' % (stores[0][2], sd)), 'plain-store'
            if len(rmws) != 1:
                return False, 'for an object holding %r%s the expression performs %d successful indivisible updates, not exactly one' % (x, sd, len(rmws)), 'updates-%d' % min(len(rmws), 2)
            h, new = rmws[0][1], rmws[0][2]
            want_new = expect_new(h)
            if rep_bits(decl, new) != rep_bits(decl, want_new):
                return False, 'for an object holding %r%s the successful exchange replaces %r by %r; C11 prescribes %r' % (x, sd, h, new, want_new), 'stored-value'
            want = h if yields_old else want_new
            if rep_bits(decl, conv(decl if decl != 'enum' else 'int', got)) != rep_bits(decl, want) or (decl == 'bool' and got != want):
                if yields_old:
                    return False, ('for an object holding %r%s the successful exchange replaced the value %r (by %r) but the expression yields %r: the read-modify-write does not report the value it '
                                   'replaced%s' % (x, sd, h, new, got, ' (the old value is recomputed from the new one, which the conversion to the object type does not allow)' if not sched else '')), 'old-value-lost'
                return False, 'for an object holding %r%s the successful exchange installed %r but the expression yields %r' % (x, sd, new, got), 'value-not-the-installed-one'
    return True, '', None


def expect_incdec(decl, k):
    def e(h):
        if decl in FPR:
            return conv(decl, h + k)
        if decl == 'ptr':
            return conv('ulong', h + PTR_ELEM * k)
        if decl == 'bool':
            return conv('bool', h + k)
        return conv(decl if decl != 'enum' else 'int', conv(promote(decl if decl != 'enum' else 'int'), h) + k)
    return e


CNAME = {'bool': '_Bool', 'uchar': 'unsigned char', 'ushort': 'unsigned short', 'uint': 'unsigned', 'ulong': 'unsigned long', 'ptr': 'pointer'}


def r_incdec_atomic(P, rep, rule, tier='quick'):
    pu = P.unit('parse.c')
    for f in ('unary', 'postfix', 'new_inc_dec', 'to_assign'):
        if f not in pu.functions:
            raise AnalysisBroken('parse.c: %s vanished' % f)
    for fname, postfix, parsers in (('postfix', True, ('primary',)), ('unary', False, ('cast', 'unary'))):
        where = 'parse.c:%d' % pu.fn('new_inc_dec' if postfix else 'unary').line
        for shape in SHAPES:
            B = AtomicBuilder(P, shape)
            for decl in TYPES:
                base = 'parse.c:%s:atomic-%s' % (fname, 'postfix' if postfix else 'prefix')
                try:
                    trees = B.trees(fname, decl, None, parsers)
                except Exception as e:
                    rep.undecided(rule, '%s/%s/%s' % (base, shape, decl), '%s() not explorable on an _Atomic %s operand: %s' % (fname, decl, e), where=where)
                    continue
                for op, k in (('++', 1), ('--', -1)):
                    form = '%s-%s' % (base, 'increment' if k == 1 else 'decrement')
                    key = '%s/%s/%s' % (form, shape, decl)
                    src = ('x' + op) if postfix else (op + 'x')
                    cands = trees.get(op, [])
                    if len(cands) != 1:
                        if not cands:
                            rep.undecided(rule, key, '%s() has no returning path for `%s` on an _Atomic %s operand' % (fname, src, decl), where=where)
                        else:
                            rep.undecided(rule, key, '%s() has %d paths for the operator `%s`' % (fname, len(cands), op), where=where)
                        continue
                    it, ctx, tree, leaf = cands[0]
                    try:
                        ok, text, tag = judge_atomic(B, it, ctx, tree, leaf, decl, shape, expect_incdec(decl, k), postfix)
                        got_t = c_type_of(B, it, tree)
                    except NotEvaluable as e:
                        rep.undecided(rule, key, 'the tree built for `%s` on an _Atomic %s is not evaluable: %s' % (src, decl, e), where=where)
                        continue
                    except AnalysisBroken as e:
                        rep.undecided(rule, key, 'add_type not interpretable on the tree: %s' % e, where=where)
                        continue
                    except Exception as e:
                        rep.undecided(rule, key, 'the tree built for `%s` on an _Atomic %s could not be typed / evaluated: %s: %s' % (src, decl, type(e).__name__, e), where=where)
                        continue
                    want_t = 'int' if decl == 'enum' else decl
                    if ok and got_t != want_t:
                        ok, text, tag = False, 'the expression has type %s, not the type of the operand (%s)' % (got_t, want_t), 'type'
                    rep.ob(rule, key if ok else key + ':' + tag, ok, '`%s` with x an _Atomic %s (%s): %s' % (src, CNAME.get(decl, decl), shape, text), where=where)


# ------------------------------------------------------------------------------------------------ A op= B through to_assign ---
OPS = {'add': 'ND_ADD', 'sub': 'ND_SUB', 'mul': 'ND_MUL', 'div': 'ND_DIV', 'mod': 'ND_MOD', 'and': 'ND_BITAND', 'or': 'ND_BITOR', 'xor': 'ND_BITXOR', 'shl': 'ND_SHL', 'shr': 'ND_SHR'}
CSYM = {'add': '+=', 'sub': '-=', 'mul': '*=', 'div': '/=', 'mod': '%=', 'and': '&=', 'or': '|=', 'xor': '^=', 'shl': '<<=', 'shr': '>>='}


def arith(op, C, a, b):
    """a op b, both already of type C"""
    if C in FPR:
        r = {'add': lambda: a + b, 'sub': lambda: a - b, 'mul': lambda: a * b, 'div': lambda: a / b}[op]()
        return conv(C, r)
    if op in ('div', 'mod'):
        q = abs(a) // abs(b) * (1 if (a < 0) == (b < 0) else -1)
        r = q if op == 'div' else a - q * b
    else:
        r = {'add': lambda: a + b, 'sub': lambda: a - b, 'mul': lambda: a * b, 'and': lambda: a & b, 'or': lambda: a | b, 'xor': lambda: a ^ b,
             'shl': lambda: a << b, 'shr': lambda: a >> b}[op]()
    return conv(C, r)


def expect_compound(decl, op, bdecl, b):
    T_ = 'int' if decl == 'enum' else decl

    def e(h):
        if decl == 'ptr':
            return conv('ulong', h + PTR_ELEM * b * (1 if op == 'add' else -1))
        if op in ('shl', 'shr'):
            C = promote(T_)
            return conv(T_, arith(op, C, conv(C, h), b))
        C = common(T_, bdecl)
        return conv(T_, arith(op, C, conv(C, h), conv(C, b)))
    return e


def few(vs, n):
    if len(vs) <= n:
        return list(vs)
    idx = sorted({0, len(vs) - 1} | {round(i * (len(vs) - 1) / (n - 1)) for i in range(n)})
    return [vs[i] for i in idx]


def r_compound_atomic(P, rep, rule, tier='quick'):
    from .interp import Interp
    pu = P.unit('parse.c')
    for f in ('to_assign', 'new_add', 'new_sub', 'new_binary'):
        if f not in pu.functions:
            raise AnalysisBroken('parse.c: %s vanished' % f)
    where = 'parse.c:%d' % pu.fn('to_assign').line
    cases = []
    REPS = ('bool', 'uchar', 'short', 'int', 'ulong', 'enum')      # one type per class the lowering can tell apart (width class, signedness, _Bool, enum)
    for decl in TYPES:
        for shape in SHAPES:
            cases.append((decl, 'add', shape, 'int'))
        cases.append((decl, 'add', 'ND_VAR', 'int' if decl == 'ptr' else 'double' if decl in FPR else 'ulong'))
        cases.append((decl, 'sub', 'ND_VAR', 'int'))
        for op in OPS:
            if op in ('add', 'sub') or decl == 'ptr':
                continue
            if (decl in REPS) or (decl in FPR and op in ('mul', 'div')):
                cases.append((decl, op, 'ND_VAR', 'int'))
    cases = sorted(set(cases), key=cases.index)
    builders = {s: AtomicBuilder(P, s) for s in SHAPES}
    for decl, op, shape, bdecl in cases:
        B = builders[shape]
        key = 'parse.c:to_assign:atomic-%s/%s/%s/%s' % (op, shape, decl, bdecl)
        it = Interp(P, pu, {'rec_limit': 24, 'opaque': ['new_unique_name', 'error_tok'],
                            'models': {'new_lvar': lambda it_, ctx, n, a: Obj('Obj', lazy=False, label=ctx.fresh('tmp'), fields={'ty': a[1], 'name': a[0], 'is_local': 1})}})
        box = {}

        def mk(ctx, it=it, B=B, decl=decl, op=op, bdecl=bdecl, box=box):
            it.ctx = ctx
            A = B.operand(it, decl, None)
            Bn = Builder.operand(B, it, bdecl, None)
            tok = A.fields['tok']
            if op == 'add':
                b = it.call_fn(*it.find_def('new_add'), [A, Bn, tok])
            elif op == 'sub':
                b = it.call_fn(*it.find_def('new_sub'), [A, Bn, tok])
            else:
                b = it.call_fn(*it.find_def('new_binary'), [B.E[OPS[op]], A, Bn, tok])
            box.update(A=A, B=Bn)
            return [b]
        try:
            outs = [(ctx, o[1]) for ctx, o in it.explore('to_assign', mk, max_paths=64) if o[0] == 'ret']
        except Exception as e:
            rep.undecided(rule, key, 'to_assign not interpretable on a concrete operand: %s' % e, where=where)
            continue
        if len(outs) != 1:
            rep.undecided(rule, key, 'to_assign has %d returning paths on a concrete operand' % len(outs), where=where)
            continue
        ctx, tree = outs[0]
        tree = it.settle(tree) if isinstance(tree, View) else tree
        bvals = (1, 3) if op in ('shl', 'shr') else (3, -2) if bdecl == 'int' else (3, 2 ** 63 + 5) if bdecl == 'ulong' else (0.5, -3.0)
        src = 'x %s b' % CSYM[op]
        verdict = (True, '', None)
        try:
            typed(it, ctx, tree)
            tcache = {}
            for b in bvals:
                def setup(ev, b=b, Bn=box['B']):
                    ev.mem[ev.place(Bn)] = b
                verdict = judge_atomic(B, it, ctx, tree, box['A'], decl, shape, expect_compound(decl, op, bdecl, b), False, setup=setup, values=few(object_values(decl), 5), tcache=tcache, small=True)
                if not verdict[0]:
                    verdict = (False, 'with b = %r: %s' % (b, verdict[1]), verdict[2])
                    break
            got_t = c_type_of(B, it, tree)
        except NotEvaluable as e:
            rep.undecided(rule, key, 'the tree built for `%s` on an _Atomic %s is not evaluable: %s' % (src, decl, e), where=where)
            continue
        except AnalysisBroken as e:
            rep.undecided(rule, key, 'add_type not interpretable on the tree: %s' % e, where=where)
            continue
        except Exception as e:
            rep.undecided(rule, key, 'the tree built for `%s` on an _Atomic %s could not be typed / evaluated: %s: %s' % (src, decl, type(e).__name__, e), where=where)
            continue
        ok, text, tag = verdict
        want_t = 'int' if decl == 'enum' else decl
        if ok and got_t != want_t:
            ok, text, tag = False, 'the expression has type %s, not the type of the left operand (%s)' % (got_t, want_t), 'type'
        rep.ob(rule, key if ok else key + ':' + tag, ok, '`%s` with x an _Atomic %s (%s) and b of type %s: %s' % (src, CNAME.get(decl, decl), shape, bdecl, text), where=where)
