"""C16 R16.16: the generic functions of include/stdatomic.h are macros; C11 7.1.4p1 requires a library function implemented as a macro to
evaluate each of its arguments exactly once. For the atomic generic functions this is part of indivisibility itself: an object operand that
is evaluated for the first sample and evaluated again for the compare-exchange (or again in every retry) designates a different object each
time it has a side effect (`&stripe[pos++ % N]`, `next_counter()`) - the value is sampled from one object and the exchange applied to
another, the retry loop need not end and the value yielded belongs to an object that was not updated.

Decided dynamically over the expansion, not on its text: every function-like macro of the header is expanded with *calls* as arguments
(`__vc_arg0()` ...), the expansion is run by the mini evaluator of sa/lib_minic.py on a shared object under the interference schedules of
R16.5 (so that retry loops run 0, 1, 2 ... times), and every call is counted. Operands of typeof / sizeof / _Alignof are not evaluated and do
not count (the parser skips them). Per parameter: the maximum count over all runs is <= 1; object / value / expected operands of the C11
generic functions are also evaluated at least once in every run (memory_order operands and the operand of atomic_is_lock_free may stay
unevaluated)."""
from .lib_minic import parse_macros, expand, tokenize, Parser, Eval, Cell, NotInSubset

M = (1 << 64) - 1
OPS = {'+': lambda a, b: (a + b) & M, '-': lambda a, b: (a - b) & M, '|': lambda a, b: a | b, '^': lambda a, b: a ^ b, '&': lambda a, b: a & b,
       '*': lambda a, b: (a * b) & M, '<<': lambda a, b: (a << (b & 63)) & M, '>>': lambda a, b: a >> (b & 63)}


class OnceEval(Eval):
    """Eval evaluates the lvalue of an assignment several times (read for op=, then the store): an artefact of the evaluator, not of the
    program. The pointer / base / index subexpressions of the lvalue are evaluated once here and pinned as constants."""
    def pin(self, lhs, env):
        if lhs[0] == 'deref':
            return ('deref', ('const', self.ev(lhs[1], env)))
        if lhs[0] == 'index':
            return ('index', ('const', self.ev(lhs[1], env)), ('const', self.ev(lhs[2], env)))
        if lhs[0] == 'arrow':
            return ('arrow', ('const', self.ev(lhs[1], env)), lhs[2])
        return lhs

    def ev(self, e, env):
        if e[0] == 'const':
            return e[1]
        if e[0] == 'assign' and e[2][0] in ('deref', 'index', 'arrow') and e[2][1][0] != 'const':
            e = e[:2] + (self.pin(e[2], env),) + e[3:]
        return Eval.ev(self, e, env)


class Shared(Cell):
    """the atomic object; inject = values other threads store right before this thread's k-th access"""
    def __init__(self, v, inject):
        Cell.__init__(self, v, 'obj'); self.inject = dict(inject); self.n = 0

    def _tick(self):
        if self.n in self.inject:
            self.v = self.inject[self.n]
        self.n += 1

    def get(self):
        self._tick(); return self.v

    def set(self, v):
        self._tick(); self.v = v & M if isinstance(v, int) else v

    def rmw(self, op, operand):
        self._tick()
        if op not in OPS:
            raise NotInSubset('op= %s on the shared object' % op)
        self.v = OPS[op](self.v, operand & M); return self.v

    def cas(self, expected_cell, new):
        self._tick()
        if self.v == (expected_cell.get() & M):
            self.v = new & M; return 1
        expected_cell.set(self.v); return 0


# C11 7.17 (and 7.17.2.1 / 7.17.8 for the initialisers and the flag): the role of every operand of the generic functions.
#   object / value / expected: evaluated exactly once;   order / unevaluated: at most once
_RMW = ['atomic_fetch_%s' % k for k in ('add', 'sub', 'or', 'xor', 'and')]
ROLES = {'ATOMIC_VAR_INIT': ['value'], 'ATOMIC_FLAG_INIT': ['value'], 'atomic_init': ['object', 'value'], 'kill_dependency': ['value'],
         'atomic_thread_fence': ['order'], 'atomic_signal_fence': ['order'], 'atomic_is_lock_free': ['unevaluated'],
         'atomic_store': ['object', 'value'], 'atomic_store_explicit': ['object', 'value', 'order'],
         'atomic_load': ['object'], 'atomic_load_explicit': ['object', 'order'],
         'atomic_exchange': ['object', 'value'], 'atomic_exchange_explicit': ['object', 'value', 'order'],
         'atomic_flag_test_and_set': ['object'], 'atomic_flag_test_and_set_explicit': ['object', 'order'],
         'atomic_flag_clear': ['object'], 'atomic_flag_clear_explicit': ['object', 'order']}
for _m in ('atomic_compare_exchange_strong', 'atomic_compare_exchange_weak'):
    ROLES[_m] = ['object', 'expected', 'value']
    ROLES[_m + '_explicit'] = ['object', 'expected', 'value', 'order', 'order']
for _m in _RMW:
    ROLES[_m] = ['object', 'value']
    ROLES[_m + '_explicit'] = ['object', 'value', 'order']
EXACT = ('object', 'value', 'expected')

# (initial value of the object, value operand, expected value) x schedules: the retry loops run 0, 1, 2 and 3 times
SCENARIOS = [(5, 1, 5), (5, 3, 6), (0xf0, 0x3c, 0xf0), (0, 1, 0), (5, 0, 5), (0, 0, 1)]
SCHEDULES = [{}, {0: 7}, {1: 9}, {2: 11}, {1: 9, 2: 13}, {0: 3, 1: 9, 2: 13, 3: 21}, {1: 9, 2: 13, 3: 21, 4: 34}, {0: 6, 1: 5}, {0: 0}, {1: 0}, {0: 0, 1: 5, 2: 0}]


def upper_bound(n, name):
    """static upper bound (0, 1, 2 = more than once) of the number of evaluations of the call `name()` in one evaluation of the parsed tree:
    both arms of a conditional count as the larger one, anything inside a loop counts as many; operands of typeof / sizeof were dropped by the
    parser (the token lists kept in 'decl' / 'cast' nodes are not descended into)"""
    def occurs(x):
        if isinstance(x, tuple) and x and x[0] == 'call' and x[1] == name:
            return True
        if isinstance(x, tuple) and x and x[0] in ('decl', 'cast'):
            return occurs(x[2] if x[0] == 'decl' else x[1])
        if isinstance(x, tuple) and x and x[0] == 'typeop':
            return False
        return isinstance(x, (tuple, list)) and any(occurs(y) for y in x if isinstance(y, (tuple, list)))

    def ub(x):
        if x is None or not isinstance(x, (tuple, list)):
            return 0
        if isinstance(x, list):
            return min(2, sum(ub(y) for y in x))
        k = x[0] if x else None
        if k == 'call':
            return min(2, (1 if x[1] == name else 0) + ub(list(x[2])))
        if k in ('cond', 'if'):
            return min(2, ub(x[1]) + max(ub(x[2]), ub(x[3])))
        if k == 'while':
            return 2 if occurs(x[1]) or occurs(x[2]) else 0
        if k == 'dowhile':
            if x[2] == ('num', 0):
                return ub(x[1])                    # do { ... } while (0): the body runs once
            return 2 if occurs(x[1]) or occurs(x[2]) else 0
        if k == 'for':
            return 2 if occurs(x[2]) or occurs(x[3]) or occurs(x[4]) else ub(x[1])
        if k == 'decl':
            return ub(x[2])
        if k == 'cast':
            return ub(x[1])
        if k in ('typeop', 'num', 'var', 'const'):
            return 0
        return min(2, sum(ub(y) for y in x[1:] if isinstance(y, (tuple, list))))
    return ub(n)


def count_evaluations(macros, mname, roles):
    """-> [per parameter (min, max, static upper bound) of the number of evaluations over all runs]; raises NotInSubset"""
    nparams = len(roles)
    src = '%s(%s)' % (mname, ', '.join('__vc_arg%d()' % i for i in range(nparams)))
    toks = expand(tokenize(src), macros)
    lo = [None] * nparams; hi = [0] * nparams; failed = None
    if not toks:                                   # empty expansion (the fences): nothing is evaluated
        return [(0, 0, 0)] * nparams
    ps = Parser(toks + [('p', ';')], typenames=())
    e = ps.expr()
    if ps.peek() != ('p', ';'):
        raise NotInSubset('trailing tokens after the expansion of %s' % src)
    for init, val, expv in SCENARIOS:
        for inj in SCHEDULES:
            obj = Shared(init, inj)
            exp = Cell(expv, 'expected')
            counts = [0] * nparams

            def arg(i, role):
                def f():
                    counts[i] += 1
                    return obj if role in ('object', 'unevaluated') else exp if role == 'expected' else 5 if role == 'order' else val
                return f

            def b_cas(p_, x_, new):
                if not isinstance(p_, Shared) or not isinstance(x_, Cell):
                    raise NotInSubset('compare-exchange operands')
                return p_.cas(x_, new)

            def b_xchg(p_, new):
                if not isinstance(p_, Shared):
                    raise NotInSubset('exchange operands')
                p_._tick(); old = p_.v; p_.v = new & M; return old
            builtins = {'__builtin_compare_and_swap': b_cas, '__builtin_atomic_exchange': b_xchg, 'sizeof': lambda words: 8, '_Alignof': lambda words: 8}
            for i, role in enumerate(roles):
                builtins['__vc_arg%d' % i] = arg(i, role)
            try:
                OnceEval({}, builtins=builtins).ev(e, {})
            except NotInSubset as x:
                # the run was abandoned (e.g. a retry loop that does not end): the evaluations counted so far did happen
                failed = failed or x
                for i in range(nparams):
                    hi[i] = max(hi[i], counts[i])
                continue
            for i in range(nparams):
                lo[i] = counts[i] if lo[i] is None else min(lo[i], counts[i])
                hi[i] = max(hi[i], counts[i])
    if failed is not None and max(hi) <= 1:
        raise failed
    return [(1 if lo[i] is None else lo[i], hi[i], upper_bound(e, '__vc_arg%d' % i)) for i in range(nparams)]


def r_operands_once(P, rep, rule):
    where = 'include/stdatomic.h'
    try:
        macros = parse_macros(open(P.header('include/stdatomic.h')).read())
    except NotInSubset as e:
        rep.undecided(rule, 'stdatomic.h:macros', 'header macros not parseable: %s' % e, where=where); return
    for mname in sorted(macros):
        params = macros[mname][0]
        if not params or mname.startswith('__'):
            continue                               # object-like, no operands, or an internal helper (reached through its public users)
        known = mname in ROLES
        roles = ROLES.get(mname)
        if known and len(roles) != len(params):
            rep.ob(rule, 'stdatomic.h:%s:operands' % mname, False, '%s takes %d operands, C11 7.17 gives it %d' % (mname, len(params), len(roles)), where=where); continue
        if not known:
            roles = ['object'] + ['value'] * (len(params) - 1)
        try:
            cnt = count_evaluations(macros, mname, roles)
        except (NotInSubset, TypeError, AttributeError, ValueError, KeyError, RecursionError) as e:
            if known:
                rep.undecided(rule, 'stdatomic.h:%s:operands' % mname, 'macro outside the evaluated C subset: %s' % e, where=where)
            continue                               # a macro C11 does not define and the evaluator cannot run: not a generic function
        for i, role in enumerate(roles):
            lo, hi, ub = cnt[i]
            tag = 'operand%d-%s' % (i + 1, role if known else 'arg')
            key = 'stdatomic.h:%s:%s-evaluated-once' % (mname, tag)
            if hi > 1:
                rep.ob(rule, key + ':evaluated-more-than-once', False,
                       '%s evaluates its operand %d (`%s`) up to %d times in one invocation (once more per access / per retry of its loop): C11 7.1.4p1 a macro evaluates each argument exactly once. With a side effect in the operand (`&stripe[pos++ %% N]`, `next()`) the side effect is repeated and the accesses of the one operation go to different objects: the value is sampled from one object and the compare-exchange applied to another'
                       % (mname, i + 1, params[i], hi), where=where)
            elif known and role in EXACT and lo < 1:
                rep.ob(rule, key + ':not-evaluated', False,
                       '%s does not evaluate its operand %d (`%s`) in some invocation: C11 7.1.4p1 a macro evaluates each argument exactly once (the side effects of the operand are lost)' % (mname, i + 1, params[i]), where=where)
            elif ub > 1:
                rep.undecided(rule, key, '%s: operand %d (`%s`) occurs in evaluated position on several paths / inside a loop of the expansion, but no run of the schedule set evaluated it twice' % (mname, i + 1, params[i]), where=where)
            else:
                rep.ob(rule, key, True, '', where=where)
