"""C16 R16.11: the _Atomic qualifier survives every derivation of a type (private helper of sa/rules/c16.py).

`is_atomic` on the type of an lvalue is the ONLY thing that routes `A op= B`, ++ and -- to the compare-exchange loop (R16.1). R16.6 decides that
the two spellings of the qualifier set it in declspec; this rule decides that nothing between the declaration and the lvalue loses it again:

 * type.c: copy_type keeps it; pointer_to / array_of / vla_of keep the atomic type as their base; add_type gives an lvalue expression
   (variable, member, dereference of a pointer or array, element access through pointer arithmetic) and the pointer made by & the atomic type;
 * parse.c: a type NAMED through typeof(type-name), typeof(expression), a typedef name, or a pointer declarator is the atomic type
   (declspec / declarator interpreted on concrete token sequences);
 * no unit stores a constant false into the is_atomic field of a type (the qualifier is only ever added).
"""
from .build import AnalysisBroken
from .interp import Obj, View, Interp, _Ref, _ValPlace
from .lib_types import Types

RULE = 'R16.11'
BASES = ('int', 'long', 'char', 'uchar', 'double')


def m_copy_object(it, ctx, call, args):
    """memcpy/memmove(dst, src, sizeof(<the struct>)) between two struct objects = struct assignment `*dst = *src`"""
    d, s_ = (it.settle(a) if isinstance(a, View) else a for a in args[:2])
    sz = call.args()[2].strip_all() if len(call.args()) == 3 else None
    if not (isinstance(d, Obj) and isinstance(s_, Obj) and d.tname == s_.tname) or sz is None or sz.kind != 'UnaryExprOrTypeTraitExpr':
        raise AnalysisBroken('%s() that is not a whole-object copy between two %s objects' % (call.callee(), getattr(d, 'tname', '?')))
    d.fields.update(s_.fields)
    return d


COPY_MODELS = {'memcpy': m_copy_object, 'memmove': m_copy_object}


def _settle(it, v):
    return it.settle(v) if isinstance(v, View) else v


def _sig(it, t):
    f = t.fields
    return tuple(_settle(it, f.get(k, 0)) or 0 for k in ('kind', 'size', 'is_unsigned'))


def _atomic_like(it, t, A):
    """None if t is the atomic type A or a type that carries is_atomic with A's kind/size/signedness, else what is wrong"""
    t = _settle(it, t)
    if not isinstance(t, Obj) or t.tname != 'Type':
        return 'not-a-type', 'is %r, not a type' % (t,)
    if t is A:
        return None if _settle(it, A.fields.get('is_atomic', 0)) else ('qualifier-cleared-in-place', 'is the atomic type object itself, but its is_atomic flag has been cleared in place')
    if not _settle(it, t.fields.get('is_atomic', 0)):
        return 'qualifier-lost', 'does not carry is_atomic'
    if _sig(it, t) != _sig(it, A):
        return 'other-type', 'is atomic but differs from the atomic type it is derived from in kind/size/signedness'
    return None


LOST = ': `A op= B`, ++ and -- on an lvalue of that type are then compiled as a plain load, the operation and a plain store - concurrent updates are lost'


def _type_c(P, rep):
    T = Types(P)
    E = T.E
    tu = T.tu
    for f in ('copy_type', 'pointer_to', 'array_of', 'vla_of', 'add_type'):
        if f not in tu.functions:
            raise AnalysisBroken('type.c: %s vanished' % f)
    where = lambda f: 'type.c:%d' % tu.fn(f).line

    def atomic(it, tname):
        a = it.call_fn(*it.find_def('copy_type'), [T.make(it, tname)])
        a.fields['is_atomic'] = 1
        return a

    def single(it, fn, mk, key):
        try:
            paths = it.explore(fn, mk)
        except AnalysisBroken:
            raise
        except Exception as e:
            rep.undecided(RULE, key, '%s not interpretable: %s' % (fn, e), where=where(fn)); return None
        outs = [(ctx, o) for ctx, o in paths if o[0] == 'ret']
        if len(outs) != 1:
            rep.undecided(RULE, key, '%s has %d returning paths on a concrete atomic type (%d paths end in an error)' % (fn, len(outs), len(paths) - len(outs)), where=where(fn)); return None
        return outs[0]

    for tname in BASES:
        # constructors
        for ctor, extra, what in (('copy_type', (), 'the copy of an _Atomic %s'), ('pointer_to', (), 'the pointee of a pointer to _Atomic %s'),
                                  ('array_of', (3,), 'the element type of an array of _Atomic %s'), ('vla_of', ('len',), 'the element type of a variable-length array of _Atomic %s')):
            it = T.interp(opaque=['error_tok'], rec_limit=4, models=dict(COPY_MODELS))
            box = {}

            def mk(ctx, it=it, tname=tname, extra=extra, box=box):
                it.ctx = ctx
                box['A'] = atomic(it, tname)
                return [box['A']] + [Obj('Node', lazy=True, label='len') if x == 'len' else x for x in extra]
            key = 'type.c:%s:keeps-atomic/%s' % (ctor, tname)
            r = single(it, ctor, mk, key)
            if r is None:
                continue
            ctx, out = r
            it.ctx = ctx
            t = _settle(it, out[1])
            if ctor != 'copy_type':
                t = t.fields.get('base') if isinstance(t, Obj) else None
            bad = _atomic_like(it, t, box['A'])
            rep.ob(RULE, key + (':' + bad[0] if bad else ''), bad is None, '%s %s%s' % (what % tname, bad[1] if bad else '', LOST), where=where(ctor))
            # the argument must stay atomic too (a constructor that strips its argument in place damages every other user of the type)
            a_ok = bool(_settle(it, box['A'].fields.get('is_atomic', 0)))
            rep.ob(RULE, 'type.c:%s:argument-stays-atomic/%s%s' % (ctor, tname, '' if a_ok else ':cleared'), a_ok, '%s clears is_atomic on the type it is given%s' % (ctor, LOST), where=where(ctor))

        # add_type on the lvalue shapes
        def leaf(it, ty, label):
            n = Obj('Node', lazy=False, label=label)
            n.fields.update({'kind': E['ND_VAR'], 'ty': ty, 'tok': Obj('Token', lazy=True, label='tok')})
            return n

        def ptr(it, a):
            return it.call_fn(*it.find_def('pointer_to'), [a])

        def arr(it, a):
            return it.call_fn(*it.find_def('array_of'), [a, 4])

        def n_var(it, a):
            n = Obj('Node', lazy=False, label='node'); n.fields.update({'kind': E['ND_VAR'], 'tok': Obj('Token', lazy=True, label='tok')})
            n.fields['var'] = Obj('Obj', lazy=False, label='var', fields={'ty': a})
            return n, 'self'

        def n_member(it, a):
            n = Obj('Node', lazy=False, label='node'); n.fields.update({'kind': E['ND_MEMBER'], 'tok': Obj('Token', lazy=True, label='tok')})
            n.fields['lhs'] = leaf(it, T.make(it, 'long'), 'base')
            n.fields['member'] = Obj('Member', lazy=False, label='member', fields={'ty': a})
            return n, 'self'

        def n_unary(kind, operand, expect):
            def f(it, a):
                n = Obj('Node', lazy=False, label='node'); n.fields.update({'kind': E[kind], 'tok': Obj('Token', lazy=True, label='tok')})
                n.fields['lhs'] = leaf(it, operand(it, a), 'operand')
                return n, expect
            return f

        def n_index(operand):
            def f(it, a):
                add = Obj('Node', lazy=False, label='add'); add.fields.update({'kind': E['ND_ADD'], 'tok': Obj('Token', lazy=True, label='tok')})
                add.fields['lhs'] = leaf(it, operand(it, a), 'p'); add.fields['rhs'] = leaf(it, T.make(it, 'long'), 'i')
                n = Obj('Node', lazy=False, label='node'); n.fields.update({'kind': E['ND_DEREF'], 'tok': add.fields['tok'], 'lhs': add})
                return n, 'self'
            return f

        def n_comma(it, a):
            n = Obj('Node', lazy=False, label='node'); n.fields.update({'kind': E['ND_COMMA'], 'tok': Obj('Token', lazy=True, label='tok')})
            n.fields['lhs'] = leaf(it, T.make(it, 'int'), 'l'); n.fields['rhs'] = leaf(it, a, 'r')
            return n, 'self'
        SHAPES = (('ND_VAR', n_var, 'a variable declared _Atomic %s'), ('ND_MEMBER', n_member, 'a member declared _Atomic %s'),
                  ('ND_DEREF/pointer', n_unary('ND_DEREF', ptr, 'self'), '*p with p a pointer to _Atomic %s'),
                  ('ND_DEREF/array', n_unary('ND_DEREF', arr, 'self'), '*a with a an array of _Atomic %s'),
                  ('ND_DEREF/pointer+index', n_index(ptr), 'p[i] with p a pointer to _Atomic %s'),
                  ('ND_DEREF/array+index', n_index(arr), 'a[i] with a an array of _Atomic %s'),
                  ('ND_ADDR/object', n_unary('ND_ADDR', lambda it, a: a, 'base'), 'the pointee of &x with x an _Atomic %s'),
                  ('ND_ADDR/array', n_unary('ND_ADDR', arr, 'base'), 'the pointee of &a with a an array of _Atomic %s'),
                  ('ND_COMMA', n_comma, '(e, x) with x an _Atomic %s'))
        for sname, build, what in SHAPES:
            if sname.split('/')[0] not in E:
                raise AnalysisBroken('type.c: node kind %s vanished' % sname.split('/')[0])
            it = T.interp(opaque=['error_tok'], rec_limit=4, models=dict(COPY_MODELS))
            box = {}

            def mk(ctx, it=it, build=build, box=box, tname=tname):
                it.ctx = ctx
                box['A'] = atomic(it, tname)
                box['n'], box['expect'] = build(it, box['A'])
                return [box['n']]
            key = 'type.c:add_type:%s/%s' % (sname, tname)
            r = single(it, 'add_type', mk, key)
            if r is None:
                continue
            ctx, out = r
            it.ctx = ctx
            t = _settle(it, box['n'].fields.get('ty'))
            if box['expect'] == 'base':
                t = _settle(it, t.fields.get('base')) if isinstance(t, Obj) else None
            bad = _atomic_like(it, t, box['A'])
            rep.ob(RULE, key + (':' + bad[0] if bad else ''), bad is None, 'the type add_type gives %s %s%s' % (what % tname, bad[1] if bad else '', LOST), where=where('add_type'))


def _parse_c(P, rep):
    from .rules import c08
    u = P.unit('parse.c')
    for f in ('declspec', 'typeof_specifier', 'declarator'):
        if f not in u.functions:
            raise AnalysisBroken('parse.c: %s vanished' % f)
    E = u.enums
    tw = c08.TokenWorld(P, u)
    tyglob = c08.type_globals(P)
    if 'typeof' not in tw.typenames:
        rep.undecided(RULE, 'parse.c:declspec:typeof', 'typeof is not among the type-name keywords of is_typename()'); return
    where = lambda f: 'parse.c:%d' % u.fn(f).line
    TD = 'T_atomic__'          # an identifier find_typedef() resolves to the atomic type
    WORDS = {'int': ('int',), 'long': ('long',), 'char': ('char',), 'uchar': ('unsigned', 'char'), 'double': ('double',)}

    def interp(A, fn):
        m = tw.models()
        m.update(COPY_MODELS)

        def m_find_typedef(it, ctx, call, args):
            t = _settle(it, args[0])
            return A if isinstance(t, Obj) and t.fields.get('kind') == E['TK_IDENT'] and t.fields.get('loc') == TD else 0

        def m_is_typename(it, ctx, call, args, base=m['is_typename']):
            t = _settle(it, args[0])
            if isinstance(t, Obj) and t.fields.get('kind') == E['TK_IDENT'] and t.fields.get('loc') == TD:
                return 1
            return base(it, ctx, call, args)

        def m_expr(it, ctx, call, args):
            # contract cut: an expression whose type (after add_type) is the atomic type; it consumes one token
            rest, tok = args[0], _settle(it, args[1])
            if not (isinstance(rest, _Ref) and isinstance(tok, Obj)):
                raise AnalysisBroken('expr() called with unexpected arguments')
            rest.place.set(it, tok.fields.get('next'))
            return Obj('Node', lazy=False, label='E', fields={'kind': E['ND_VAR'], 'ty': A, 'tok': tok})
        m.update({'find_typedef': m_find_typedef, 'is_typename': m_is_typename, 'expr': m_expr, 'add_type': lambda it, ctx, call, args: None})
        cfg = {'models': m, 'rec_limit': 4, 'globals': {g: (lambda ctx, g=g: Obj('Type', lazy=False, label=g, fields=dict(tyglob[g]))) for g in tyglob}}
        it = c08._LocalEnumInterp(P, u, cfg)
        it.local_enums = c08._local_enums(u.fn('declspec'))
        return it

    for tname in BASES:
        g = 'ty_' + tname
        if g not in tyglob:
            raise AnalysisBroken('type.c: %s vanished' % g)
        w = WORDS[tname]
        FORMS = (('typeof-type-name/qualifier-first', ('typeof', '(', '_Atomic') + w + (')',), 'self', 'typeof(_Atomic %s)'),
                 ('typeof-type-name/qualifier-last', ('typeof', '(') + w + ('_Atomic', ')'), 'self', 'typeof(%s _Atomic)'),
                 ('typeof-type-name/specifier', ('typeof', '(', '_Atomic', '(') + w + (')', ')'), 'self', 'typeof(_Atomic(%s))'),
                 ('typeof-type-name/pointer', ('typeof', '(', '_Atomic') + w + ('*', ')'), 'base', 'the pointee of typeof(_Atomic %s *)'),
                 ('typeof-type-name/typedef', ('typeof', '(', TD, ')'), 'self', 'typeof(T), T a typedef of _Atomic %s,'),
                 ('typeof-type-name/pointer-to-typedef', ('typeof', '(', TD, '*', ')'), 'base', 'the pointee of typeof(T *), T a typedef of _Atomic %s,'),
                 ('typeof-expression', ('typeof', '(', 'E', ')'), 'self', 'typeof(x), x an lvalue of type _Atomic %s,'),
                 ('typeof-nested', ('typeof', '(', 'typeof', '(', 'E', ')', ')'), 'self', 'typeof(typeof(x)), x an lvalue of type _Atomic %s,'),
                 ('typedef-name', (TD,), 'self', 'a typedef name of _Atomic %s'),
                 ('typedef-name/const', ('const', TD), 'self', 'const T, T a typedef of _Atomic %s,'),
                 ('typedef-name/volatile-after', (TD, 'volatile'), 'self', 'T volatile, T a typedef of _Atomic %s,'))
        for fname, seq, expect, what in FORMS:
            A = Obj('Type', lazy=False, label='A', fields=dict(tyglob[g], is_atomic=1, origin=Obj('Type', lazy=False, label='A.origin', fields=dict(tyglob[g]))))   # as declspec makes it: a copy of the plain type
            it = interp(A, 'declspec')
            key = 'parse.c:declspec:%s/%s' % (fname, tname)
            rest = _ValPlace(0)
            try:
                paths = it.explore('declspec', lambda ctx: [_Ref(rest), tw.tokens(seq), Obj('VarAttr', lazy=False)], max_paths=50)
            except AnalysisBroken as e:
                rep.undecided(RULE, key, 'declspec not interpretable on `%s`: %s' % (' '.join(seq), e), where=where('declspec')); continue
            except Exception as e:
                rep.undecided(RULE, key, 'declspec not interpretable on `%s`: %s' % (' '.join(seq), e), where=where('declspec')); continue
            if len(paths) != 1 or paths[0][1][0] != 'ret':
                rep.undecided(RULE, key, 'declspec on `%s`: %d paths / no type returned' % (' '.join(seq), len(paths)), where=where('declspec')); continue
            ctx, out = paths[0]
            it.ctx = ctx
            t = _settle(it, out[1])
            if expect == 'base':
                t = _settle(it, t.fields.get('base')) if isinstance(t, Obj) else None
            bad = _atomic_like(it, t, A)
            rep.ob(RULE, key + (':' + bad[0] if bad else ''), bad is None, 'the type named by %s %s%s' % (what % ' '.join(w), bad[1] if bad else '', LOST),
                   where=where('typeof_specifier' if fname.startswith('typeof') else 'declspec'))
            if fname in ('typeof-expression', 'typedef-name'):
                a_ok = bool(A.fields.get('is_atomic'))
                rep.ob(RULE, 'parse.c:declspec:%s/%s:named-type-stays-atomic%s' % (fname, tname, '' if a_ok else ':cleared'), a_ok,
                       'naming the type through %s clears is_atomic on the type of the object itself%s' % (what % ' '.join(w), LOST), where=where('declspec'))
        # declarators over an atomic base type: `x` (the type itself), `*x`, `**x`
        for dname, seq, depth, what in (('plain', ('x', ';'), 0, '_Atomic %s x'), ('pointer', ('*', 'x', ';'), 1, 'the pointee of _Atomic %s *x'),
                                        ('pointer-to-pointer', ('*', 'const', '*', 'x', ';'), 2, 'the innermost pointee of _Atomic %s *const *x')):
            A = Obj('Type', lazy=False, label='A', fields=dict(tyglob[g], is_atomic=1, origin=Obj('Type', lazy=False, label='A.origin', fields=dict(tyglob[g]))))   # as declspec makes it: a copy of the plain type
            it = interp(A, 'declarator')
            key = 'parse.c:declarator:%s/%s' % (dname, tname)
            rest = _ValPlace(0)
            try:
                paths = it.explore('declarator', lambda ctx: [_Ref(rest), tw.tokens(seq), A], max_paths=50)
            except Exception as e:
                rep.undecided(RULE, key, 'declarator not interpretable on `%s`: %s' % (' '.join(seq), e), where=where('declarator')); continue
            if len(paths) != 1 or paths[0][1][0] != 'ret':
                rep.undecided(RULE, key, 'declarator on `%s`: %d paths / no type returned' % (' '.join(seq), len(paths)), where=where('declarator')); continue
            ctx, out = paths[0]
            it.ctx = ctx
            t = _settle(it, out[1])
            for _ in range(depth):
                t = _settle(it, t.fields.get('base')) if isinstance(t, Obj) else None
            bad = _atomic_like(it, t, A)
            rep.ob(RULE, key + (':' + bad[0] if bad else ''), bad is None, 'the type of %s %s%s' % (what % ' '.join(w), bad[1] if bad else '', LOST), where=where('declarator'))


def _under_truth_of(a, r):
    """the stored value r is a variable and the store sits in the then-branch of `if (r)`: the value stored is true"""
    if r.kind != 'DeclRefExpr':
        return False
    n = a
    for p in a.ancestors():
        if p.kind == 'IfStmt' and len(p.inner) >= 2 and p.inner[1] is n and p.inner[0].strip().kind == 'DeclRefExpr' and p.inner[0].strip().src() == r.src():
            # ... and the branch does not write the variable
            return not any(x.kind in ('BinaryOperator', 'CompoundAssignOperator', 'UnaryOperator') and x.opcode in ('=', '&=', '|=', '^=', '++', '--', '&') and x.inner and x.inner[0].strip().src() == r.src()
                           for x in p.inner[1].walk())
        n = p
    return False


def _frame(P, rep):
    """the qualifier is only ever added: no assignment anywhere stores a constant false into a field named is_atomic"""
    n = 0
    for uname in list(P.unit_names):
        try:
            u = P.unit(uname)
        except AnalysisBroken:
            if uname in ('parse.c', 'type.c'):
                raise
            continue
        for fname, fn in u.functions.items():
            for a in fn.walk():
                if a.kind not in ('BinaryOperator', 'CompoundAssignOperator') or a.opcode not in ('=', '&=', '*=', '>>=', '<<=', '^=', '-=', '%=', '/=') or len(a.inner) != 2:
                    continue
                l = a.inner[0].strip()
                if l.kind != 'MemberExpr' or l.name != 'is_atomic':
                    continue
                n += 1
                r = a.inner[1].strip_all()
                v = r.int_value()
                if a.opcode == '=' and v is not None:
                    ok = v != 0
                    rep.ob(RULE, '%s:%s:is_atomic-never-cleared%s' % (uname, fname, '' if ok else ':stores-false'), ok,
                           '`%s` removes the _Atomic qualifier from a type%s' % (a.src(), LOST), where='%s:%d' % (uname, a.line))
                elif a.opcode == '=' and any(x.kind == 'MemberExpr' and x.name == 'is_atomic' for x in r.walk()) and r.kind == 'MemberExpr':
                    rep.ob(RULE, '%s:%s:is_atomic-never-cleared' % (uname, fname), True, '', where='%s:%d' % (uname, a.line))
                elif a.opcode == '=' and _under_truth_of(a, r):
                    rep.ob(RULE, '%s:%s:is_atomic-never-cleared' % (uname, fname), True, '', where='%s:%d' % (uname, a.line))
                else:
                    rep.undecided(RULE, '%s:%s:is_atomic-never-cleared' % (uname, fname), '`%s`: the value stored into is_atomic is neither a constant nor the is_atomic flag of another type' % a.src(), where='%s:%d' % (uname, a.line))
    if n == 0:
        rep.undecided(RULE, 'parse.c:declspec:is_atomic-never-cleared', 'no assignment to an is_atomic field found in any unit (R16.6 expects the one in declspec)')


def r1611(P, rep):
    rep.rule(RULE, 'the _Atomic qualifier survives every derivation of a type: copy_type keeps it; pointer_to/array_of/vla_of keep the atomic type as base; add_type gives variables, members, dereferences, element accesses and the pointee of & the atomic type; typeof(type-name), typeof(expression), typedef names and pointer declarators name the atomic type; no assignment stores false into is_atomic - the qualifier on the type of the lvalue is the only thing that routes op=, ++ and -- to the compare-exchange loop', floor=150)
    _type_c(P, rep)
    _parse_c(P, rep)
    _frame(P, rep)
