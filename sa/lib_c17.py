"""private helpers of sa/rules/c17.py

* SlotInterp: Engine I with one extra event: every subscript of a bucket array is judged, at the moment of the access and with
  the facts the path has established so far, to lie inside the array or not.
* symbolic command-line words: models of strcmp/strncmp and of character reads over argv elements whose characters are unknown,
  with the knowledge the path gathers kept in the ordinary ctx.bounds / ctx.neq / ctx.facts tables.
"""
from .interp import Interp, Obj, Sym, Term, Lin, View, ElemPlace, Infeasible, vkey, is_opaque


# ------------------------------------------------------------------------------------------------ bucket subscripts ---
class SlotInterp(Interp):
    """records ('slot', array object, index value, verdict, shape) for every `buckets[index]`;
    verdict: 'ok' (index proven < capacity of the owning map), 'bad' (a value >= capacity or < 0 is admitted by the path), 'unk'"""

    def place(self, n, env):
        p = Interp.place(self, n, env)
        m = n.strip() if n.kind == 'ParenExpr' else n
        if m.kind == 'ArraySubscriptExpr' and isinstance(p, ElemPlace) and isinstance(p.arr, Obj):
            verdict, shape = self.judge(p.arr, p.i)
            self.ctx.emit('slot', p.arr, p.i, verdict, shape)
        return p

    def owner(self, arr):
        for m in getattr(self.ctx, 'c17_maps', ()):
            b = m.fields.get('buckets')
            if isinstance(b, View):
                b = self.settle(b)
            if b is arr:
                return m
        return None

    def judge(self, arr, i):
        ctx = self.ctx
        m = self.owner(arr)
        if m is None:
            return 'unk', 'array-of-unknown-table'
        cap = m.fields.get('capacity')
        if cap is None:
            return ('bad', 'index-unrelated-to-capacity') if not m.lazy else ('unk', 'capacity-never-read')
        if isinstance(cap, View):
            cap = self.settle(cap)
        capk = vkey(cap)
        lo = cap if isinstance(cap, int) else (ctx.bounds.get(capk) or [None, None])[0]
        if isinstance(i, bool):
            i = int(i)
        if isinstance(i, int):
            if i < 0:
                return 'bad', 'negative-index'
            if lo is None or lo < -(1 << 60):
                return 'unk', 'index-unguarded'
            return ('ok', 'guarded') if lo > i else ('bad', 'index-unguarded')
        if isinstance(i, Term) and i.op.startswith('%') and len(i.args) == 2:
            if vkey(i.args[1]) != capk:
                return 'bad', 'index-reduced-by-other-than-capacity'
            if i.op != '%':
                return 'unk', 'index-reduced-in-narrow-type'     # signedness not visible: a negative remainder cannot be excluded
            return 'ok', 'wrapped'
        if isinstance(i, Lin):
            ts = list(i.terms.values())
            if len(ts) == 1 and ts[0][0] == 1 and isinstance(ts[0][1], Term) and ts[0][1].op.startswith('%') and \
                    vkey(ts[0][1].args[1]) == capk and i.c != 0:
                # (x % capacity) + c with c != 0 ranges over [c, capacity-1+c]
                return 'bad', 'index-not-wrapped'
        return 'unk', 'index-shape'


def norm_index(i):
    """canonical form of a slot index: ((x % c) + k) % c  ==  (x + k) % c   (unsigned arithmetic, as in the table code)"""
    if isinstance(i, Term) and i.op == '%' and len(i.args) == 2:
        x, c = i.args
        lx = Lin.of(x) if (is_opaque(x) or isinstance(x, int)) else None
        if isinstance(lx, Lin):
            acc = Lin(lx.c)
            for k, (coef, leaf) in lx.terms.items():
                inner = norm_index(leaf) if isinstance(leaf, Term) else leaf
                if coef == 1 and isinstance(inner, Term) and inner.op == '%' and vkey(inner.args[1]) == vkey(c) and Lin.of(inner.args[0]) is not None:
                    add = Lin.of(inner.args[0])
                else:
                    add = Lin(0, {k: (coef, leaf)})
                acc = acc.add(add) if isinstance(acc, Lin) else Lin.of(acc).add(add)
                if not isinstance(acc, Lin):
                    acc = Lin.of(acc)
            x = acc.simp()
        return Term('%', x, c)
    return i


def probe_sequence(ctx):
    """normalised indices of the slots a path has addressed, in order of first access"""
    seq = []
    for e in ctx.events:
        if e[0] == 'slot':
            k = repr(norm_index(e[2]))
            if k not in seq:
                seq.append(k)
    return tuple(seq)


def slot_obligations(rep, rule, unit, fn, paths, where):
    """one obligation per function (plus one per distinct way of being wrong)"""
    seen = 0
    bad = {}
    unk = {}
    for ctx, out in paths:
        for e in ctx.events:
            if e[0] != 'slot':
                continue
            seen += 1
            if e[3] == 'bad':
                bad.setdefault(e[4], (e, ctx))
            elif e[3] == 'unk':
                unk.setdefault(e[4], (e, ctx))
    if seen == 0:
        rep.undecided(rule, '%s:%s:no-slot-access' % (unit, fn), 'no subscript of a bucket array was seen in %s' % fn)
        return
    rep.ob(rule, '%s:%s:slot-index-in-bounds' % (unit, fn), not bad, '%d way(s) of addressing a slot outside 0..capacity-1: %s' % (len(bad), ', '.join(sorted(bad))), where=where)
    for shape, (e, ctx) in sorted(bad.items()):
        rep.ob(rule, '%s:%s:slot-%s' % (unit, fn, shape), False,
               'a slot is addressed with index %r, which is not confined to 0..capacity-1 on this path (%s): the access can fall outside the bucket array / off the probe sequence, '
               'so a key written there is not found again and memory after the table is overwritten' % (e[2], shape),
               where=where, facts={'path': ctx.trail, 'index': repr(e[2])})
    for shape, (e, ctx) in sorted(unk.items()):
        rep.undecided(rule, '%s:%s:slot-%s' % (unit, fn, shape), 'cannot tell whether index %r stays inside the bucket array' % (e[2],))


# ------------------------------------------------------------------------------------------- symbolic command line ---
def word(k):
    return Sym('argv%d' % k, 'char *')


def _ckey(sym, pos):
    return Term('idx', sym, pos).key()


def split_ptr(v):
    """pointer value -> (word symbol, offset) or None"""
    if isinstance(v, Sym) and v.name.startswith('argv'):
        return v, 0
    if isinstance(v, Lin) and len(v.terms) == 1:
        (c, l), = v.terms.values()
        if c == 1 and isinstance(l, Sym) and l.name.startswith('argv') and isinstance(v.c, int):
            return l, v.c
    return None


def char_known(ctx, sym, pos):
    k = _ckey(sym, pos)
    b = ctx.bounds.get(k)
    if b and b[0] == b[1]:
        return b[0]
    if ctx.facts.get(k) is False:
        return 0
    return None


def char_excluded(ctx, sym, pos, c):
    k = _ckey(sym, pos)
    if c in ctx.neq.get(k, ()):
        return True
    if c == 0 and ctx.facts.get(k) is True:
        return True
    b = ctx.bounds.get(k)
    if b and (c < b[0] or c > b[1]):
        return True
    return False


def set_char(ctx, sym, pos, c):
    if char_excluded(ctx, sym, pos, c):
        raise Infeasible('char')
    k = _ckey(sym, pos)
    ctx.bounds[k] = [c, c]
    ctx.facts[k] = (c != 0)
    if c != 0:
        ctx.neq.setdefault(k, set()).add(0)


def exclude_char(ctx, sym, pos, c):
    if char_known(ctx, sym, pos) == c:
        raise Infeasible('char')
    k = _ckey(sym, pos)
    ctx.neq.setdefault(k, set()).add(c)
    if c == 0:
        ctx.facts[k] = True


def _differs(ctx):
    if not hasattr(ctx, 'c17_differs'):
        ctx.c17_differs = []
    return ctx.c17_differs


def _status(ctx, sym, off, want):
    """want: list of char codes to be found at sym[off..]. -> ('eq'|'ne'|'open', unknown positions)"""
    unknown = []
    for j, c in enumerate(want):
        kc = char_known(ctx, sym, off + j)
        if kc is None:
            if char_excluded(ctx, sym, off + j, c):
                return 'ne', []
            unknown.append(j)
        elif kc != c:
            return 'ne', []
        elif kc == 0:
            break           # both strings end here
    return ('eq' if not unknown else 'open'), unknown


def _nonzero(ctx, label):
    s = Sym(ctx.fresh(label), 'int')
    ctx.neq.setdefault(s.key(), set()).add(0)
    return s


def _compare(it, ctx, n, a, b, limit):
    """model of strcmp (limit None) / strncmp over one symbolic word and one concrete string"""
    if isinstance(a, str) and not isinstance(b, str):
        a, b = b, a
    if isinstance(a, str) and isinstance(b, str):
        x, y = (a, b) if limit is None else (a[:limit], b[:limit])
        return (x > y) - (x < y)
    sp = split_ptr(a)
    if sp is None or not isinstance(b, str) or (limit is not None and not isinstance(limit, int)):
        t = n.dtype or n.type
        r = it.lazy_value(t, ctx.fresh(n.callee()))
        ctx.emit('call', n.callee(), [a, b], n.line, r)
        return r
    sym, off = sp
    want = [ord(c) for c in b] + [0]
    if limit is not None:
        want = want[:limit]
    if not want:
        return 0
    st, unknown = _status(ctx, sym, off, want)
    if st == 'eq':
        return 0
    if st == 'ne':
        return _nonzero(ctx, 'cmp')
    label = '%s(%s%s, "%s"%s)' % (n.callee(), sym.name, '+%d' % off if off else '', b, '' if limit is None else ', %d' % limit)
    i = ctx.choose(2, label)
    if i == 0:
        for j, c in enumerate(want):
            set_char(ctx, sym, off + j, c)
            if c == 0:
                break
        # an earlier "differs" answer must stay true
        for (s2, o2, w2) in _differs(ctx):
            if _status(ctx, s2, o2, w2)[0] == 'eq':
                raise Infeasible('string facts')
        ctx.note(label + ' == 0')
        return 0
    _differs(ctx).append((sym, off, want))
    if len(unknown) == 1:
        exclude_char(ctx, sym, off + unknown[0], want[unknown[0]])
    ctx.note(label + ' != 0')
    return _nonzero(ctx, 'cmp')


class _CharPlace:
    """the character at a known offset of a symbolic word"""
    __slots__ = ('sym', 'pos')

    def __init__(self, sym, pos):
        self.sym = sym; self.pos = pos

    def get(self, it):
        c = char_known(it.ctx, self.sym, self.pos)
        return c if c is not None else Term('idx', self.sym, self.pos)

    def set(self, it, v):
        pass


def _pure(n):
    for x in n.walk():
        if x.kind in ('CallExpr', 'CompoundAssignOperator', 'StmtExpr'):
            return False
        if x.kind == 'UnaryOperator' and x.opcode in ('++', '--'):
            return False
        if x.kind == 'BinaryOperator' and x.opcode == '=':
            return False
    return True


class ArgvInterp(Interp):
    """`*(w + k)`, `w[k]` and `(w + j)[k]` over a symbolic word w all denote the same character"""

    def place(self, n, env):
        m = n.strip() if n.kind == 'ParenExpr' else n
        if m.kind == 'UnaryOperator' and m.opcode == '*' and _pure(m.inner[0]):
            sp = split_ptr(self.eval(m.inner[0], env))
            if sp is not None:
                return _CharPlace(sp[0], sp[1])
        if m.kind == 'ArraySubscriptExpr' and _pure(m.inner[0]) and _pure(m.inner[1]):
            sp = split_ptr(self.eval(m.inner[0], env))
            if sp is not None:
                i = self.eval(m.inner[1], env)
                if isinstance(i, int) and not isinstance(i, bool):
                    return _CharPlace(sp[0], sp[1] + i)
        return Interp.place(self, n, env)


def m_strcmp(it, ctx, n, args):
    return _compare(it, ctx, n, args[0], args[1], None)


def m_strncmp(it, ctx, n, args):
    return _compare(it, ctx, n, args[0], args[1], args[2])


def m_strlen(it, ctx, n, args):
    a = args[0]
    if isinstance(a, str):
        return len(a)
    sp = split_ptr(a)
    if sp is None:
        r = it.lazy_value(n.dtype or n.type, ctx.fresh('strlen'))
        ctx.emit('call', 'strlen', [a], n.line, r)
        return r
    sym, off = sp
    cnt = 0
    while cnt < 64:
        c = char_known(ctx, sym, off + cnt)
        if c == 0:
            return cnt
        if c is None and not char_excluded(ctx, sym, off + cnt, 0):
            break
        cnt += 1
    r = Sym(ctx.fresh('strlen(%s%s)' % (sym.name, '+%d' % off if off else '')), 'size_t')
    ctx.bounds[r.key()] = [cnt, 1 << 62]
    return r


def describe(ctx, sym, upto=8):
    """what the path knows about the first characters of a word: 'argv2[1]==\'D\'' ..."""
    out = []
    for p in range(upto):
        c = char_known(ctx, sym, p)
        if c is not None:
            out.append("%s[%d]==%s" % (sym.name, p, repr(chr(c)) if c else "'\\0'"))
            if c == 0:
                break
            continue
        ne = sorted(ctx.neq.get(_ckey(sym, p), ()))
        if ne:
            out.append("%s[%d]!=%s" % (sym.name, p, '/'.join(repr(chr(x)) if x else "'\\0'" for x in ne)))
    return ', '.join(out)


# ------------------------------------------------------------------------------------ scoped name tables (parse.c) ---
# A scope table is a HashMap member of a Scope record.  Which scope a table expression `&X->vars` belongs to is decided from
# what X can be: the global scope pointer itself (the innermost scope), something reached through ->next or through a walking
# local (possibly an enclosing scope), or a parameter (decided at the call sites).
TABLE_FNS = {'hashmap_put': 'put', 'hashmap_put2': 'put', 'hashmap_get': 'get', 'hashmap_get2': 'get',
             'hashmap_delete': 'delete', 'hashmap_delete2': 'delete'}
WRITE_THROUGH_LIBC = ('memcpy', 'memmove', 'memset', 'strcpy', 'strncpy')


def _tname(t):
    return (t or '').replace('struct ', '').replace('const ', '').replace(' ', '')


class ScopeTables:
    def __init__(self, u, rec='Scope'):
        self.u = u
        self.rec = rec
        self.ptr = rec + '*'
        self.fns = u.functions
        self.gids = {g.id: name for name, g in u.globals.items()}
        self._defs = {}       # fn -> {decl id: [rhs nodes]}
        self._params = {}     # fn -> [decl ids]
        self._decl = {}       # fn -> {decl id: decl node}
        self._scope_memo = {}
        for f, fd in self.fns.items():
            self._index(f, fd)
        self.lookup_kind = {}     # fn -> scope class of the binding it returns (only for functions returning a table lookup)
        self._returns = self._return_summaries()
        self.writes_param = self._write_summaries()

    # ---- per-function def tables
    def _index(self, f, fd):
        defs, decl = {}, {}
        params = [p.id for p in fd.inner if p.kind == 'ParmVarDecl']
        for p in fd.inner:
            if p.kind == 'ParmVarDecl':
                decl[p.id] = p
        for n in fd.walk():
            if n.kind == 'VarDecl':
                decl[n.id] = n
                init = [x for x in n.inner if x.kind not in ('FullComment',) and not x.kind.endswith('Attr')]
                defs.setdefault(n.id, [])
                if init:
                    defs[n.id].append(init[-1])
            elif n.kind == 'BinaryOperator' and n.opcode == '=':
                l = n.inner[0].strip()
                if l.kind == 'DeclRefExpr' and l.ref_kind in ('VarDecl', 'ParmVarDecl'):
                    defs.setdefault(l.ref_id, []).append(n.inner[1])
            elif n.kind in ('CompoundAssignOperator',) or (n.kind == 'UnaryOperator' and n.opcode in ('++', '--')):
                l = n.inner[0].strip()
                if l.kind == 'DeclRefExpr' and l.ref_kind in ('VarDecl', 'ParmVarDecl'):
                    defs.setdefault(l.ref_id, []).append(None)          # changed in a way not followed
            elif n.kind == 'UnaryOperator' and n.opcode == '&':
                l = n.inner[0].strip()
                if l.kind == 'DeclRefExpr' and l.ref_kind in ('VarDecl', 'ParmVarDecl') and l.ref_id in decl or \
                        (l.kind == 'DeclRefExpr' and l.ref_kind in ('VarDecl', 'ParmVarDecl') and l.ref_id not in self.gids):
                    defs.setdefault(l.ref_id, []).append(None)          # address taken: may be written elsewhere
        self._defs[f], self._params[f], self._decl[f] = defs, params, decl

    def is_local(self, f, n):
        return n.kind == 'DeclRefExpr' and n.ref_kind in ('VarDecl', 'ParmVarDecl') and n.ref_id not in self.gids

    # ---- which scope does a `Scope *` expression denote
    def scope_of(self, f, e, depth=0):
        """'inner' (the current scope: the global scope pointer) | 'outer' (may be an enclosing scope) | ('param', i) | 'unknown'"""
        e = e.strip_all()
        if depth > 6:
            return 'unknown'
        if e.kind == 'DeclRefExpr':
            if e.ref_kind == 'VarDecl' and e.ref_id in self.gids:
                return 'inner' if _tname(e.dtype) == self.ptr else 'unknown'
            if e.ref_kind == 'ParmVarDecl':
                i = self._params[f].index(e.ref_id) if e.ref_id in self._params[f] else None
                if i is None:
                    return 'unknown'
                if self._defs[f].get(e.ref_id):
                    ks = {self.scope_of_def(f, d, depth + 1) for d in self._defs[f][e.ref_id]}
                    return 'outer' if 'outer' in ks else 'unknown'
                return ('param', i)
            if e.ref_kind == 'VarDecl':
                key = (f, e.ref_id)
                if key in self._scope_memo:
                    return self._scope_memo[key]
                self._scope_memo[key] = 'unknown'       # cycles: sc = sc->next is 'outer' through the member rule below
                ds = self._defs[f].get(e.ref_id, [])
                ks = {self.scope_of_def(f, d, depth + 1) for d in ds} if ds else {'unknown'}
                if 'outer' in ks:
                    r = 'outer'
                elif ks == {'inner'}:
                    r = 'inner'
                else:
                    r = 'unknown'
                self._scope_memo[key] = r
                return r
            return 'unknown'
        if e.kind == 'MemberExpr' and _tname(e.dtype) == self.ptr:
            return 'outer'                  # a link out of some scope (->next): an enclosing scope
        if e.kind == 'ConditionalOperator':
            ks = {self.scope_of(f, x, depth + 1) for x in e.inner[1:]}
            return 'outer' if 'outer' in ks else (ks.pop() if len(ks) == 1 else 'unknown')
        return 'unknown'

    def scope_of_def(self, f, d, depth):
        return 'unknown' if d is None else self.scope_of(f, d, depth)

    # ---- table calls
    def table_of(self, call, f=None):
        """(field, base expression) if the first argument of a hashmap_* call is `&<Scope *>->field` (directly, or through a local that is
        set once to such an address)"""
        a = call.args()
        if not a:
            return None
        t = a[0].strip_all()
        if f is not None and self.is_local(f, t) and t.ref_kind == 'VarDecl':
            ds = self._defs[f].get(t.ref_id, [])
            if len(ds) == 1 and ds[0] is not None:
                t = ds[0].strip_all()
        if t.kind == 'UnaryOperator' and t.opcode == '&':
            m = t.inner[0].strip()
            if m.kind == 'MemberExpr' and m.inner and _tname(m.inner[0].strip().dtype if m.d.get('isArrow') else None) == self.ptr:
                return m.name, m.inner[0]
        return None

    def table_calls(self, f, op):
        out = []
        for c in self.fns[f].calls(tuple(k for k, v in TABLE_FNS.items() if v == op)):
            t = self.table_of(c, f)
            if t is not None:
                out.append((c, t[0], self.scope_of(f, t[1])))
        return out

    # ---- functions that hand back a binding they looked up
    def _value_class(self, f, e, depth=0):
        """scope class of the binding a pointer expression holds, None if it is not (directly) the answer of a table lookup"""
        e = e.strip_all()
        if depth > 6:
            return None
        if e.kind == 'CallExpr':
            cal = e.callee()
            if TABLE_FNS.get(cal) == 'get':
                t = self.table_of(e, f)
                return (self.scope_of(f, t[1]), t[0], cal) if t else None
            if cal in self.lookup_kind:
                k, field, src = self.lookup_kind[cal]
                if isinstance(k, tuple):
                    args = e.args()
                    k = self.scope_of(f, args[k[1]]) if k[1] < len(args) else 'unknown'
                return (k, field, cal)
            return None
        if self.is_local(f, e) and e.ref_kind == 'VarDecl':
            got = None
            for d in self._defs[f].get(e.ref_id, []):
                if d is None:
                    continue
                v = self._value_class(f, d, depth + 1)
                if v is None:
                    continue
                if got is None or v[0] == 'outer' or (got[0] == 'inner' and v[0] != 'inner'):
                    got = v
            return got
        if e.kind == 'ConditionalOperator':
            vs = [self._value_class(f, x, depth + 1) for x in e.inner[1:]]
            vs = [v for v in vs if v]
            for v in vs:
                if v[0] == 'outer':
                    return v
            return vs[0] if vs else None
        return None

    def _return_summaries(self):
        """pure lookup functions: every return statement hands back the answer of a scope-table lookup (or a null pointer).  A function that
        also returns other objects (a parser that answers either an existing or a new type) is not one: what its callers do with the result
        says nothing about bindings"""
        changed = True
        rounds = 0
        while changed and rounds < 6:
            changed = False
            rounds += 1
            for f, fd in self.fns.items():
                if not (fd.type or '').split('(')[0].strip().endswith('*'):
                    continue
                best = None
                pure = True
                for r in fd.find('ReturnStmt'):
                    if not r.inner:
                        continue
                    x = r.inner[0].strip_all()
                    if x.int_value() == 0 or x.kind == 'GNUNullExpr':
                        continue
                    v = self._value_class(f, x)
                    if v is None:
                        pure = False
                        break
                    if best is None or v[0] == 'outer' or (best[0] == 'inner' and v[0] != 'inner'):
                        best = v
                if pure and best is not None and self.lookup_kind.get(f) != best:
                    self.lookup_kind[f] = best
                    changed = True
        return self.lookup_kind

    # ---- stores through a pointer variable
    def _stores_through(self, f, ids, summaries):
        """[(decl id, how, node)] for every store the function makes through one of the pointer variables `ids`"""
        out = []
        fd = self.fns[f]

        def var_of(x):
            x = x.strip_all()
            return x.ref_id if self.is_local(f, x) and x.ref_id in ids else None

        def target(l):
            """the variable a store to lvalue l goes through, and what is written"""
            l = l.strip()
            what = None
            while True:
                if l.kind == 'UnaryOperator' and l.opcode == '*':
                    v = var_of(l.inner[0])
                    return (v, what or 'whole-object') if v is not None else None
                if l.kind == 'MemberExpr':
                    if l.d.get('isArrow'):
                        v = var_of(l.inner[0])
                        return (v, 'field-' + (l.name or '?')) if v is not None else None
                    what = what or ('field-' + (l.name or '?'))
                    l = l.inner[0].strip()
                    continue
                if l.kind == 'ArraySubscriptExpr':
                    v = var_of(l.inner[0])
                    if v is not None:
                        return v, what or 'element'
                    l = l.inner[0].strip()
                    if l.kind not in ('MemberExpr', 'UnaryOperator', 'ArraySubscriptExpr'):
                        return None
                    continue
                return None
        for n in fd.walk():
            t = None
            if n.kind in ('BinaryOperator', 'CompoundAssignOperator') and (n.opcode == '=' or n.kind == 'CompoundAssignOperator'):
                t = target(n.inner[0])
            elif n.kind == 'UnaryOperator' and n.opcode in ('++', '--'):
                t = target(n.inner[0])
            elif n.kind == 'CallExpr':
                cal = n.callee()
                args = n.args()
                if cal in WRITE_THROUGH_LIBC and args:
                    v = var_of(args[0])
                    if v is not None:
                        t = (v, 'by-' + cal)
                elif cal in summaries:
                    for i in summaries[cal]:
                        if i < len(args):
                            v = var_of(args[i])
                            if v is not None:
                                out.append((v, 'by-%s' % cal, n))
            if t:
                out.append((t[0], t[1], n))
        return out

    def _write_summaries(self):
        """fn -> set of parameter indices the function (transitively) stores through"""
        W = {f: set() for f in self.fns}
        changed = True
        rounds = 0
        while changed and rounds < 8:
            changed = False
            rounds += 1
            for f in self.fns:
                ps = self._params[f]
                if not ps:
                    continue
                for (v, how, n) in self._stores_through(f, set(ps), W):
                    i = ps.index(v)
                    if i not in W[f]:
                        W[f].add(i); changed = True
        return {f: s for f, s in W.items() if s}

    def bindings(self, f):
        """{decl id: (scope class, field, source name)} for the locals of f that hold the answer of a scope-table lookup"""
        out = {}
        for vid, ds in self._defs[f].items():
            if vid in self._params[f] or vid not in self._decl[f]:
                continue
            n = self._decl[f][vid]
            if not (n.type or '').strip().endswith('*'):
                continue
            ref = None
            for d in ds:
                if d is None:
                    continue
                v = self._value_class(f, d)
                if v is None:
                    continue
                if ref is None or v[0] == 'outer' or (ref[0] == 'inner' and v[0] != 'inner'):
                    ref = v
            if ref is not None:
                out[vid] = ref
        return out

    def stores_through(self, f, ids):
        return self._stores_through(f, set(ids), self.writes_param)

    # ---- which definitions of a local can a use see (structured code, no goto)
    def _def_sites(self, f, vid):
        """[(position, node that performs the definition, value node or None)] in source order"""
        order = self._order(f)
        out = []
        for n in self.fns[f].walk():
            if n.kind == 'VarDecl' and n.id == vid:
                init = [x for x in n.inner if x.kind not in ('FullComment',) and not x.kind.endswith('Attr')]
                out.append((order[id(n)], n, init[-1] if init else None))
            elif n.kind == 'BinaryOperator' and n.opcode == '=':
                l = n.inner[0].strip()
                if l.kind == 'DeclRefExpr' and l.ref_id == vid:
                    out.append((order[id(n)], n, n.inner[1]))
            elif n.kind == 'CompoundAssignOperator' or (n.kind == 'UnaryOperator' and n.opcode in ('++', '--', '&')):
                l = n.inner[0].strip()
                if l.kind == 'DeclRefExpr' and l.ref_id == vid:
                    out.append((order[id(n)], n, None))
        return out

    def _order(self, f):
        o = getattr(self, '_ord', None)
        if o is None:
            o = self._ord = {}
        if f not in o:
            o[f] = {id(n): i for i, n in enumerate(self.fns[f].walk())}
        return o[f]

    @staticmethod
    def _dominates(d, n):
        """definition node d is executed on every way to n: d is a statement (or a declaration in a DeclStmt) of a block that encloses n and stands
        before the statement of that block that contains n; or d is in the init clause of a for statement whose other parts contain n"""
        top = d
        if d.kind == 'VarDecl' and d.parent is not None and d.parent.kind == 'DeclStmt':
            top = d.parent
        blk = top.parent
        if blk is None:
            return False
        anc = [n] + list(n.ancestors())
        if blk.kind == 'CompoundStmt':
            for a in anc:
                if a.parent is blk:
                    return blk.inner.index(top) < blk.inner.index(a) if a in blk.inner and top in blk.inner else False
            return False
        if blk.kind == 'ForStmt' and blk.inner and blk.inner[0] is top:
            return any(a.parent is blk and a is not top for a in anc)
        return False

    def reaching_defs(self, f, vid, n):
        """value nodes (None = not followed) of the definitions of local vid that a use at node n may see"""
        order = self._order(f)
        pos = order[id(n)]
        sites = self._def_sites(f, vid)
        before = [s for s in sites if s[0] < pos]
        dom = [s for s in before if self._dominates(s[1], n)]
        out = []
        if dom:
            last = dom[-1]
            out = [s for s in before if s[0] >= last[0]]
        else:
            out = list(before)
        loops = [a for a in n.ancestors() if a.kind in ('ForStmt', 'WhileStmt', 'DoStmt')]
        for s in sites:
            if s[0] > pos and any(any(x is l for x in s[1].ancestors()) for l in loops):
                out.append(s)
        return [s[2] for s in out]

    def binding_stores(self, f):
        """[(decl id, what is written, node, (scope class, field, source))] for the stores f makes through a local that, at the store, may hold the
        answer of a scope-table lookup"""
        cand = set(self.bindings(f))
        out = []
        for vid, how, n in self._stores_through(f, cand, self.writes_param):
            ref = None
            for d in self.reaching_defs(f, vid, n):
                if d is None:
                    continue
                v = self._value_class(f, d)
                if v is None:
                    continue
                if ref is None or v[0] == 'outer' or (ref[0] == 'inner' and v[0] != 'inner'):
                    ref = v
            if ref is not None:
                out.append((vid, how, n, ref))
        return out
