"""C17 R17.22: whole-table stores into the per-scope dictionaries.

A record that holds dictionaries by value (every member whose type is the table type the hashmap_* functions take: `Scope` has `vars` and `tags`)
is one name space only if all of its dictionaries are taken over together.  A function that seeds the tables of one such record from another
(`dst->vars = src->vars`) is a bulk write of every binding of the source; the dictionary clauses it must keep are

  (a) complete: every table member of the record is copied from the same source record, or none (a partial copy drops the innermost bindings of
      the omitted name space, a lookup then falls through to an enclosing scope: last-write-wins is lost for those names),
  (b) like into like: the table of member m is copied into member m (identifiers never land in the tag table),
  (c) together: all the copies of one seeding stand under the same conditions,
  (d) first: a whole-table store replaces the destination dictionary, so nothing may have been entered into the destination scope before it - it
      follows the opening of the scope (a call of the function that pushes a fresh record) with no call in between that may enter a name.

Everything is derived from the AST: the table type from the first parameter of hashmap_put, the table members from the record, the scope
opener from the stores of a calloc result into the global scope pointer, the functions that may enter a name from the call graph."""
from . import lib_c17 as L

_LOOPS = ('WhileStmt', 'ForStmt', 'DoStmt')


def table_type(P):
    hu = P.unit('hashmap.c')
    fd = hu.functions.get('hashmap_put')
    if fd is None:
        return None
    ps = [p for p in fd.inner if p.kind == 'ParmVarDecl']
    if not ps:
        return None
    t = L._tname(ps[0].dtype or ps[0].type)
    return t[:-1] if t.endswith('*') else None


def table_records(u, ttype):
    """{record: [table members]} of the unit"""
    out = {}
    for r, fields in u.records.items():
        fs = [f for f, t, bf in fields if L._tname(t) == ttype]
        if fs:
            out[r] = fs
    return out


def _chain(n):
    """the conditions a node stands under: (kind, condition rendering, branch) from the function body inwards"""
    out = []
    a = n
    while a.parent is not None and a.parent.kind != 'FunctionDecl':
        p = a.parent
        if p.kind in ('IfStmt', 'ConditionalOperator') and p.inner and a is not p.inner[0]:
            idx = [i for i, x in enumerate(p.inner) if x is a]
            out.append(('if', p.inner[0].src(), idx[0] == 1 if idx else None, p))
        elif p.kind in _LOOPS:
            out.append(('loop', p.kind, None, p))
        elif p.kind == 'SwitchStmt' and p.inner and a is not p.inner[0]:
            out.append(('switch', p.inner[0].src(), None, p))
        elif p.kind in ('CaseStmt', 'DefaultStmt'):
            out.append(('case', p.inner[0].src() if p.kind == 'CaseStmt' and p.inner else 'default', None, p))
        a = p
    out.reverse()
    return out


def _ckey(ch):
    return tuple(x[:3] for x in ch)


def _member_of(e, recs):
    """(record, member, base expression) if e is `<R *>->m` / `<R>.m` for a table record R"""
    e = e.strip()
    if e.kind != 'MemberExpr' or not e.inner:
        return None
    b = e.inner[0].strip()
    t = L._tname(b.dtype)
    r = t[:-1] if e.d.get('isArrow') and t.endswith('*') else t
    if r in recs:
        return r, e.name, e.inner[0]
    return None


class Copies:
    def __init__(self, P, u, uname, ttype):
        self.P, self.u, self.un, self.ttype = P, u, uname, ttype
        self.recs = table_records(u, ttype)
        self.S = {r: L.ScopeTables(u, r) for r in self.recs}
        self._order = {}
        self.openers = self._openers()
        self.may_put = self._may_put()

    # ---- the stores
    def _base_src(self, S, f, b):
        """rendering of a record expression, through a local that is set exactly once"""
        e = b.strip_all()
        for _ in range(4):
            if S.is_local(f, e) and e.ref_kind == 'VarDecl':
                ds = S._defs[f].get(e.ref_id, [])
                if len(ds) == 1 and ds[0] is not None:
                    e = ds[0].strip_all()
                    continue
            break
        return e.src()

    def stores(self, f):
        """whole-table stores of function f: [(node, record, dst member | None (whole record), dst base, src (record, member, base) | None)]"""
        out = []
        fd = self.u.functions[f]
        for n in fd.walk():
            if n.kind == 'BinaryOperator' and n.opcode == '=' and len(n.inner) == 2:
                t = L._tname(n.dtype)
                if t == self.ttype:
                    d = _member_of(n.inner[0], self.recs)
                    if d is None:
                        continue
                    out.append((n, d[0], d[1], d[2], _member_of(n.inner[1], self.recs)))
                elif t in self.recs:
                    l = n.inner[0].strip()
                    if l.kind == 'UnaryOperator' and l.opcode == '*':
                        out.append((n, t, None, l.inner[0], ('*', None, n.inner[1])))
            elif n.kind == 'CallExpr' and n.callee() in ('memcpy', 'memmove', '__builtin_memcpy'):
                a = n.args()
                if not a:
                    continue
                x = a[0].strip_all()
                if x.kind == 'UnaryOperator' and x.opcode == '&':
                    d = _member_of(x.inner[0], self.recs)
                    if d is not None and L._tname(x.inner[0].strip().dtype) == self.ttype:
                        out.append((n, d[0], d[1], d[2], None))
                elif L._tname(x.dtype)[:-1] in self.recs and L._tname(x.dtype).endswith('*'):
                    out.append((n, L._tname(x.dtype)[:-1], None, x, None))
        return out

    # ---- who opens a scope, who may enter a name
    def _openers(self):
        out = set()
        for r, S in self.S.items():
            for f, fd in self.u.functions.items():
                for n in fd.walk():
                    if n.kind != 'BinaryOperator' or n.opcode != '=':
                        continue
                    l = n.inner[0].strip()
                    if not (l.kind == 'DeclRefExpr' and l.ref_kind == 'VarDecl' and l.ref_id in S.gids and L._tname(l.dtype) == S.ptr):
                        continue
                    e = n.inner[1].strip_all()
                    if S.is_local(f, e) and e.ref_kind == 'VarDecl':
                        ds = S._defs[f].get(e.ref_id, [])
                        if len(ds) == 1 and ds[0] is not None:
                            e = ds[0].strip_all()
                    if e.kind == 'CallExpr' and e.callee() in ('calloc', 'malloc'):
                        out.add(f)
        return out

    def _may_put(self):
        base = set()
        for r, S in self.S.items():
            for f in self.u.functions:
                if S.table_calls(f, 'put'):
                    base.add(f)
        callers = {}
        for g, gd in self.u.functions.items():
            for c in gd.find('CallExpr'):
                cal = c.callee()
                if cal in self.u.functions:
                    callers.setdefault(cal, set()).add(g)
        work = list(base)
        while work:
            f = work.pop()
            for g in callers.get(f, ()):
                if g not in base:
                    base.add(g)
                    work.append(g)
        self.callers = callers
        return base

    def _index(self, f):
        if f not in self._order:
            self._order[f] = {id(n): i for i, n in enumerate(self.u.functions[f].walk())}
        return self._order[f]

    def first_in_scope(self, f, node, depth=0):
        """('ok', opener call) | ('late', offending call) | ('unknown', why): is `node` reached straight after the scope was opened?"""
        fd = self.u.functions[f]
        idx = self._index(f)
        me = idx[id(node)]
        ch = _chain(node)
        ck = _ckey(ch)
        loops = [x[3] for x in ch if x[0] == 'loop']
        best = None
        for c in fd.find('CallExpr'):
            if c.callee() in self.openers and idx[id(c)] < me:
                k = _ckey(_chain(c))
                if k == ck[:len(k)] and (best is None or idx[id(c)] > idx[id(best)]):
                    best = c
        if best is None:
            if depth >= 2:
                return 'unknown', 'no call that opens a scope precedes it'
            sites = [(g, c) for g in sorted(self.callers.get(f, ())) for c in self.u.functions[g].calls(f)]
            if not sites:
                return 'unknown', 'no call that opens a scope precedes it in %s and %s has no caller in the unit' % (f, f)
            # nothing of f itself may enter a name before the store
            for c in fd.find('CallExpr'):
                if c.callee() in self.may_put and idx[id(c)] < me and not self._other_branch(c, ch):
                    return 'late', c
            for g, c in sites:
                r = self.first_in_scope(g, c, depth + 1)
                if r[0] != 'ok':
                    return r
            return 'ok', None
        lo = idx[id(best)]
        # a loop around the store that does not contain the opener: its whole body precedes the store
        outer_loops = [l for l in loops if not any(a is l for a in best.ancestors())]
        for c in fd.find('CallExpr'):
            if c.callee() not in self.may_put or c is best:
                continue
            i = idx[id(c)]
            between = lo < i < me
            if not between and outer_loops and i > me and any(any(a is l for a in c.ancestors()) for l in outer_loops):
                between = True
            if between and not self._other_branch(c, ch):
                return 'late', c
        return 'ok', best

    @staticmethod
    def _other_branch(c, ch):
        """c stands in the other arm of an if the store stands under"""
        mine = {id(x[3]): x[2] for x in ch if x[0] == 'if'}
        for x in _chain(c):
            if x[0] == 'if' and id(x[3]) in mine and mine[id(x[3])] is not None and x[2] is not None and x[2] != mine[id(x[3])]:
                return True
        return False


def r1722(P, rep, rule='R17.22'):
    rep.rule(rule, 'the dictionaries of one scope record are taken over together or not at all: in every function that stores a whole table into a table member of a record holding tables '
                   '(the members whose type is the table type of hashmap_put: Scope.vars, Scope.tags), every table member of the record is copied from the like-named member of the same source record, '
                   'under the same conditions, and the stores follow the opening of the destination scope with no call in between that may enter a name - otherwise the innermost bindings of one name space '
                   'are lost (or overwritten) and a lookup falls through to an enclosing scope', floor=6)
    ttype = table_type(P)
    if ttype is None:
        rep.undecided(rule, 'hashmap.c:hashmap_put:table-type', 'the table type (first parameter of hashmap_put) could not be read')
        return
    nrec = ngroups = 0
    for uname in P.unit_names:
        u = P.unit(uname)
        if not table_records(u, ttype):
            continue
        C = Copies(P, u, uname, ttype)
        # records of a header are seen by several units: look at a function only where it is defined (functions are per unit anyway)
        nrec += len(C.recs)
        for r in sorted(C.recs):
            rep.ob(rule, '%s:%s:table-members-known' % (uname, r), True, '', facts={'tables': C.recs[r]})
        for f in u.functions:
            st = C.stores(f)
            if not st:
                continue
            where = lambda n: '%s:%d' % (uname, n.line)
            groups = {}
            for n, r, dm, db, src in st:
                S = C.S[r]
                if src is None:
                    rep.undecided(rule, '%s:%s:%s-table-written-bytewise/%s' % (uname, f, r, dm or 'record'), 'a table of a %s record is overwritten by a byte copy; the analysis does not follow which tables it takes over' % r, where=where(n))
                    continue
                if src[0] == '*':
                    dsrc, ssrc = C._base_src(S, f, db), src[2].src()
                else:
                    dsrc, ssrc = C._base_src(S, f, db), C._base_src(S, f, src[2])
                groups.setdefault((r, dsrc, ssrc), []).append((n, dm, db, src))
            for (r, dsrc, ssrc), g in sorted(groups.items(), key=lambda kv: kv[0]):
                ngroups += 1
                S = C.S[r]
                tabs = C.recs[r]
                whole = [x for x in g if x[1] is None]
                copied = {x[1] for x in g if x[1] is not None}
                if dsrc == ssrc:
                    continue        # a record assigned to itself
                # (a) complete
                for m in tabs:
                    ok = bool(whole) or m in copied
                    rep.ob(rule, '%s:%s:%s-tables-taken-over-together/%s' % (uname, f, r, m), ok,
                           '%s seeds the table(s) %s of `%s` from `%s` but not `%s`: the record holds the tables %s and they are one scope only together - the bindings of `%s` made in the source scope are lost for the destination, '
                           'a lookup of such a name falls through to an enclosing scope (an outer binding answers instead of the innermost one, or the name is undefined)'
                           % (f, ', '.join('`%s`' % c for c in sorted(copied)), dsrc, ssrc, m, ', '.join(tabs), m), where=where(g[0][0]), facts={'copied': sorted(copied), 'tables': tabs})
                # (b) like into like
                for n, dm, db, src in g:
                    if dm is None:
                        continue
                    ok = src[1] == dm
                    rep.ob(rule, '%s:%s:%s' % (uname, f, ('%s-copied-from-the-like-table/%s' % (r, dm)) if ok else ('%s-table-%s-copied-into-%s' % (r, src[1], dm))), ok,
                           'the `%s` table of `%s` is stored into the `%s` table of `%s`: the names of one name space land in the dictionary of another' % (src[1], ssrc, dm, dsrc), where=where(n))
                # (c) together
                chains = {}
                for n, dm, db, src in g:
                    chains.setdefault(_ckey(_chain(n)), []).append((n, dm))
                if len(chains) > 1:
                    ks = sorted(chains, key=len)
                    short = ks[0]
                    for k in ks[1:]:
                        n, dm = chains[k][0]
                        if k[:len(short)] == short:
                            extra = k[len(short):]
                            rep.ob(rule, '%s:%s:%s-table-copy-under-extra-condition/%s' % (uname, f, r, dm or 'record'), False,
                                   'the copy of `%s` stands under a condition (%s) the copy of %s does not stand under: on the other paths the destination scope takes over only part of the tables of `%s`'
                                   % (dm or 'the record', '; '.join('%s %s' % (x[0], x[1]) for x in extra), ', '.join('`%s`' % (y[1] or 'record') for y in chains[short]), ssrc), where=where(n))
                        else:
                            rep.undecided(rule, '%s:%s:%s-table-copy-conditions/%s' % (uname, f, r, dm or 'record'), 'the copies of the tables of `%s` stand under different conditions; the analysis cannot tell whether they always happen together' % ssrc, where=where(n))
                else:
                    rep.ob(rule, '%s:%s:%s-tables-copied-under-the-same-conditions' % (uname, f, r), True, '', where=where(g[0][0]))
                # (d) first
                for n, dm, db, src in g:
                    k = S.scope_of(f, db)
                    tag = dm or 'record'
                    e = db.strip_all()
                    fresh = False
                    if S.is_local(f, e) and e.ref_kind == 'VarDecl':
                        ds = S._defs[f].get(e.ref_id, [])
                        fresh = len(ds) == 1 and ds[0] is not None and ds[0].strip_all().kind == 'CallExpr' and ds[0].strip_all().callee() in ('calloc', 'malloc')
                    if fresh:
                        # a record this function has just allocated and not yet pushed: nothing can have been entered through the scope pointer
                        rep.ob(rule, '%s:%s:%s-table-store-into-a-fresh-record/%s' % (uname, f, r, tag), True, '', where=where(n))
                        continue
                    if k == 'outer':
                        rep.ob(rule, '%s:%s:%s-table-of-an-enclosing-scope-overwritten/%s' % (uname, f, r, tag), False,
                               'the whole `%s` table of `%s` - a scope reached through the scope chain - is overwritten: every binding of that enclosing scope is replaced' % (tag, dsrc), where=where(n))
                        continue
                    if k != 'inner':
                        rep.undecided(rule, '%s:%s:%s-table-store-destination/%s' % (uname, f, r, tag), 'cannot tell which scope\'s table `%s` is' % dsrc, where=where(n))
                        continue
                    st_, what = C.first_in_scope(f, n)
                    if st_ == 'ok':
                        rep.ob(rule, '%s:%s:%s-table-stored-before-any-name-is-entered/%s' % (uname, f, r, tag), True, '', where=where(n))
                    elif st_ == 'late':
                        rep.ob(rule, '%s:%s:%s-table-stored-after-names-were-entered/%s' % (uname, f, r, tag), False,
                               'the whole `%s` table of the current scope is overwritten after %s (line %d) may have entered names into that scope: those bindings - the most recent ones - are discarded by the store'
                               % (tag, what.callee(), what.line), where=where(n))
                    else:
                        rep.undecided(rule, '%s:%s:%s-table-store-position/%s' % (uname, f, r, tag), 'the whole `%s` table of the current scope is overwritten, %s: the analysis cannot tell that the scope is still empty' % (tag, what), where=where(n))
    if nrec < 1:
        rep.undecided(rule, 'table-records', 'no record with a table member (type %s) found: the scope record is not recognised any more' % ttype)
    if ngroups < 1:
        rep.undecided(rule, 'parse.c:table-seeding', 'no function stores a whole table into a table member of a scope record any more: the way a function body continues the scope of its parameter list is not recognised '
                                                     '(if the body scope is no longer seeded by copying tables, this rule needs another statement of "the body sees the bindings of the parameter list")')
