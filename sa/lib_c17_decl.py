"""private helper of sa/rules/c17.py (R17.20): a declaration is a write to the dictionary of the CURRENT scope on every path.

Structured must-analysis over the AST of parse.c (no goto in the functions concerned; a function with goto is left undecided):

* ENTERING functions: E enters its parameter i when every returning path of E puts a key that is parameter i into a table of the current scope
  (`hashmap_put(&scope->vars, name, ..)`), directly or by calling an entering function with that parameter (push_scope, new_var, new_lvar, new_gvar).
* a DECLARING function F holds the result D of a declarator() call in a local and, somewhere, hands a string made of `D->name` to an entering
  function: F declares D's identifier.  Then from the declarator() call on, EVERY path must enter that identifier before it (a) returns, (b) reaches
  the end of the loop iteration / the next declarator, (c) changes the current scope (a call of a function that assigns the scope pointer).
  A path is excused only if it has established BOTH that a lookup of the same identifier in a scope table hit (non-null result of a lookup
  function called with the identifier) AND that the current scope has no enclosing scope (`scope-><link>` is null): the chain then consists of
  the current scope alone, so the binding found is the current scope's own binding.
"""
from .lib_c17 import TABLE_FNS, _tname

NORETURN = ('error', 'error_at', 'error_tok', 'exit', '_exit', 'abort', '__assert_fail')


class DeclFlow:
    def __init__(self, S, declarator='declarator'):
        self.S = S                      # lib_c17.ScopeTables of parse.c
        self.u = S.u
        self.declarator = declarator
        self.scope_writers = self._scope_writers()
        self.lookups = self._lookup_functions()
        self.entering = {}              # fn -> set of parameter indices entered on every returning path
        self.may_enter = {}             # fn -> set of parameter indices entered on some path
        self.entering_unless_outermost = {}     # fn -> parameter indices entered on every returning path that has not established "the current scope has no enclosing scope"
        self._fix_entering()

    # ---------------------------------------------------------------- helpers
    def _once(self, f, n):
        """look through a local that is defined exactly once"""
        n = n.strip_all()
        d = 0
        while n.kind == 'DeclRefExpr' and n.ref_kind == 'VarDecl' and self.S.is_local(f, n) and d < 6:
            ds = self.S._defs[f].get(n.ref_id, [])
            if len(ds) != 1 or ds[0] is None:
                break
            n = ds[0].strip_all()
            d += 1
        return n

    def _scope_writers(self):
        out = set()
        for f, fd in self.S.fns.items():
            for n in fd.walk():
                if n.kind == 'BinaryOperator' and n.opcode == '=':
                    l = n.inner[0].strip()
                    if l.kind == 'DeclRefExpr' and l.ref_kind == 'VarDecl' and l.ref_id in self.S.gids and _tname(l.dtype) == self.S.ptr:
                        out.add(f)
        return out

    def _lookup_functions(self):
        """fn -> index of the parameter it looks up in a scope table; the function only reads the tables and a non-null result comes from the lookup's answer"""
        out = {}
        for f, fd in self.S.fns.items():
            gets = self.S.table_calls(f, 'get')
            if not gets or self.S.table_calls(f, 'put') or self.S.table_calls(f, 'delete'):
                continue
            if not (fd.type or '').split('(')[0].strip().endswith('*'):
                continue
            ps = self.S._params[f]
            idx = None
            for c, field, k in gets:
                a = c.args()
                if len(a) > 1:
                    x = a[1].strip_all()
                    if x.kind == 'DeclRefExpr' and x.ref_kind == 'ParmVarDecl' and x.ref_id in ps and not self.S._defs[f].get(x.ref_id):
                        idx = ps.index(x.ref_id)
            if idx is None:
                continue
            holders = set()
            for vid, ds in self.S._defs[f].items():
                for d in ds:
                    if d is not None and d.strip_all().kind == 'CallExpr' and TABLE_FNS.get(d.strip_all().callee()) == 'get':
                        holders.add(vid)
            ok = True
            for r in fd.find('ReturnStmt'):
                if not r.inner:
                    continue
                x = r.inner[0].strip_all()
                if x.int_value() == 0 or x.kind == 'GNUNullExpr':
                    continue
                b = x
                while b.kind == 'MemberExpr' and b.inner:
                    b = b.inner[0].strip_all()
                if b.kind == 'CallExpr' and TABLE_FNS.get(b.callee()) == 'get':
                    continue
                if not (b.kind == 'DeclRefExpr' and b.ref_id in holders):
                    ok = False
            if ok:
                out[f] = idx
        return out

    def _names_of(self, f, e, depth=0):
        """ids of the locals D such that the string expression e is made of `D->name` (through once-defined locals and calls taking it as an argument)"""
        out = set()
        e = self._once(f, e)
        if depth > 5:
            return out
        for x in e.walk():
            if x.kind == 'MemberExpr' and x.name == 'name' and x.inner:
                b = x.inner[0].strip_all()
                if b.kind == 'DeclRefExpr' and b.ref_kind in ('VarDecl', 'ParmVarDecl') and self.S.is_local(f, b):
                    out.add(b.ref_id)
            elif x.kind == 'DeclRefExpr' and x is not e and x.ref_kind == 'VarDecl' and self.S.is_local(f, x):
                y = self._once(f, x)
                if y is not x.strip_all():
                    out |= self._names_of(f, y, depth + 1)
        return out

    def _param_of(self, f, e):
        e = self._once(f, e)
        ps = self.S._params[f]
        if e.kind == 'DeclRefExpr' and e.ref_kind == 'ParmVarDecl' and e.ref_id in ps and not self.S._defs[f].get(e.ref_id):
            return ps.index(e.ref_id)
        return None

    def enter_key(self, f, call):
        """the key expression a call enters into the current scope, None if the call is no such insertion"""
        cal = call.callee()
        if TABLE_FNS.get(cal) == 'put':
            t = self.S.table_of(call, f)
            if t is not None and self.S.scope_of(f, t[1]) == 'inner' and len(call.args()) > 1:
                return [call.args()[1]]
            return None
        if cal in self.entering and cal != f:
            a = call.args()
            return [a[i] for i in sorted(self.entering[cal]) if i < len(a)] or None
        return None

    # ---------------------------------------------------------------- the flow
    def _events(self, f, e, want):
        """ordered events of evaluating expression e; calls under the right operand of && / || or in an arm of ?: are conditional: they never count as must-events"""
        out = []

        def go(n, cond):
            if n.kind in ('BinaryOperator',) and n.opcode in ('&&', '||') and len(n.inner) == 2:
                go(n.inner[0], cond)
                go(n.inner[1], True)
                return
            if n.kind == 'ConditionalOperator' and len(n.inner) == 3:
                go(n.inner[0], cond)
                go(n.inner[1], True)
                go(n.inner[2], True)
                return
            if n.kind in ('StmtExpr', 'CompoundStmt', 'IfStmt', 'WhileStmt', 'ForStmt'):
                return
            for c in n.inner:
                if hasattr(c, 'kind'):
                    go(c, cond)
            if n.kind == 'CallExpr':
                ev = want(n, cond)
                if ev:
                    out.append(ev)
        go(e, False)
        return out

    def cond_facts(self, f, c, D, depth=0):
        """(facts when c is true, facts when c is false); facts: 'found' (a scope-table lookup of D's identifier hit), 'nested', 'outermost'"""
        c = c.strip()
        while c.kind in ('ParenExpr', 'ImplicitCastExpr'):
            c = c.inner[0]
        none = (frozenset(), frozenset())
        if depth > 6:
            return none
        if c.kind == 'UnaryOperator' and c.opcode == '!':
            t, fl = self.cond_facts(f, c.inner[0], D, depth + 1)
            return fl, t
        if c.kind == 'BinaryOperator' and c.opcode in ('==', '!=') and len(c.inner) == 2:
            a, b = c.inner
            if a.strip_all().int_value() == 0 or a.strip_all().kind == 'GNUNullExpr':
                a, b = b, a
            if b.strip_all().int_value() == 0 or b.strip_all().kind == 'GNUNullExpr':
                t, fl = self.cond_facts(f, a, D, depth + 1)
                return (t, fl) if c.opcode == '!=' else (fl, t)
            return none
        if c.kind == 'BinaryOperator' and c.opcode == '&&':
            a = self.cond_facts(f, c.inner[0], D, depth + 1)
            b = self.cond_facts(f, c.inner[1], D, depth + 1)
            return a[0] | b[0], a[1] & b[1]
        if c.kind == 'BinaryOperator' and c.opcode == '||':
            a = self.cond_facts(f, c.inner[0], D, depth + 1)
            b = self.cond_facts(f, c.inner[1], D, depth + 1)
            return a[0] & b[0], a[1] | b[1]
        x = c.strip_all()
        if x.kind == 'MemberExpr' and x.d.get('isArrow') and _tname(x.dtype) == self.S.ptr and x.inner and self.S.scope_of(f, x.inner[0]) == 'inner':
            return frozenset(['nested']), frozenset(['outermost'])
        if x.kind == 'DeclRefExpr' and x.ref_kind == 'VarDecl' and self.S.is_local(f, x):
            ds = self.S._defs[f].get(x.ref_id, [])
            if len(ds) != 1:
                try:
                    ds = self.S.reaching_defs(f, x.ref_id, x)      # the definitions this use can see (structured code)
                except KeyError:
                    ds = []
            if len(ds) == 1 and ds[0] is not None:
                d = ds[0].strip_all()
                if d.kind == 'CallExpr' and d.callee() in self.lookups:
                    a = d.args()
                    i = self.lookups[d.callee()]
                    if i < len(a) and D is not None and D in self._names_of(f, a[i]):
                        return frozenset(['found']), frozenset()
                    return none
                if d.kind != 'CallExpr':
                    return self.cond_facts(f, ds[0], D, depth + 1)
            return none
        if x.kind == 'CallExpr' and x.callee() in self.lookups:
            a = x.args()
            i = self.lookups[x.callee()]
            if i < len(a) and D is not None and D in self._names_of(f, a[i]):
                return frozenset(['found']), frozenset()
        return none

    def flow(self, f, mode, declared=()):
        """mode 'enter': which parameters does f enter on every returning path (returns (must set, may set)).
        mode 'declare': [(how, node, D)] violations: checkpoints reached with the identifier of D not entered"""
        fd = self.S.fns[f]
        body = self.u.body(f) if hasattr(self.u, 'body') else None
        if body is None:
            body = next((x for x in fd.inner if x.kind == 'CompoundStmt'), None)
        if body is None:
            return None
        if any(True for _ in fd.find('GotoStmt')):
            return 'goto'
        S = self.S
        bad = []
        rets = []
        may = set()

        # a state: (D, entered frozenset, facts frozenset); D None = no declaration pending (mode declare)
        def excused(st):
            return 'found' in st[2] and 'outermost' in st[2]

        def check(st, how, node):
            if mode == 'declare':
                if st[0] is not None and st[0] not in st[1] and not excused(st):
                    bad.append((how, node, st[0]))
            elif how == 'return':
                rets.append((st[1], 'outermost' in st[2]))

        def want(n, cond):
            cal = n.callee()
            if cal in NORETURN:
                return None if cond else ('noreturn', n)
            if mode == 'declare' and cal == self.declarator:
                return ('declarator', n)
            if cal in self.scope_writers and cal != f:
                return None if cond else ('scope', n)
            ks = self.enter_key(f, n)
            if ks:
                return ('enter', n, ks, cond)
            if cal in self.entering_unless_outermost and cal != f and not cond:
                a = n.args()
                ks = [a[i] for i in sorted(self.entering_unless_outermost[cal]) if i < len(a)]
                if ks:
                    return ('enter-unless-outermost', n, ks)
            return None

        def decl_target(call):
            """id of the local that receives the result of a declarator() call"""
            p = call.parent
            while p is not None and p.kind in ('ImplicitCastExpr', 'ParenExpr', 'CStyleCastExpr'):
                p = p.parent
            if p is not None and p.kind == 'VarDecl':
                return p.id
            if p is not None and p.kind == 'BinaryOperator' and p.opcode == '=':
                l = p.inner[0].strip()
                if l.kind == 'DeclRefExpr' and S.is_local(f, l):
                    return l.ref_id
            return None

        def expr(e, states):
            """states after evaluating e; empty when e never returns"""
            for ev in self._events(f, e, want):
                if not states:
                    break
                if ev[0] == 'noreturn':
                    return set()
                if ev[0] == 'declarator':
                    t = decl_target(ev[1])
                    new = set()
                    for st in states:
                        check(st, 'next-declarator', ev[1])
                        new.add((t if t in declared else None, st[1] - {t}, frozenset()))
                    states = new
                elif ev[0] == 'scope':
                    new = set()
                    for st in states:
                        check(st, 'scope-change', ev[1])
                        new.add((st[0], st[1], st[2] - {'nested', 'outermost'}))
                    states = new
                elif ev[0] == 'enter':
                    ids = set()
                    for k in ev[2]:
                        if mode == 'enter':
                            i = self._param_of(f, k)
                            if i is not None:
                                ids.add(i)
                        else:
                            ids |= self._names_of(f, k)
                    may.update(ids)
                    if not ev[3]:
                        states = {(st[0], st[1] | frozenset(ids), st[2]) for st in states}
                elif ev[0] == 'enter-unless-outermost':
                    # the helper enters the name unless the current scope is the only one of the chain: with a lookup hit on this path the name is bound either way
                    ids = set()
                    for k in ev[2]:
                        ids |= ({self._param_of(f, k)} - {None}) if mode == 'enter' else self._names_of(f, k)
                    may.update(ids)
                    states = {(st[0], st[1] | frozenset(ids), st[2]) if 'found' in st[2] else st for st in states}
            return states

        def stmt(s, states):
            """-> dict outcome -> set of states; outcomes: fall, break, continue"""
            out = {'fall': set(), 'break': set(), 'continue': set()}
            if not states:
                return out
            k = s.kind
            if k == 'CompoundStmt':
                cur = states
                for c in s.inner:
                    r = stmt(c, cur)
                    out['break'] |= r['break']
                    out['continue'] |= r['continue']
                    cur = r['fall']
                    if not cur:
                        break
                out['fall'] = cur
                return out
            if k == 'IfStmt':
                inner = [x for x in s.inner]
                cond, then = inner[0], inner[1] if len(inner) > 1 else None
                els = inner[2] if len(inner) > 2 else None
                st0 = expr(cond, states)
                ts, fs = set(), set()
                for st in st0:
                    t, fl = self.cond_facts(f, cond, st[0])
                    for dst, facts in ((ts, st[2] | t), (fs, st[2] | fl)):
                        got = st[1]
                        if st[0] is not None and 'found' in facts and 'outermost' in facts:
                            got = got | frozenset([st[0]])          # the binding that the lookup found is the current scope's own binding
                        dst.add((st[0], got, facts))
                r1 = stmt(then, ts) if then is not None else {'fall': ts, 'break': set(), 'continue': set()}
                r2 = stmt(els, fs) if els is not None else {'fall': fs, 'break': set(), 'continue': set()}
                for o in out:
                    out[o] = r1[o] | r2[o]
                return out
            if k in ('WhileStmt', 'ForStmt', 'DoStmt'):
                parts = [x for x in s.inner if hasattr(x, 'kind')]
                bodyn = parts[-1] if k != 'DoStmt' else parts[0]
                conds = [x for x in parts if x is not bodyn and getattr(x, 'kind', None)]
                cur = states
                if k != 'DoStmt':
                    for c in conds[:-1] if k == 'ForStmt' and len(conds) > 1 else conds:
                        cur = stmt(c, cur)['fall'] if c.kind.endswith('Stmt') else expr(c, cur)
                has_decl = mode == 'declare' and any(c.callee() == self.declarator and decl_target(c) in declared for c in bodyn.find('CallExpr'))
                r = stmt(bodyn, cur)
                end = r['fall'] | r['continue']
                if has_decl:
                    for st in end:
                        check(st, 'end-of-iteration', s)
                    for st in r['break']:
                        check(st, 'end-of-iteration', s)
                    reset = lambda sts: {(None, st[1], frozenset()) for st in sts}
                    out['fall'] = reset(end | r['break']) | (cur if k != 'DoStmt' else set())
                else:
                    out['fall'] = end | r['break'] | (cur if k != 'DoStmt' else set())
                return out
            if k == 'SwitchStmt':
                parts = [x for x in s.inner if hasattr(x, 'kind')]
                cur = expr(parts[0], states) if parts else states
                r = stmt(parts[-1], cur) if len(parts) > 1 else {'fall': cur, 'break': set(), 'continue': set()}
                out['fall'] = r['fall'] | r['break'] | cur
                out['continue'] = r['continue']
                return out
            if k in ('CaseStmt', 'DefaultStmt', 'LabelStmt', 'AttributedStmt'):
                sub = [x for x in s.inner if hasattr(x, 'kind')]
                return stmt(sub[-1], states) if sub else dict(out, fall=states)
            if k == 'ReturnStmt':
                cur = states
                for c in s.inner:
                    cur = expr(c, cur)
                for st in cur:
                    check(st, 'return', s)
                return out
            if k == 'BreakStmt':
                out['break'] = states
                return out
            if k == 'ContinueStmt':
                out['continue'] = states
                return out
            if k == 'NullStmt':
                out['fall'] = states
                return out
            # DeclStmt, expression statements
            out['fall'] = expr(s, states)
            return out

        init = {(None, frozenset(), frozenset())}
        r = stmt(body, init)
        for st in r['fall']:
            check(st, 'return', fd)
        if mode == 'enter':
            must = cond_must = None
            for e, outermost in rets:
                must = set(e) if must is None else (must & set(e))
                c = set(may) if outermost else set(e)
                cond_must = c if cond_must is None else (cond_must & c)
            return (must or set(), may, (cond_must or set()) - (must or set()))
        return bad

    def _fix_entering(self):
        for _ in range(6):
            changed = False
            for f in self.S.fns:
                r = self.flow(f, 'enter')
                if not isinstance(r, tuple):
                    continue
                must, may, cm = r
                if must != self.entering.get(f, set()) or may != self.may_enter.get(f, set()) or cm != self.entering_unless_outermost.get(f, set()):
                    changed = True
                if cm:
                    self.entering_unless_outermost[f] = cm
                else:
                    self.entering_unless_outermost.pop(f, None)
                if must:
                    self.entering[f] = must
                else:
                    self.entering.pop(f, None)
                if may:
                    self.may_enter[f] = may
            if not changed:
                break

    def declaring(self):
        """fn -> set of locals D (decl ids) that receive a declarator() result and whose `->name` is entered somewhere in fn"""
        out = {}
        for f, fd in self.S.fns.items():
            ds = set()
            for c in fd.calls(self.declarator):
                p = c.parent
                while p is not None and p.kind in ('ImplicitCastExpr', 'ParenExpr', 'CStyleCastExpr'):
                    p = p.parent
                if p is not None and p.kind == 'VarDecl':
                    ds.add(p.id)
                elif p is not None and p.kind == 'BinaryOperator' and p.opcode == '=':
                    l = p.inner[0].strip()
                    if l.kind == 'DeclRefExpr' and self.S.is_local(f, l):
                        ds.add(l.ref_id)
            if not ds:
                continue
            entered = set()
            for c in fd.find('CallExpr'):
                ks = self.enter_key(f, c)
                for k in ks or ():
                    entered |= self._names_of(f, k)
            if ds & entered:
                out[f] = ds & entered
        return out
