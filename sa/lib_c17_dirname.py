"""private helper of sa/rules/c17.py (R17.21): the name a directive defines / undefines / asks about is a token of the directive's own line.

A directive ends with its line (C11 6.10p2).  `#define`, `#undef`, `#ifdef`, `#ifndef` with nothing after the directive name name NO macro: applying
the operation to the first token of the NEXT line writes (or reads) the macro table under a name no directive of the source names, and swallows a text
line.  Decided by exploring the dispatcher on  `# d` <newline> `M y` <newline> `x z`  (M is an identifier that begins a line): a path that is not a
diagnostic must not hand the token M (or its spelling) to a function that operates on the macro table; a program function that is handed the token
itself (read_macro_definition) is explored on that token in turn and must not reach an insertion.
"""
from .build import AnalysisBroken
from .interp import Interp, Obj, Sym, View

OPS = ('read_macro_definition', 'undef_macro', 'find_macro', 'add_macro', 'hashmap_put', 'hashmap_put2', 'hashmap_get', 'hashmap_get2', 'hashmap_delete', 'hashmap_delete2')
WHAT = {'define': 'defines', 'undef': 'undefines', 'ifdef': 'tests', 'ifndef': 'tests'}


def _scenario(T, d):
    def mk(ctx):
        specs = T.line('a', [('#', 'TK_PUNCT'), (d, 'TK_IDENT')])
        specs += T.line('b', [('M', 'TK_IDENT'), ('y', 'TK_IDENT')])
        specs += T.line('c', [('x', 'TK_IDENT'), ('z', 'TK_IDENT')])
        ts = T.chain(specs)
        ctx.toks = ts
        ctx.tokidx = {id(t): i for i, t in enumerate(ts)}
        return [ts[0]]
    return mk


def _tok_of(ctx, v, idx_of, spelled_from):
    """index of the scenario token a value is (or is the spelling of), else None"""
    if isinstance(v, View):
        return None
    i = idx_of(ctx, v)
    if i is not None:
        return i
    s = spelled_from(v)
    if s is not None:
        return idx_of(ctx, s)
    return None


def _callee_enters(P, u, T, fname, argi, nargs):
    """explore program function `fname` with a TK_IDENT token that begins a line as argument argi: True if some returning path reaches an
    insertion into a table (add_macro / hashmap_put), False if none does, None if the exploration cannot be done"""
    from .lib_c10 import PPInterp, m_equal, m_strndup
    from .interp import _Ref, VarPlace, Unsupported, Infeasible
    if fname not in u.functions:
        return None
    ps = u.params(fname)
    if len(ps) != nargs:
        return None
    writers = ('add_macro', 'hashmap_put', 'hashmap_put2')
    cut = {w: None for w in writers}
    for f in ('copy_line', 'read_macro_params', 'skip_line', 'format', 'strdup', 'warn_tok'):
        if f in u.functions or f in ('format', 'strdup'):
            cut[f] = None
    try:
        it = PPInterp(P, u, {'models': {'equal': m_equal, 'strndup': m_strndup}, 'cut': cut, 'loop_limit': 2, 'track_stores': True})

        def mk(ctx):
            ts = T.chain(T.line('b', [('M', 'TK_IDENT'), ('y', 'TK_IDENT')]) + T.line('c', [('x', 'TK_IDENT'), ('z', 'TK_IDENT')]))
            ctx.toks = ts
            ctx.tokidx = {id(t): i for i, t in enumerate(ts)}
            args = []
            for i, p in enumerate(ps):
                t = (p.type or '').replace(' ', '')
                if i == argi:
                    args.append(ts[0])
                elif t == 'Token**':
                    args.append(_Ref(VarPlace({'rest': None}, 'rest')))
                else:
                    args.append(Sym('arg%d' % i, p.type))
            return args
        res = it.explore(fname, mk, max_paths=400)
    except (AnalysisBroken, Unsupported, Infeasible, KeyError, TypeError, AttributeError, IndexError, ValueError):
        return None
    if not res:
        return None
    for ctx, out in res:
        if out[0] == 'ret' and any(e[0] == 'call' and e[1] in writers for e in ctx.events):
            return True
    return False


def directive_name_facts(P, u):
    """[(directive, construct, ok|None, message, line)]"""
    from .lib_c10 import Toks, register_nested_enums, PPInterp, pp2_config, calls, outcome, idx_of, spelled_from
    register_nested_enums(u)
    T = Toks(u)
    fn = 'preprocess2'
    if fn not in u.functions:
        raise AnalysisBroken('anchor preprocess2 vanished')
    out = []
    for d in ('define', 'undef', 'ifdef', 'ifndef'):
        it = PPInterp(P, u, pp2_config(u))
        res = it.explore(fn, _scenario(T, d), max_paths=400)
        if not res:
            out.append((d, 'name-on-the-directive-line', None, 'no path of the dispatcher on `#%s` <newline> `M y` could be followed' % d, u.fn(fn).line))
            continue
        bad = {}
        seen = 0
        for ctx, o in res:
            oc = outcome(o)
            if oc[0] == 'error':
                seen += 1
                continue
            seen += 1
            for e in calls(ctx, OPS):
                name, args, line = e[1], e[2], e[3]
                hit = [i for i, a in enumerate(args) if (_tok_of(ctx, a, idx_of, spelled_from) or 0) >= 2]
                if not hit:
                    continue
                if name in u.functions and any(idx_of(ctx, args[i]) is not None for i in hit if not isinstance(args[i], View)) and name not in ('find_macro', 'undef_macro', 'add_macro'):
                    r = _callee_enters(P, u, T, name, hit[0], len(args))
                    if r is False:
                        continue
                    if r is None:
                        bad.setdefault('undecided/' + name, (None, 'after `#%s` with nothing else on the line the dispatcher hands the first token of the NEXT line to %s(), which could not be explored' % (d, name), line))
                        continue
                bad.setdefault(name, (False, '`#%s` with nothing after it on the line names no macro, but the handler takes the first token of the NEXT line as the name and %s it (through %s()): '
                                             '`#%s` <newline> `FOO 1` %s FOO and swallows the text line, so the macro table is operated on under a name that no directive of the source names '
                                             '(gcc: "no macro name given in #%s directive")' % (d, WHAT[d], name, d, WHAT[d], d), line))
        out.append((d, 'name-on-the-directive-line', not any(v[0] is False for v in bad.values()) if not any(v[0] is None for v in bad.values()) or any(v[0] is False for v in bad.values()) else None,
                    '; '.join(v[1] for v in bad.values()), min([v[2] for v in bad.values()] or [u.fn(fn).line])))
    return out
