"""private helper of sa/rules/c17.py (R17.19): what does a KEY FUNCTION of a memo table derive its key from?

A key function g(path) (see c17._peel_key_function) replaces the spelling of a path by "the file's identity".  The table is a dictionary of FILES
only if the key is a function of the file that open(path) reads, and an injective one:

* the file-system query that fills the record the key is made of follows symbolic links, like open() does (stat / fstat / fstatat without
  AT_SYMLINK_NOFOLLOW); lstat / readlink / fstatat(..., AT_SYMLINK_NOFOLLOW) describe the LINK: one file reached under two names gets two keys;
* the query is made on the function's own parameter and the fields are read from the record that very query filled, on the path where it succeeded;
* the key contains the pair (st_dev, st_ino) - the complete identity; each number at full width (no narrowing cast) and separated from the next
  by literal text of the format (1:23 and 12:3 are different files).
"""

FOLLOW = {'stat': 0, 'stat64': 0, '__xstat': 1, '__xstat64': 1}                  # name -> index of the path argument
FOLLOW_FD = ('fstat', 'fstat64', '__fxstat', '__fxstat64')
NOFOLLOW = ('lstat', 'lstat64', '__lxstat', '__lxstat64', 'readlink', 'readlinkat')
AT_FN = ('fstatat', 'fstatat64', 'newfstatat', '__fxstatat', 'statx')
AT_SYMLINK_NOFOLLOW = 0x100
IDENTITY = ('st_dev', 'st_ino')
WIDE = ('long', 'unsigned long', 'long long', 'unsigned long long', '__dev_t', '__ino_t', 'dev_t', 'ino_t', 'uint64_t', 'int64_t', 'uintmax_t', 'intmax_t',
        'size_t', 'ssize_t', '__ino64_t', 'ino64_t', 'unsigned long int', 'long int', 'long long int', 'unsigned long long int')


def _is_stat_rec(t):
    t = (t or '').replace('const ', '').strip()
    return t.startswith('struct stat') and not t.endswith('*') or t in ('struct statx',)


def _local_of(n, loc):
    n = n.strip_all()
    if n.kind == 'UnaryOperator' and n.opcode == '&':
        n = n.inner[0].strip_all()
    if n.kind == 'DeclRefExpr' and n.ref_kind == 'VarDecl' and n.ref_id in loc:
        return n.ref_id
    return None


def _const(n):
    """integer value of a flags expression made of literals and `|`, None when it is not a constant"""
    n = n.strip_all()
    v = n.int_value()
    if v is not None:
        return v
    if n.kind == 'BinaryOperator' and n.opcode == '|':
        a, b = _const(n.inner[0]), _const(n.inner[1])
        return None if a is None or b is None else a | b
    return None


def _zero_branch(call, _depth=0):
    """('then'|'else', IfStmt) when `call` is (the whole of) an if-condition: which arm runs when it returned 0; None otherwise"""
    n, pol = call, False           # pol False: truthy means "non-zero"
    p = n.parent
    while p is not None:
        if p.kind in ('ImplicitCastExpr', 'ParenExpr') or (p.kind == 'VarDecl' and False):
            n, p = p, p.parent
            continue
        if p.kind == 'UnaryOperator' and p.opcode == '!':
            pol = not pol
            n, p = p, p.parent
            continue
        if p.kind == 'BinaryOperator' and p.opcode in ('==', '!=', '<', '>=') and len(p.inner) == 2:
            other = p.inner[1] if p.inner[0] is n else p.inner[0]
            v = other.strip_all().int_value()
            if v == 0 and p.opcode in ('==', '!='):
                if p.opcode == '==':
                    pol = not pol
                n, p = p, p.parent
                continue
            if v == 0 and p.inner[0] is n and p.opcode in ('<', '>='):       # stat() < 0 : failure
                if p.opcode == '>=':
                    pol = not pol
                n, p = p, p.parent
                continue
            if v == -1 and p.opcode in ('==', '!='):
                if p.opcode == '!=':
                    pol = not pol
                n, p = p, p.parent
                continue
            return None
        break
    if p is not None and p.kind == 'IfStmt' and p.inner and p.inner[0] is n:
        return ('else' if not pol else 'then'), p
    if p is not None and p.kind == 'VarDecl' and n is call and _depth < 2:
        # `int rc = stat(..); if (rc ..)`: the one use of a local that is never assigned again
        fd = p.enclosing('FunctionDecl')
        if fd is None:
            return None
        uses = [x for x in fd.find('DeclRefExpr') if x.ref_id == p.id]
        if len(uses) != 1:
            return None
        q = uses[0].parent
        while q is not None and q.kind in ('ImplicitCastExpr', 'ParenExpr'):
            q = q.parent
        if q is not None and q.kind in ('BinaryOperator', 'CompoundAssignOperator') and q.opcode in ('=', '+=', '-=', '|=', '&=') and q.inner[0].strip() is uses[0]:
            return None
        if q is not None and q.kind == 'UnaryOperator' and q.opcode in ('++', '--', '&'):
            return None
        return _zero_branch(uses[0], _depth + 1)
    return None


def _inside(n, root):
    while n is not None:
        if n is root:
            return True
        n = n.parent
    return False


def _ends(stmt):
    """the statement always leaves the function (a return, or a block ending in one)"""
    if stmt is None:
        return False
    if stmt.kind == 'ReturnStmt':
        return True
    if stmt.kind == 'CompoundStmt' and stmt.inner:
        return _ends(stmt.inner[-1])
    if stmt.kind == 'CallExpr' and stmt.callee() in ('error', 'error_at', 'error_tok', 'exit', 'abort'):
        return True
    return False


def key_function_facts(M, g):
    """[(construct, ok|None, message, node)] for key function g; ok None = undecided"""
    un, fd = M.fn[g]
    loc = M._locals[g]
    pid = M._params[g][0][0]
    out = []
    queries = []       # (call, record local id | None)
    for c in fd.find('CallExpr'):
        cal = c.callee()
        a = c.args()
        if cal in NOFOLLOW:
            out.append(('query-follows-symlinks/%s' % cal, False,
                        '%s() derives the key from %s(), which describes a symbolic link itself, not the file open() reads through it: a file reached under two names of which one is a link '
                        'gets two different keys, the entry made under one name is not found under the other (a `#pragma once` header is read again and its #define/#undef run twice)' % (g, cal), c))
            queries.append((c, next((_local_of(x, loc) for x in a if x.strip_all().kind == 'UnaryOperator' and _local_of(x, loc) is not None), None)))
            continue
        if cal in AT_FN:
            fl = _const(a[3]) if len(a) > 3 else None
            if cal == 'statx':
                fl = _const(a[2]) if len(a) > 2 else None
            if fl is None:
                out.append(('query-follows-symlinks/%s' % cal, None, 'the flags of %s() in %s() are not a constant: cannot tell whether the query follows symbolic links' % (cal, g), c))
            else:
                out.append(('query-follows-symlinks/%s' % cal, not (fl & AT_SYMLINK_NOFOLLOW),
                            '%s() calls %s() with AT_SYMLINK_NOFOLLOW: the key describes a symbolic link itself, not the file open() reads through it, so one file has two keys' % (g, cal), c))
            queries.append((c, next((_local_of(x, loc) for x in a if _local_of(x, loc) is not None and x.strip_all().kind == 'UnaryOperator'), None)))
            continue
        if cal in FOLLOW or cal in FOLLOW_FD:
            out.append(('query-follows-symlinks/%s' % cal, True, '', c))
            rec = next((_local_of(x, loc) for x in a if x.strip_all().kind == 'UnaryOperator' and _local_of(x, loc) is not None), None)
            queries.append((c, rec))
            if cal in FOLLOW:
                i = FOLLOW[cal]
                p = a[i].strip_all() if i < len(a) else None
                okp = p is not None and p.kind == 'DeclRefExpr' and p.ref_kind == 'ParmVarDecl' and p.ref_id == pid
                if not okp and p is not None and p.kind == 'DeclRefExpr' and p.ref_kind == 'VarDecl' and p.ref_id in loc:
                    d = M._defs[g].get(p.ref_id, [])
                    if len(d) == 1 and d[0] is not None:
                        q = d[0].strip_all()
                        okp = q.kind == 'DeclRefExpr' and q.ref_kind == 'ParmVarDecl' and q.ref_id == pid
                out.append(('query-is-about-the-parameter/%s' % cal, okp,
                            '%s() asks %s() about something else than its own parameter: the key is not the identity of the file the caller is about to open' % (g, cal), c))
            continue
        if cal is not None and cal not in M.fn and any(_is_stat_rec(x.strip_all().inner[0].dtype if x.strip_all().kind == 'UnaryOperator' and x.strip_all().inner else None) for x in a):
            out.append(('query-follows-symlinks/%s' % cal, None, '%s() fills a stat record with %s(), which the analysis does not know: cannot tell whether the query follows symbolic links' % (g, cal), c))
    # the fields the key is made of
    reads = [m for m in fd.find('MemberExpr') if (m.name or '').startswith(('st_', 'stx_')) and m.inner and _is_stat_rec(m.inner[0].strip().dtype or m.inner[0].strip().type)]
    if not reads and not queries:
        return out            # a key function that does not consult the file system (a pure function of the spelling): nothing to say here
    names = {m.name for m in reads}
    for f in IDENTITY:
        out.append(('key-contains-%s' % f, f in names,
                    'the key %s() makes does not contain %s (it is made of %s): (st_dev, st_ino) together identify a file; without %s two different files can get the same key, '
                    'and the lookup for one is answered by the entry of the other (a header is never read)' % (g, f, ', '.join(sorted(names)) or 'no field of the record', f), fd))
    recs = {r for _, r in queries if r is not None}
    for m in reads:
        b = _local_of(m.inner[0], loc)
        if b is None or b not in recs:
            out.append(('field-read-from-the-queried-record/%s' % m.name, False if queries else None,
                        '%s() reads %s from a record that no file-system query of the function filled' % (g, m.name), m))
            continue
        # read only where the query has succeeded
        good = False
        for c, r in queries:
            if r != b:
                continue
            z = _zero_branch(c)
            if z is None:
                continue
            arm, ifs = z
            then = ifs.inner[1] if len(ifs.inner) > 1 else None
            els = ifs.inner[2] if len(ifs.inner) > 2 else None
            if arm == 'then':
                if then is not None and _inside(m, then):
                    good = True
                elif els is not None and _ends(els) and not _inside(m, ifs):
                    good = True
            else:
                if els is not None and _inside(m, els):
                    good = True
                elif _ends(then) and not _inside(m, ifs) and m.line >= ifs.line:
                    good = True
        out.append(('field-read-only-after-successful-query/%s' % m.name, good if good else (None if not any(_zero_branch(c) for c, r in queries if r == b) and queries else False),
                    '%s() reads %s where the query that fills the record has not succeeded (its result is not tested, or the read is on the failure arm): the key is made of indeterminate bytes, '
                    'so the same file gets different keys and different files can get the same one' % (g, m.name), m))
        # width and separation inside the string-building call
        p, arg = m.parent, m
        narrowed = None
        while p is not None and p.kind in ('ImplicitCastExpr', 'ParenExpr', 'CStyleCastExpr'):
            if p.kind == 'CStyleCastExpr':
                t = (p.dtype or p.type or '').strip()
                if t not in WIDE:
                    narrowed = t
            arg, p = p, p.parent
        if p is not None and p.kind == 'CallExpr':
            if m.name in IDENTITY:
                out.append(('full-width/%s' % m.name, narrowed is None,
                            '%s() narrows %s to `%s` before it goes into the key: two files whose numbers differ only in the dropped bits get the same key' % (g, m.name, narrowed), m))
        elif m.name in IDENTITY:
            out.append(('field-goes-into-the-key/%s' % m.name, None, '%s() uses %s in another way than as an argument of the call that builds the key' % (g, m.name), m))
    # the format: one conversion per number, separated by literal text
    for c in fd.find('CallExpr'):
        if c.callee() != 'format':
            continue
        a = c.args()
        nums = [x for x in a[1:] if any(y.kind == 'MemberExpr' and (y.name or '') in IDENTITY for y in x.walk())]
        if len(nums) < 2:
            continue
        s = a[0].strip_all().str_value() if a else None
        if s is None:
            out.append(('key-numbers-separated', None, 'the format of the key in %s() is not a string literal' % g, c))
            continue
        import re
        convs = list(re.finditer(r'%[-+ #0]*\d*(?:\.\d+)?(hh|h|ll|l|j|z|t)?([diuxXo])', s))
        sep = len(convs) == len(a) - 1 and all(convs[i].end() < convs[i + 1].start() and not s[convs[i].end():convs[i + 1].start()].isdigit() for i in range(len(convs) - 1))
        out.append(('key-numbers-separated', sep,
                    'the format "%s" of the key in %s() does not keep its %d numbers apart by literal text (or does not print each of them): different (st_dev, st_ino) pairs give the same string' % (s, g, len(a) - 1), c))
        wide = all(cv.group(1) in ('l', 'll', 'j', 'z') for cv in convs)
        out.append(('key-numbers-printed-at-full-width', wide or not convs,
                    'the format "%s" of the key in %s() prints a number with an int-sized conversion: the upper half of st_dev/st_ino does not reach the key' % (s, g), c))
    return out
