"""private helper of sa/rules/c17.py: which string does the key of a table access denote?

A memo table (a HashMap variable with static storage that is not keyed by token spelling) answers a question about the thing its
READER is given: the reader looks the table up under one of its own parameters.  A writer in another function enters "the same
thing" only if the key it passes is, by construction, that string:

* `origin(f, e)` names where the value of a key expression comes from, from def-use facts alone: an unmodified parameter, a record
  field, a literal, the result of a call.
* `KeyFlow(anchor)` is the set of origins that carry the reader's key: the anchor parameter itself; a parameter of a function that
  is handed a member of the set at a call site; a record field ALL of whose stores in the whole program store a member of the set
  (or copy the same field of another object) - i.e. a field that is given the key when the object is made and is never written again.
  A parameter that is not reached downwards is a member if every call site of its function passes a member (extracted helper).
"""

HM_OPS = {'hashmap_get': 'get', 'hashmap_get2': 'get', 'hashmap_put': 'put', 'hashmap_put2': 'put',
          'hashmap_delete': 'delete', 'hashmap_delete2': 'delete'}
IDENTITY_CALLS = ('strdup',)          # the result is the same string as argument 0


def _rec_name(t):
    t = (t or '').replace('const ', '').replace('volatile ', '').replace('struct ', '').replace('union ', '')
    return t.replace('*', '').strip()


def describe(o):
    if o[0] == 'param':
        return 'parameter `%s` of %s' % (o[3], o[1])
    if o[0] == 'field':
        return '%s.%s' % (o[1], o[2])
    if o[0] == 'lit':
        return 'the literal "%s"' % o[1]
    if o[0] == 'call':
        return 'the result of %s()' % o[1]
    if o[0] == 'modified-param':
        return 'parameter `%s` of %s (assigned in the function)' % (o[2], o[1])
    if o[0] == 'local':
        return 'local `%s` of %s (several definitions)' % (o[2], o[1])
    if o[0] == 'local1':
        return 'local `%s` of %s (%s)' % (o[2], o[1], describe(o[3]))
    if o[0] == 'global':
        return 'global `%s`' % o[1]
    return 'an expression (%s)' % (o[1],)


def slug(o):
    if o[0] == 'param':
        return 'parameter-%s-of-%s' % (o[3], o[1])
    if o[0] == 'field':
        return '%s.%s' % (o[1], o[2])
    if o[0] == 'lit':
        return 'literal'
    if o[0] == 'call':
        return 'result-of-%s' % o[1]
    if o[0] == 'local1':
        return slug(o[3])
    return o[0]


def recognised(o):
    """origins that definitely name some other string when they are not in the flow: another parameter, a field, a literal, a string a library
    function has just made; a local holding one of these"""
    if o is None:
        return False
    if o[0] == 'local1':
        return recognised(o[3])
    return o[0] in ('param', 'field', 'lit') or (o[0] == 'call' and not o[2])


class MemoKeys:
    def __init__(self, P, skip_units=('hashmap.c',)):
        self.P = P
        self.units = {}
        for un in P.unit_names:
            if un in skip_units:
                continue
            self.units[un] = P.unit(un)
        self.fn = {}           # function name -> (unit name, FunctionDecl); static functions of the same name in two units do not occur in this program
        self.dup = set()
        for un, u in self.units.items():
            for f, fd in u.functions.items():
                if f in self.fn:
                    self.dup.add(f)
                self.fn.setdefault(f, (un, fd))
        self._defs = {}        # fn -> {decl id: [rhs node | None]}
        self._params = {}      # fn -> [(decl id, name)]
        self._locals = {}      # fn -> {decl id}
        self.calls = {}        # callee -> [(unit, caller, call node)]
        self.stores = {}       # (rec, field) -> [(unit, fn, rhs node | None, node)]
        self.init_listed = set()
        self._omemo = {}
        self._rmemo = {}
        for f, (un, fd) in self.fn.items():
            self._index(un, f, fd)

    # ---- indexing
    def _index(self, un, f, fd):
        defs = {}
        self._params[f] = [(p.id, p.name) for p in fd.inner if p.kind == 'ParmVarDecl']
        loc = set(i for i, _ in self._params[f])
        for n in fd.walk():
            k = n.kind
            if k == 'VarDecl':
                loc.add(n.id)
                init = [x for x in n.inner if x.kind not in ('FullComment',) and not x.kind.endswith('Attr')]
                defs.setdefault(n.id, [])
                if init:
                    defs[n.id].append(init[-1])
            elif k == 'BinaryOperator' and n.opcode == '=':
                l = n.inner[0].strip()
                if l.kind == 'DeclRefExpr' and l.ref_kind in ('VarDecl', 'ParmVarDecl'):
                    defs.setdefault(l.ref_id, []).append(n.inner[1])
                elif l.kind == 'MemberExpr':
                    self.stores.setdefault((_rec_name(l.inner[0].type), l.name), []).append((un, f, n.inner[1], n))
            elif k == 'CompoundAssignOperator' or (k == 'UnaryOperator' and n.opcode in ('++', '--', '&')):
                l = n.inner[0].strip()
                if l.kind == 'DeclRefExpr' and l.ref_kind in ('VarDecl', 'ParmVarDecl'):
                    defs.setdefault(l.ref_id, []).append(None)
                elif l.kind == 'MemberExpr':
                    self.stores.setdefault((_rec_name(l.inner[0].type), l.name), []).append((un, f, None, n))
            elif k == 'CallExpr':
                c = n.callee()
                if c:
                    self.calls.setdefault(c, []).append((un, f, n))
            elif k == 'InitListExpr':
                # `T x = {}` gives no field a value of its own; an initialiser list with members does
                if any(x.kind != 'ImplicitValueInitExpr' for x in n.inner):
                    self.init_listed.add(_rec_name(n.type))
        self._defs[f] = defs
        self._locals[f] = loc

    # ---- where does the value of an expression come from
    def origin(self, f, e, depth=0):
        k = (f, id(e))
        r = self._omemo.get(k)
        if r is None:
            r = self._omemo[k] = self._origin(f, e, depth)
        return r

    def _ret_summary(self, c):
        """index of the parameter a function of the program returns on every path | 'fresh' (a string it has made) | None"""
        if c not in self._rmemo:
            self._rmemo[c] = None          # recursion guard
            rets = [self.origin(c, r.inner[0], 1) for r in self.fn[c][1].find('ReturnStmt') if r.inner]
            js = {o[2] for o in rets if o[0] == 'param' and o[1] == c}
            if rets and all(o[0] == 'param' and o[1] == c for o in rets) and len(js) == 1:
                self._rmemo[c] = min(js)
            elif self._fresh_result(c):
                self._rmemo[c] = 'fresh'
        return self._rmemo[c]

    def _origin(self, f, e, depth=0):
        e = e.strip_all()
        if depth > 8:
            return ('expr', 'too-deep')
        if e.kind == 'DeclRefExpr' and e.ref_kind == 'ParmVarDecl':
            ids = [i for i, _ in self._params.get(f, ())]
            if e.ref_id in ids:
                if self._defs[f].get(e.ref_id):
                    return ('modified-param', f, e.ref_name)
                return ('param', f, ids.index(e.ref_id), e.ref_name)
            return ('expr', 'foreign-parameter')
        if e.kind == 'DeclRefExpr' and e.ref_kind == 'VarDecl':
            if e.ref_id in self._locals.get(f, ()):
                d = self._defs[f].get(e.ref_id, [])
                if len(d) == 1 and d[0] is not None:
                    o = self.origin(f, d[0], depth + 1)
                    # a local that is defined once and holds something the analysis cannot name further still names ONE string
                    return o if o[0] in ('param', 'field', 'lit', 'local1', 'modified-param', 'local') else ('local1', f, e.ref_name, o)
                return ('local', f, e.ref_name)
            return ('global', e.ref_name)
        if e.kind == 'MemberExpr':
            return ('field', _rec_name(e.inner[0].type), e.name)
        if e.kind == 'StringLiteral':
            return ('lit', e.str_value())
        if e.kind == 'CallExpr':
            c = e.callee()
            if c in IDENTITY_CALLS and e.args():
                return self.origin(f, e.args()[0], depth + 1)
            if c in self.fn and c not in self.dup:
                # a function of the program that returns one of its parameters on every path
                rs = self._ret_summary(c)
                if isinstance(rs, int) and len(e.args()) > rs:
                    return self.origin(f, e.args()[rs], depth + 1)
                return ('call', c, rs != 'fresh')
            return ('call', c or '?', False)
        return ('expr', e.kind)

    def _fresh_result(self, g):
        """every `return` of g hands back a local none of whose definitions is (or reads) a parameter, field or global: the result is a string g has made"""
        fd = self.fn[g][1]
        rets = [r for r in fd.find('ReturnStmt') if r.inner]
        if not rets:
            return False
        for r in rets:
            e = r.inner[0].strip_all()
            if not (e.kind == 'DeclRefExpr' and e.ref_kind == 'VarDecl' and e.ref_id in self._locals.get(g, ())):
                return False
            for d in self._defs[g].get(e.ref_id, []):
                if d is None:
                    continue
                dd = d.strip_all()
                if not (dd.kind == 'CallExpr' and dd.callee() not in self.fn) and dd.kind not in ('StringLiteral', 'IntegerLiteral'):
                    return False
        return True

    # ---- accesses of tables with static storage
    def table_accesses(self):
        """{table id: [(op, unit, fn, call node, key node)]}; table id = (variable name, function of a static local | None)"""
        out = {}
        for cal, op in HM_OPS.items():
            for (un, f, c) in self.calls.get(cal, ()):
                a = c.args()
                if len(a) < 2:
                    continue
                t = a[0].strip_all()
                if not (t.kind == 'UnaryOperator' and t.opcode == '&'):
                    continue
                v = t.inner[0].strip()
                if not (v.kind == 'DeclRefExpr' and v.ref_kind == 'VarDecl'):
                    continue
                tid = (v.ref_name, f if v.ref_id in self._locals.get(f, ()) else None)
                out.setdefault(tid, []).append((op, un, f, c, a[1]))
        return out

    def flow(self, anchor):
        return KeyFlow(self, anchor)


class KeyFlow:
    def __init__(self, M, anchor):
        self.M = M
        self.anchor = anchor
        self.S = {self._k(anchor)}
        self._close()
        self._memo = {}

    @staticmethod
    def _k(o):
        return o[:3] if o[0] in ('param', 'local1') else o

    def _field_ok(self, key):
        """every store to the field stores a member (or copies the same field of another object)"""
        st = self.M.stores.get(key[1:], ())
        if not st or key[1] in self.M.init_listed:
            return False
        for (un, f, rhs, n) in st:
            if rhs is None:
                return False
            o = self.M.origin(f, rhs)
            if self._k(o) == key:
                continue
            if self._k(o) not in self.S:
                return False
        return True

    def _close(self):
        M = self.M
        changed = True
        while changed:
            changed = False
            for g, sites in M.calls.items():
                if g not in M.fn or g in M.dup:
                    continue
                ps = M._params[g]
                for (un, f, c) in sites:
                    for j, a in enumerate(c.args()):
                        if j >= len(ps):
                            break
                        k = ('param', g, j)
                        if k in self.S or M._defs[g].get(ps[j][0]):
                            continue
                        if self._k(M.origin(f, a)) in self.S:
                            self.S.add(k); changed = True
            for key in M.stores:
                k = ('field',) + key
                if k not in self.S and any(r is not None and self._k(M.origin(f, r)) in self.S for (_, f, r, _n) in M.stores[key]) and self._field_ok(k):
                    self.S.add(k); changed = True

    def member(self, o, seen=()):
        k = self._k(o)
        if k in self.S:
            return True
        if o[0] == 'param' and k not in seen:
            sites = self.M.calls.get(o[1], ())
            if sites and o[1] not in self.M.dup and all(len(c.args()) > o[2] and self.member(self.M.origin(f, c.args()[o[2]]), seen + (k,)) for (_, f, c) in sites):
                return True
        return False

    def foreign_stores(self, o):
        """for a field origin outside the flow: the stores that do not store the key [(unit, fn, origin | None, node)]"""
        out = []
        for (un, f, rhs, n) in self.M.stores.get(o[1:3], ()):
            ro = self.M.origin(f, rhs) if rhs is not None else None
            if ro is not None and (self._k(ro) == self._k(o) or self.member(ro)):
                continue
            out.append((un, f, ro, n))
        return out
