"""Private helpers of sa/rules/c18.py.

CutInterp: Engine I specialised for small scanning/filter loops over a char
buffer (tokenize.c: remove_backslash_newline, canonicalize_newline,
add_line_numbers, error_at):

  * reads and writes through an opaque `char *` are events
      ('bread', addr)                    value read = Term('byte', addr)
      ('bstore', addr, value, line)
    where addr is the pointer value as a linear term (base + index + const), so
    `p[i + 1]`, `*(p + i + 1)` and `*q` after `q = p + i + 1` are the same place;
  * the first loop executed by the explored function is CUT at its head
    (Floyd/Hoare style): every variable the loop assigns is replaced by a fresh
    symbol ("generic iteration"), the rule's invariant is assumed on those
    symbols, and one iteration is run.  A path ends either at the end of that
    iteration (outcome ('noreturn', '@iter_end', [snapshot], line)) or leaves the
    loop and runs to the end of the function.  The rule checks a per-iteration
    law on every path, which proves it for inputs of every length;
  * every other loop with a non-concrete, side-effect free condition that counts
    a linear term to a constant in steps of one is ACCELERATED: one iteration is
    run, its effect must be a constant increment of the variables it assigns
    and stores of loop-invariant bytes; the loop is then replaced by
    `trip count` copies of that effect ('bstore_run' event).  Anything else is
    Unsupported (=> undecided, exit 2).
"""
from .interp import (Interp, Ctx, Sym, Term, Lin, Obj, View, Arr, is_opaque, vkey, NoReturn, Infeasible,
                     Unsupported, ElemPlace, OpaquePlace, _Ref, _Break, _Continue, _Return, _StaticAlias, _UNINIT)
from .build import AnalysisBroken

INF = 1 << 70
CHAR_TYPES = ('char', 'const char', 'unsigned char', 'signed char', 'const unsigned char')


def lin(v):
    l = Lin.of(v)
    if l is None:
        return None
    return l if isinstance(l, Lin) else Lin(l)


def lsub(a, b):
    """a - b as int | Lin | leaf, or None when not linear"""
    la, lb = lin(a), lin(b)
    if la is None or lb is None:
        return None
    return la.add(lb, -1)


def ladd(a, b):
    la, lb = lin(a), lin(b)
    if la is None or lb is None:
        return None
    return la.add(lb)


def same(a, b):
    d = lsub(a, b)
    return isinstance(d, int) and d == 0


class BufPlace:
    __slots__ = ('addr', 'line')

    def __init__(self, addr, line):
        self.addr = addr; self.line = line

    def get(self, it):
        it.ctx.emit('bread', self.addr)
        return byte_of(self.addr)

    def set(self, it, v):
        it.ctx.emit('bstore', self.addr, v, self.line)


def byte_of(addr):
    return Term('byte', addr)


def byte_addr(v):
    """address of a value that is an unmodified input byte, else None"""
    if isinstance(v, Term) and v.op == 'byte':
        return v.args[0]
    return None


def _truth_of_key(ctx, key):
    """truth value the path has recorded for the condition with this key (fact, or bounds of a 0/1 term); None if unknown"""
    if key in ctx.facts:
        return bool(ctx.facts[key])
    b = ctx.bounds.get(key)
    if b:
        if b[0] == b[1]:
            return b[0] != 0
        if b[0] > 0 or b[1] < 0:
            return True
    if 0 in ctx.neq.get(key, ()):
        return True
    return None


def _truth_wrapped(ctx, key):
    """also through `cond != 0` / `cond == 0` wrappers (a comparison stored in a bool variable)"""
    t = _truth_of_key(ctx, key)
    if t is not None:
        return t
    t = _truth_wrapped_once(ctx, ('term', '!=', key, 0))
    if t is not None:
        return t
    t = _truth_wrapped_once(ctx, ('term', '==', key, 0))
    if t is not None:
        return not t
    return None


def _truth_wrapped_once(ctx, key):
    return _truth_of_key(ctx, key)


def fact_eq(ctx, v, c):
    """does the path know v == c (True) / v != c (False)? None if not"""
    k = vkey(v)
    for op, pol in (('==', True), ('!=', False)):
        for key in (('term', op, k, c), ('term', op, c, k)):
            t = _truth_wrapped(ctx, key)
            if t is not None:
                return t if pol else (not t)
    if c == 0:
        t = _truth_wrapped(ctx, k)        # the value itself used as a condition
        if t is not None:
            return not t
    return None


def known_byte(ctx, v):
    """(value) when the path pins v to one constant; None otherwise"""
    if isinstance(v, bool):
        return int(v)
    if isinstance(v, int):
        return v & 0xff if v < 0 else v
    if is_opaque(v):
        b = ctx.bounds.get(vkey(v))
        if b and b[0] == b[1]:
            return b[0]
        for c in (0, 10, 13, 92):
            if fact_eq(ctx, v, c) is True:
                return c
    return None


def may_be(ctx, v, c):
    """can v equal the constant c on this path?"""
    k = known_byte(ctx, v)
    if k is not None:
        return k == c
    if is_opaque(v):
        key = vkey(v)
        b = ctx.bounds.get(key)
        if b and (c < b[0] or c > b[1]):
            return False
        if c in ctx.neq.get(key, ()):
            return False
        if fact_eq(ctx, v, c) is False:
            return False
    return True


def contradictory(ctx, v):
    """the path claims two different constant values for v (the engine did not see the contradiction): infeasible path"""
    vals = set()
    if is_opaque(v):
        b = ctx.bounds.get(vkey(v))
        if b and b[0] == b[1]:
            vals.add(b[0])
        for c in (0, 10, 13, 92):
            t = fact_eq(ctx, v, c)
            if t is True:
                vals.add(c)
        for c in list(vals):
            if fact_eq(ctx, v, c) is False or c in ctx.neq.get(vkey(v), ()):
                return True
    return len(vals) > 1


def isnl(ctx, v):
    """newline indicator of a byte value: 1, 0, or a symbol when the path does not know"""
    if not may_be(ctx, v, 10):
        return 0
    if known_byte(ctx, v) == 10:
        return 1
    return Sym('isnl(%r)' % (v,))


def pinned(ctx, v):
    """value of a linear term when the path's bounds pin every leaf; else None"""
    if isinstance(v, bool):
        return int(v)
    if isinstance(v, int):
        return v
    l = lin(v)
    if l is None:
        return None
    tot = l.c
    for k, (c, leaf) in l.terms.items():
        b = ctx.bounds.get(k)
        if not b or b[0] != b[1]:
            return None
        tot += c * b[0]
    return tot


def lower_bound(ctx, v):
    if isinstance(v, int):
        return v
    l = lin(v)
    if l is None:
        return None
    tot = l.c
    for k, (c, leaf) in l.terms.items():
        b = ctx.bounds.get(k)
        if not b:
            return None
        if c > 0:
            if b[0] <= -INF:
                return None
            tot += c * b[0]
        else:
            if b[1] >= INF:
                return None
            tot += c * b[1]
    return tot


def _nonneg(v):
    return v is not None and v >= 0


def _assigned_vars(nodes):
    """ids of variables assigned anywhere in the given AST nodes -> DeclRefExpr node (for type/name)"""
    out = {}
    for root in nodes:
        if root is None:
            continue
        for n in root.walk():
            tgt = None
            if n.kind == 'UnaryOperator' and n.opcode in ('++', '--'):
                tgt = n.inner[0]
            elif n.kind == 'BinaryOperator' and n.opcode == '=':
                tgt = n.inner[0]
            elif n.kind == 'CompoundAssignOperator':
                tgt = n.inner[0]
            elif n.kind == 'UnaryOperator' and n.opcode == '&':
                tgt = n.inner[0]
            if tgt is None:
                continue
            t = tgt.strip()
            if t.kind == 'DeclRefExpr' and t.ref_kind in ('VarDecl', 'ParmVarDecl'):
                out.setdefault(t.ref_id, t)
    return out


def _has_side_effects(n):
    for x in n.walk():
        if x.kind in ('CallExpr', 'CompoundAssignOperator', 'StmtExpr'):
            return True
        if x.kind == 'UnaryOperator' and x.opcode in ('++', '--'):
            return True
        if x.kind == 'BinaryOperator' and x.opcode == '=':
            return True
    return False


class CutInterp(Interp):
    """see module docstring. cfg adds:
         'assume': f(it, ctx, head)   head = {var name: fresh value}; records the invariant as bounds
         'cut': as Interp
    """

    def __init__(self, program, unit, cfg=None):
        cfg = dict(cfg or {})
        self.assume = cfg.pop('assume', None)
        self.cut_loops = cfg.pop('cut_loops', True)
        Interp.__init__(self, program, unit, cfg)

    # ---- bookkeeping per path (lives on ctx) ----------------------------------
    def _st(self):
        ctx = self.ctx
        if not hasattr(ctx, 'c18'):
            ctx.c18 = {'cut_done': False, 'in_iter': False, 'names': {}}
        return ctx.c18

    def snapshot(self, env, ids):
        out = {}
        for i, ref in ids.items():
            if i in env:
                v = env[i]
                if isinstance(v, _StaticAlias):
                    v = self.ctx.globals[v.key]
                out[ref.ref_name] = v
        return out

    # ---- function end --------------------------------------------------------------
    def exec(self, s, env):
        if s.kind == 'CompoundStmt' and s.parent is not None and s.parent.kind == 'FunctionDecl' and self.ctx.depth == 1:
            names = {}
            for n in s.parent.walk():
                if n.kind in ('VarDecl', 'ParmVarDecl') and n.id:
                    names[n.id] = n.name
            try:
                Interp.exec(self, s, env)
            except _Return:
                self.ctx.emit('fn_end', {names.get(k, k): v for k, v in env.items()})
                raise
            self.ctx.emit('fn_end', {names.get(k, k): v for k, v in env.items()})
            return
        return Interp.exec(self, s, env)

    # ---- buffer places ---------------------------------------------------------------
    def _is_char(self, n):
        t = (n.dtype or n.type or '').replace('const ', '').strip()
        return t in ('char', 'unsigned char', 'signed char')

    def place(self, n, env):
        m = n.strip() if n.kind == 'ParenExpr' else n
        k = m.kind
        if k == 'ArraySubscriptExpr' and self._is_char(m):
            a = self.eval(m.inner[0], env)
            i = self.eval(m.inner[1], env)
            i = self.force(i) if isinstance(i, View) else i
            if is_opaque(a) and (is_opaque(i) or isinstance(i, int)):
                return BufPlace(self.arith('+', a, i, 'long'), m.line)
            if isinstance(a, View) or (isinstance(a, int) and a == 0):
                a = self.deref_target(a, m)
            if isinstance(a, _Ref):
                return a.at(self, i)
            return ElemPlace(a, i)
        if k == 'UnaryOperator' and m.opcode == '*' and self._is_char(m):
            p = self.eval(m.inner[0], env)
            if is_opaque(p):
                return BufPlace(p, m.line)
            if isinstance(p, View):
                p = self.deref_target(p, m)
            if isinstance(p, _Ref):
                return p.place
            if isinstance(p, (Arr, str)):
                return ElemPlace(p, 0)
            if is_opaque(p):
                return BufPlace(p, m.line)
            raise Unsupported('deref of %r at %s:%d' % (p, self.unit.name, m.line))
        return Interp.place(self, n, env)

    # ---- switch on an opaque value: the default arm excludes every case value -----------
    def pick_arm(self, v, arms, cond):
        ctx = self.ctx
        vv = self.settle(v) if isinstance(v, View) else v
        if not is_opaque(vv):
            return Interp.pick_arm(self, v, arms, cond)
        before = known_byte(ctx, vv)
        idx = Interp.pick_arm(self, vv, arms, cond)
        allvals = [x for (_, vals, _) in arms for x in vals]
        chosen_vals = [x for (i, vals, _) in arms if i == idx for x in vals]
        now = known_byte(ctx, vv)
        if now is not None and now in chosen_vals and before is None:
            return idx                      # a case arm was chosen
        if before is not None:
            # value already fixed by the path: only the matching arm (or default) is feasible
            want = None
            for (i, vals, is_def) in arms:
                if before in vals:
                    want = i
            if want is None:
                want = next((i for (i, vals, is_def) in arms if is_def), None)
            if idx != want:
                raise Infeasible('switch arm contradicts the path')
            return idx
        # default (or no arm): v differs from every case label
        ctx.neq.setdefault(vkey(vv), set()).update(allvals)
        return idx

    # ---- loops ------------------------------------------------------------------------
    def exec_loop(self, s, _unused, cond, inc, body, env):
        st = self._st()
        if self.cut_loops and not st['cut_done'] and self.ctx.depth == 1:
            return self._cut_loop(s, cond, inc, body, env, do=False)
        if cond is not None and not _has_side_effects(cond):
            return self._accel_loop(s, cond, inc, body, env)
        return Interp.exec_loop(self, s, _unused, cond, inc, body, env)

    def exec_do(self, s, env):
        st = self._st()
        if self.cut_loops and not st['cut_done'] and self.ctx.depth == 1:
            return self._cut_loop(s, s.inner[1], None, s.inner[0], env, do=True)
        return Interp.exec_do(self, s, env)

    def _havoc(self, ref):
        t = ref.dtype or ref.type or ''
        name = ref.ref_name + '@'
        v = self.lazy_value(t, name)
        return v

    def _cut_loop(self, s, cond, inc, body, env, do):
        ctx = self.ctx
        st = self._st()
        st['cut_done'] = True
        ids = _assigned_vars([cond, inc, body])
        ids = {i: r for i, r in ids.items() if i in env}
        entry = self.snapshot(env, ids)
        ctx.emit('loop_entry', entry, s.line, s.kind)
        head = {}
        for i, ref in ids.items():
            v = self._havoc(ref)
            env[i] = v
            head[ref.ref_name] = v
        if self.assume:
            self.assume(self, ctx, head)
        mark = len(ctx.events)
        ctx.emit('loop_head', head, s.line)
        left = False
        if not do:
            c = self.truth(self.eval(cond, env), cond) if cond is not None else True
            if not c:
                ctx.emit('loop_exit', self.snapshot(env, ids), 'cond-at-head')
                return
        try:
            self.exec(body, env)
        except _Break:
            ctx.emit('loop_exit', self.snapshot(env, ids), 'break')
            return
        except _Continue:
            pass
        if inc is not None:
            self.eval(inc, env)
        if do:
            c = self.truth(self.eval(cond, env), cond)
            if not c:
                ctx.emit('loop_exit', self.snapshot(env, ids), 'cond-after-body')
                return
        snap = self.snapshot(env, ids)
        ctx.emit('iter_end', snap)
        raise NoReturn('@iter_end', [snap], s.line)

    def _accel_loop(self, s, cond, inc, body, env):
        ctx = self.ctx
        d0 = self._cond_gap(cond, env)
        if d0 is None:
            return Interp.exec_loop(self, s, None, cond, inc, body, env)
        op, gap0 = d0
        if isinstance(gap0, int):
            return Interp.exec_loop(self, s, None, cond, inc, body, env)     # concrete loop
        c = self.truth(self.eval(cond, env), cond)
        if not c:
            ctx.emit('loop_done', s.line, 0)
            return
        ids = _assigned_vars([cond, inc, body])
        ids = {i: r for i, r in ids.items() if i in env}
        pre = {i: env[i] for i in ids}
        di, ntrail, nev = ctx.di, len(ctx.trail), len(ctx.events)
        try:
            self.exec(body, env)
        except (_Break, _Continue):
            raise Unsupported('break/continue in a loop that must be summarised at %s:%d' % (self.unit.name, s.line))
        if inc is not None:
            self.eval(inc, env)
        if ctx.di != di or len(ctx.trail) != ntrail:
            raise Unsupported('data-dependent branch inside a counting loop at %s:%d (cannot summarise)' % (self.unit.name, s.line))
        d1 = self._cond_gap(cond, env)
        if d1 is None or d1[0] != op:
            raise Unsupported('loop condition changes shape at %s:%d' % (self.unit.name, s.line))
        step = lsub(d1[1], gap0)
        if not isinstance(step, int):
            raise Unsupported('loop counter step is not constant at %s:%d' % (self.unit.name, s.line))
        # trip count from `gap (op) 0` with gap moving by step towards 0
        if op == '>' and step == -1:
            trips = gap0
        elif op == '>=' and step == -1:
            trips = ladd(gap0, 1)
        elif op == '<' and step == 1:
            trips = lsub(0, gap0)
        elif op == '<=' and step == 1:
            trips = ladd(lsub(0, gap0), 1)
        elif op == '!=' and step == -1 and _nonneg(lower_bound(ctx, gap0)):
            trips = gap0
        elif op == '!=' and step == 1 and _nonneg(lower_bound(ctx, lsub(0, gap0))):
            trips = lsub(0, gap0)
        else:
            raise Unsupported('loop at %s:%d is not a unit-step countdown/count-up to a bound (op %s, step %r): cannot summarise' % (self.unit.name, s.line, op, step))
        # per-iteration effect
        body_events = ctx.events[nev:]
        del ctx.events[nev:]
        stores = []
        for e in body_events:
            if e[0] == 'bstore':
                if not isinstance(e[2], int):
                    raise Unsupported('loop at %s:%d stores a value that is not a constant byte' % (self.unit.name, s.line))
                stores.append(e)
            elif e[0] == 'bread':
                raise Unsupported('loop at %s:%d reads the buffer (cannot summarise)' % (self.unit.name, s.line))
            else:
                raise Unsupported('loop at %s:%d has effect %s (cannot summarise)' % (self.unit.name, s.line, e[0]))
        tl = lin(trips)
        for i, ref in ids.items():
            dv = lsub(env[i], pre[i])
            if not isinstance(dv, int):
                raise Unsupported('variable %s does not change by a constant per iteration at %s:%d' % (ref.ref_name, self.unit.name, s.line))
            env[i] = ladd(pre[i], tl.scale(dv)) if dv else pre[i]
        if stores:
            a0 = stores[0][1]
            for k, e in enumerate(stores):
                if not same(e[1], ladd(a0, k)):
                    raise Unsupported('stores of one iteration are not consecutive at %s:%d' % (self.unit.name, s.line))
            # the next iteration must continue right behind
            ctx.emit('bstore_run', a0, trips, [e[2] for e in stores], stores[0][3])
            st = self._st()
            st.setdefault('runs', []).append((s.line, len(stores)))
        ctx.emit('loop_done', s.line, trips)
        ctx.note('loop@%d runs %r times' % (s.line, trips))

    def _cond_gap(self, cond, env):
        """normalise a pure loop condition to (op, gap) meaning `gap op 0`, gap linear; None if not of that shape.
        evaluated without forking (no truth())."""
        c = cond.strip()
        try:
            if c.kind == 'BinaryOperator' and c.opcode in ('>', '>=', '<', '<=', '!='):
                a = self.eval(c.inner[0], env)
                b = self.eval(c.inner[1], env)
                if isinstance(a, View) or isinstance(b, View):
                    return None
                g = lsub(a, b)
                if g is None:
                    return None
                return c.opcode, g
            if c.kind in ('DeclRefExpr',) or (c.kind == 'ImplicitCastExpr'):
                v = self.eval(cond, env)
                if isinstance(v, View) or lin(v) is None:
                    return None
                if isinstance(v, Term):
                    return None
                return '!=', v
        except Infeasible:
            raise
        return None


def explore(it, fname, make_args):
    """paths of fname: list of (ctx, outcome)"""
    return it.explore(fname, make_args)


def events(ctx, kind):
    return [e for e in ctx.events if e[0] == kind]


def first(ctx, kind):
    for e in ctx.events:
        if e[0] == kind:
            return e
    return None


def after(ctx, kind):
    """events after the first event of `kind`"""
    for i, e in enumerate(ctx.events):
        if e[0] == kind:
            return ctx.events[i + 1:]
    return []
