"""Private helper of sa/rules/c18.py: rules R18.4-R18.7."""
from .interp import Interp, Obj, Sym, Term, Lin, View, Cell, Arr, is_opaque, vkey, Unsupported, NoReturn, _Ref
from .build import AnalysisBroken
from .lib_c18 import lin, lsub, ladd, same

T = 'tokenize.c'
PP = 'preprocess.c'
CG = 'codegen.c'


def rest(P, rep):
    pu = P.unit(PP)
    return (('R18.4', r184, (P, rep)), ('R18.5', r185, (P, rep)),
            ('R18.6', r186_handlers, (P, pu, rep)), ('R18.6', r186_line_marker, (P, pu, rep)), ('R18.6', r186_origin, (P, pu, rep)),
            ('R18.7', r187, (P, rep)))


def _uncast(v):
    while isinstance(v, Term) and v.op.startswith('cast:') and len(v.args) == 1:
        v = v.args[0]
    return v


def _settle_obj(it, v):
    v = it.settle(v) if isinstance(v, View) else v
    return v


def _origin_null(it, o):
    """is o->origin known to be NULL on this path?"""
    if not isinstance(o, Obj) or 'origin' not in o.fields:
        return False
    v = o.fields['origin']
    v = it.settle(v) if isinstance(v, View) else v
    return isinstance(v, int) and v == 0


def _depth(label):
    return label.count('.origin') if label else 0


# ------------------------------------------------------------------------------ R18.6
def r186_handlers(P, u, rep):
    rep.rule('R18.6', '__LINE__ / __FILE__ are computed from the token of the OUTERMOST macro invocation (origin chain walked to its end) '
             'and from that token\'s file (#line delta / display name); #line N makes the next line N; every token of an expansion gets the invoking token as origin', floor=18)
    for fn, maker, what in (('line_macro', 'new_num_token', 'line'), ('file_macro', 'new_str_token', 'file')):
        W = '%s:%d' % (PP, u.fn(fn).line)
        base = '%s:%s' % (PP, fn)
        it = Interp(P, u, {'cut': {maker: None}, 'opaque': ['format', 'quote_string', 'tokenize', 'new_file'], 'loop_limit': 3})
        def mk(ctx):
            o = Obj('Token', lazy=True, label='tmpl')
            ctx.c18_root = o
            return [o]
        paths = it.explore(fn, mk)
        depths = set()
        for ctx, out in paths:
            if out[0] != 'ret':
                continue
            calls = [e for e in ctx.events if e[0] == 'call' and e[1] == maker]
            if len(calls) != 1:
                rep.undecided('R18.6', base + ':shape', 'a returning path does not build its result with one call of %s' % maker, where=W)
                continue
            val, src = calls[0][2][0], _settle_obj(it, calls[0][2][1])
            facts = {'path': ctx.trail, 'value': repr(val)}
            # which token objects does the value depend on?
            leaves = []
            l = lin(val) if what == 'line' else None
            if what == 'line':
                if l is None:
                    rep.undecided('R18.6', base + ':shape', 'the line value %r is not a sum of fields' % (val,), where=W)
                    continue
                leaves = [leaf for (c, leaf) in l.terms.values()]
            else:
                leaves = [val] if isinstance(val, Sym) else []
                if not leaves:
                    rep.undecided('R18.6', base + ':shape', 'the file name value %r is not a field' % (val,), where=W)
                    continue
            names = sorted(getattr(x, 'name', repr(x)) for x in leaves)
            # the outermost token on this path: deepest label whose origin is known NULL
            outer = None
            o = None
            # follow from tmpl
            cur = None
            for ctxobj in _walk_origin(it, ctx):
                cur = ctxobj
            outer = cur
            if outer is None:
                rep.undecided('R18.6', base + ':shape', 'cannot follow the origin chain on a path', where=W)
                continue
            L = outer.label
            d = _depth(L)
            depths.add(d)
            walked = _origin_null(it, outer)
            if what == 'line':
                want = sorted([L + '.line_no', L + '.file.line_delta'])
                okv = names == want and all(c == 1 for (c, _) in l.terms.values()) and l.c == 0
                used_tok = [n for n in names if n.endswith('.line_no')]
                used_file = [n for n in names if n.endswith('.line_delta')]
            else:
                want = [L + '.file.display_name']
                okv = names == want
                used_tok = []
                used_file = names
            # diagnose
            if not walked:
                # the token used is not known to be outermost
                rep.ob('R18.6', base + ':origin-walked-to-the-end/depth%d' % d, False,
                       '%s takes its result from the token reached after %d origin step(s) without having seen a NULL origin: for a macro used inside another macro\'s body the position of an intermediate #define is reported instead of the position of the outermost invocation' % (fn, d),
                       where=W, facts=facts)
                continue
            rep.ob('R18.6', base + ':origin-walked-to-the-end/depth%d' % d, True, '', where=W)
            if okv:
                rep.ob('R18.6', base + ':uses-outermost-token-and-its-file/depth%d' % d, True, '', where=W)
            else:
                bad_file = [n for n in used_file if not n.startswith(L + '.file.')]
                bad_tok = [n for n in used_tok if n != L + '.line_no']
                if bad_file and not bad_tok:
                    key, msg = ':file-of-inner-token', '%s combines the outermost token with %s, a field of the file of a token further in (read before the origin walk): for a macro defined in a header and used in a file under #line the delta / name of the header is applied to the line of the use' % (fn, ', '.join(bad_file))
                elif bad_tok:
                    key, msg = ':line-of-inner-token', '%s uses %s, not the line of the outermost invocation %s.line_no' % (fn, ', '.join(bad_tok), L)
                else:
                    key, msg = ':value', '%s computes %r, expected %s' % (fn, val, ' + '.join(want))
                rep.ob('R18.6', base + key + '/depth%d' % d, False, msg, where=W, facts=facts)
        if not ({0, 1, 2} <= depths):
            rep.undecided('R18.6', base + ':liveness', 'origin chains of depth 0, 1 and 2 were not all explored (%s)' % sorted(depths), where=W)


def _walk_origin(it, ctx):
    """objects tmpl, tmpl.origin, ... as far as this path materialised them with non-NULL origin"""
    # the root object is found through the events / facts: we re-walk from the argument stored on ctx by the arg maker
    root = getattr(ctx, 'c18_root', None)
    return _chain(it, root)


def _chain(it, root):
    out = []
    o = root
    while isinstance(o, Obj):
        out.append(o)
        v = o.fields.get('origin')
        if v is None:
            break
        v = it.settle(v) if isinstance(v, View) else v
        if isinstance(v, View):
            break          # undetermined
        o = v
    return out


def r186_line_marker(P, u, rep):
    fn = 'read_line_marker'
    W = '%s:%d' % (PP, u.fn(fn).line)
    base = '%s:%s' % (PP, fn)

    def cut_preprocess(it, ctx, call, args):
        t = Obj('Token', lazy=True, label='arg')
        ctx.emit('call', 'preprocess', args, call.line, t)
        return t

    def cut_copy_line(it, ctx, call, args):
        t = Obj('Token', lazy=True, label='linetoks')
        ctx.emit('call', 'copy_line', args, call.line, t)
        return t
    it = Interp(P, u, {'cut': {'preprocess': cut_preprocess, 'copy_line': cut_copy_line}, 'track_stores': True})
    def mk(ctx):
        return [Sym('rest', 'Token **'), Obj('Token', lazy=True, label='start')]
    n = 0
    for ctx, out in it.explore(fn, mk):
        if out[0] != 'ret':
            continue
        st = [e for e in ctx.events if e[0] == 'fstore' and e[2] == 'line_delta']
        if not st:
            rep.undecided('R18.6', base + ':shape', 'a returning path does not store line_delta', where=W)
            continue
        n += 1
        o, v = st[-1][1], _uncast(st[-1][4])
        facts = {'path': ctx.trail, 'stored': repr(v)}
        okf = isinstance(o, Obj) and o.label == 'start.file'
        rep.ob('R18.6', base + ':delta-of-the-directives-file', okf, '#line stores its delta into %r, not into the file of the directive' % (o,), where=W, facts=facts)
        want = lsub(lsub(Sym('arg.val'), Sym('start.line_no')), 1)
        d = lsub(v, want)
        if isinstance(d, int) and d == 0:
            rep.ob('R18.6', base + ':next-line-is-N', True, '', where=W)
        elif isinstance(d, int):
            rep.ob('R18.6', base + ':next-line-is-N%+d' % d, False,
                   '`#line N` on physical line L stores delta N - L%s; the line after the directive (L+1) is then presented as N%+d, C11 6.10.4p3 and gcc make it N: __LINE__ after any #line is off by %d' % ((' %+d' % (d - 1)) if d != 1 else '', d, d),
                   where=W, facts=facts)
        else:
            rep.ob('R18.6', base + ':delta-formula', False, '#line stores %r as delta, expected N - (L + 1) = %r' % (v, want), where=W, facts=facts)
        dn = [e for e in ctx.events if e[0] == 'fstore' and e[2] == 'display_name']
        if dn:
            okd = isinstance(dn[-1][1], Obj) and dn[-1][1].label == 'start.file' and getattr(dn[-1][4], 'name', '').endswith('.str')
            rep.ob('R18.6', base + ':display-name-from-the-string', okd, '#line "name" does not store the string operand as display name of the directive\'s file (%r)' % (dn[-1][4],), where=W, facts=facts)
    if n < 2:
        rep.undecided('R18.6', base + ':liveness', 'fewer than 2 returning paths store a delta (%d)' % n, where=W)


def r186_origin(P, u, rep):
    """expand_macro: every token of the expansion gets origin = the macro name token, on both paths"""
    fn = 'expand_macro'
    W = '%s:%d' % (PP, u.fn(fn).line)
    base = '%s:%s' % (PP, fn)

    def fresh(label):
        def h(it, ctx, call, args):
            t = Obj('Token', lazy=True, label=label)
            ctx.emit('call', call.callee(), args, call.line, t)
            return t
        return h

    def cut_args(it, ctx, call, args):
        # read_macro_args(&tok, tok, ...) moves tok to the closing parenthesis
        r = args[0]
        if isinstance(r, _Ref):
            r.place.set(it, Obj('Token', lazy=True, label='rparen'))
        ctx.emit('call', 'read_macro_args', args, call.line, None)
        return Sym('args', 'MacroArg *')

    def cut_equal(it, ctx, call, args):
        return View(Cell([0, 1], 'equal'))
    cfg = {'cut': {'add_hideset': fresh('body'), 'subst': fresh('substituted'), 'append': fresh('spliced'),
                   'read_macro_args': cut_args, 'equal': cut_equal},
           'opaque': ['hideset_contains', 'find_macro', 'hideset_union', 'hideset_intersection', 'new_hideset'],
           'track_stores': True, 'loop_limit': 2}
    it = Interp(P, u, cfg)
    def mk(ctx):
        return [Sym('rest', 'Token **'), Obj('Token', lazy=True, label='tok')]
    kinds = {}
    try:
        paths = it.explore(fn, mk)
    except Unsupported as e:
        rep.undecided('R18.6', base + ':shape', 'cannot interpret expand_macro: %s' % e, where=W)
        return
    eof = u.enum_value('TK_EOF')
    for ctx, out in paths:
        if out[0] != 'ret':
            continue
        rv = it.settle(out[1]) if isinstance(out[1], View) else out[1]
        names = [e[1] for e in ctx.events if e[0] == 'call']
        if 'add_hideset' not in names:
            continue      # not expanded, or builtin handler
        path = 'funclike' if 'read_macro_args' in names else 'objlike'
        body = [e[4] for e in ctx.events if e[0] == 'call' and e[1] == 'add_hideset'][-1]
        # tokens of the body visited: body, body.next, ... with kind != EOF
        toks = []
        o = body
        while isinstance(o, Obj):
            k = o.fields.get('kind')
            k = it.settle(k) if isinstance(k, View) else k
            if isinstance(k, int) and k == eof:
                break
            undecided_kind = k is None or (isinstance(k, View) and eof in [k.proj(c) for c in k.cell.cands])
            toks.append(o)
            if undecided_kind:
                break        # never examined: may be a real token; nothing is known behind it
            nx = o.fields.get('next')
            nx = it.settle(nx) if isinstance(nx, View) else nx
            o = nx if isinstance(nx, Obj) else None
        st = {id(e[1]): e[4] for e in ctx.events if e[0] == 'fstore' and e[2] == 'origin'}
        facts = {'path': ctx.trail[-10:]}
        if not toks:
            kinds.setdefault(path, set()).add('empty')
            continue
        kinds.setdefault(path, set()).add('tokens')
        missing = [t.label for t in toks if id(t) not in st]
        wrong = [(t.label, st[id(t)]) for t in toks if id(t) in st and not (isinstance(st[id(t)], Obj) and st[id(t)].label == 'tok')]
        if missing:
            rep.ob('R18.6', '%s:origin-set/%s' % (base, path), False,
                   'on the %s path of expand_macro a token of the expansion (%s) gets no origin: __LINE__/__FILE__ inside that macro\'s body report the position of the #define instead of the invocation' % (path, missing[0]), where=W, facts=facts)
        elif wrong:
            rep.ob('R18.6', '%s:origin-is-macro-token/%s' % (base, path), False,
                   'on the %s path the origin of an expansion token is %r, not the macro name token: __LINE__ reports the line of another token (e.g. the closing parenthesis of a multi-line invocation)' % (path, wrong[0][1]), where=W, facts=facts)
        else:
            rep.ob('R18.6', '%s:origin-set/%s' % (base, path), True, '', where=W)
    for pth in ('objlike', 'funclike'):
        if 'tokens' not in kinds.get(pth, ()):
            rep.undecided('R18.6', '%s:liveness/%s' % (base, pth), 'no %s expansion path with body tokens was explored' % pth, where=W)


# ------------------------------------------------------------------------------ R18.4
def r184(P, rep):
    rep.rule('R18.4', 'Token.line_no, the field diagnostics and .loc print, is written only by the physical line count (add_line_numbers) or copied from another token; '
             'error_tok/warn_tok pass the token\'s file name, contents, line_no and loc to verror_at, which prints that name and line', floor=4)
    nw = 0
    for un in P.unit_names:
        u = P.unit(un)
        for fname, fd in u.functions.items():
            for n in fd.walk():
                tgt = rhs = None
                op = None
                if n.kind == 'BinaryOperator' and n.opcode == '=':
                    tgt, rhs, op = n.inner[0], n.inner[1], '='
                elif n.kind == 'CompoundAssignOperator':
                    tgt, rhs, op = n.inner[0], n.inner[1], n.opcode
                elif n.kind == 'UnaryOperator' and n.opcode in ('++', '--'):
                    tgt, rhs, op = n.inner[0], None, n.opcode
                if tgt is None:
                    continue
                t = tgt.strip()
                if t.kind != 'MemberExpr' or t.name != 'line_no':
                    continue
                bt = (t.inner[0].dtype or t.inner[0].type or '')
                if 'Token' not in bt:
                    continue
                nw += 1
                where = '%s:%d' % (un, n.line)
                if fname == 'add_line_numbers' and un == T and op == '=':
                    rep.ob('R18.4', '%s:%s:line_no=physical-count' % (un, fname), True, '', where=where)
                    continue
                r = rhs.strip_all() if rhs is not None else None
                if op == '=' and r is not None and r.kind == 'MemberExpr' and r.name == 'line_no':
                    rep.ob('R18.4', '%s:%s:line_no=copied' % (un, fname), True, '', where=where)
                    continue
                what = op + (_short(r) if r is not None else '')
                rep.ob('R18.4', '%s:%s:line_no%s' % (un, fname, what), False,
                       '%s() changes Token.line_no (`line_no %s %s`): the field that diagnostics and .loc print next to the physical file name no longer denotes the physical line (after `#line 1000` an error on physical line 4 is reported as line 1001 of a 4-line file)' % (
                           fname, op, rhs.src() if rhs is not None else ''), where=where)
    if nw < 1:
        rep.undecided('R18.4', 'tokenize.c:add_line_numbers:writers', 'no writer of Token.line_no found')
    u = P.unit(T)
    for fn in ('error_tok', 'warn_tok'):
        W = '%s:%d' % (T, u.fn(fn).line)
        it = Interp(P, u, {'opaque': ['verror_at', '__builtin_va_start', '__builtin_va_end'], 'noreturn': ['exit']})
        n = 0
        try:
            paths = it.explore(fn, lambda ctx: [Obj('Token', lazy=True, label='tok'), Sym('fmt', 'char *')])
        except Unsupported as e:
            rep.undecided('R18.4', '%s:%s:shape' % (T, fn), 'cannot interpret: %s' % e, where=W)
            continue
        for ctx, out in paths:
            calls = [e for e in ctx.events if e[0] == 'call' and e[1] == 'verror_at']
            if len(calls) != 1:
                rep.undecided('R18.4', '%s:%s:shape' % (T, fn), 'a path does not call verror_at exactly once', where=W)
                continue
            n += 1
            a = calls[0][2]
            names = [getattr(x, 'name', repr(x)) for x in a[:4]]
            want = ['tok.file.name', 'tok.file.contents', 'tok.line_no', 'tok.loc']
            bad = [(w, g) for w, g in zip(want, names) if w != g]
            if not bad:
                rep.ob('R18.4', '%s:%s:passes-token-position' % (T, fn), True, '', where=W)
            else:
                rep.ob('R18.4', '%s:%s:passes-%s-for-%s' % (T, fn, bad[0][1], bad[0][0].split('.')[-1]), False,
                       '%s passes %s where the token\'s %s belongs: the diagnostic names another file, line or position than the token\'s' % (fn, bad[0][1], bad[0][0]), where=W)
        if n == 0:
            rep.undecided('R18.4', '%s:%s:no-path' % (T, fn), 'no path reaches verror_at', where=W)
    # verror_at prints "<filename>:<line_no>: "
    fn = 'verror_at'
    W = '%s:%d' % (T, u.fn(fn).line)
    pr = u.params(fn)
    found = False
    for c in u.fn(fn).calls('fprintf'):
        a = c.args()
        fmt = a[1].str_value() if len(a) > 1 else None
        if fmt and '%d' in fmt and '%s' in fmt and ':' in fmt and len(a) >= 4:
            found = True
            ok = fmt.startswith('%s:%d') and len(pr) >= 3 and a[2].src() == pr[0].name and a[3].src() == pr[2].name
            rep.ob('R18.4', '%s:%s:prints-name-and-line' % (T, fn), ok,
                   'verror_at prints `%s` with (%s, %s) instead of its file name and line number parameters' % (fmt.strip(), a[2].src(), a[3].src()), where='%s:%d' % (T, c.line))
    if not found:
        rep.undecided('R18.4', '%s:%s:no-location-prefix' % (T, fn), 'verror_at has no fprintf of a "%s:%d" location prefix', where=W)


def _short(n):
    if n.kind == 'MemberExpr':
        return n.name
    s = n.src()
    return ''.join(ch for ch in s if ch.isalnum() or ch in '_+-*.>')[:40]


def _tok_params(u, fname):
    return [p.name for p in u.params(fname) if (p.type or '').replace(' ', '') in ('Token*', 'structToken*')]


MAKERS = ('new_token', 'read_string_literal', 'read_utf16_string_literal', 'read_utf32_string_literal', 'read_char_literal')


def r185(P, rep):
    rep.rule('R18.5', 'a token synthesised from a template token (number/string tokens of builtin macros, `defined`, #, ##, converted string literals) '
             'carries the line and the file identity of its template', floor=8)
    tu = P.unit(T)
    eof = tu.enum_value('TK_EOF')
    sites = []      # (unit, function)
    for un in P.unit_names:
        u = P.unit(un)
        for fname, fd in u.functions.items():
            if un == T and (fname in ('tokenize', 'tokenize_file') or fname in MAKERS):
                continue
            if not _tok_params(u, fname):
                continue
            if fd.calls('tokenize') or fd.calls(MAKERS):
                sites.append((un, fname))
    if len(sites) < 3:
        rep.undecided('R18.5', 'preprocess.c:synthesisers', 'fewer than 3 functions synthesise tokens from a template (%s)' % sites)

    def cut_tokenize(it, ctx, call, args):
        f = it.settle(args[0]) if isinstance(args[0], View) else args[0]
        e = Obj('Token', lazy=False, label='synth.eof')
        e.fields.update({'kind': eof, 'line_no': 1, 'file': f})
        t = Obj('Token', lazy=True, label='synth')
        t.fields.update({'line_no': 1, 'file': f, 'next': e, 'origin': 0})
        ctx.emit('call', 'tokenize', args, call.line, t)
        return t

    def cut_maker(it, ctx, call, args):
        t = Obj('Token', lazy=True, label='scanned')
        t.fields.update({'line_no': 0, 'file': Sym('current_file', 'File *'), 'next': 0, 'origin': 0})
        ctx.emit('call', call.callee(), args, call.line, t)
        return t
    for un, fname in sorted(sites):
        u = P.unit(un)
        W = '%s:%d' % (un, u.fn(fname).line)
        base = '%s:%s' % (un, fname)
        cuts = {'tokenize': cut_tokenize}
        for m in MAKERS:
            cuts[m] = cut_maker
        it = Interp(P, u, {'cut': cuts, 'opaque': ['quote_string', 'format', 'join_tokens'], 'track_stores': True})
        params = u.params(fname)
        def mk(ctx, params=params):
            a = []
            for p in params:
                t = (p.type or '')
                if t.replace(' ', '') == 'Token*':
                    a.append(Obj('Token', lazy=True, label=p.name))
                else:
                    a.append(it.lazy_value(t, p.name))
            return a
        try:
            paths = it.explore(fname, mk)
        except Unsupported as e:
            rep.undecided('R18.5', base + ':shape', 'cannot interpret %s: %s' % (fname, e), where=W)
            continue
        tp = _tok_params(u, fname)
        n = 0
        for ctx, out in paths:
            if out[0] != 'ret':
                continue
            r = it.settle(out[1]) if isinstance(out[1], View) else out[1]
            if not isinstance(r, Obj) or r.label not in ('synth', 'scanned'):
                continue          # returns an existing token
            n += 1
            facts = {'path': ctx.trail}
            ln = r.fields.get('line_no')
            okl = isinstance(ln, Sym) and any(ln.name == t + '.line_no' for t in tp)
            how = 'tokenised as a fresh one-line file' if r.label == 'synth' else 'scanned outside tokenize() and never numbered'
            rep.ob('R18.5', base + ':line-inherited', okl,
                   'the token returned by %s is %s and keeps line_no %r instead of the line of its template token: a diagnostic or .loc on it names line %r' % (fname, how, ln, ln), where=W, facts=facts)
            f = r.fields.get('file')
            f = it.settle(f) if isinstance(f, View) else f
            okf = False
            why = repr(f)
            if isinstance(f, View) and f.tag == 'id' and any(f.cell.label == t + '.file' for t in tp):
                okf = True            # the template's own file pointer, copied
            elif isinstance(f, Obj):
                if f.label and any(f.label == t + '.file' for t in tp):
                    okf = True
                else:
                    nm, no = f.fields.get('name'), f.fields.get('file_no')
                    okf = any(getattr(nm, 'name', None) == t + '.file.name' and getattr(no, 'name', None) == t + '.file.file_no' for t in tp)
                    why = 'a new File(name=%r, file_no=%r)' % (nm, no)
            rep.ob('R18.5', base + ':file-identity-inherited', okf,
                   'the token returned by %s belongs to %s, not to a file with the name and number of its template\'s file: diagnostics name another file and .loc refers to another (or no) .file entry' % (fname, why), where=W, facts=facts)
        if n == 0:
            rep.undecided('R18.5', base + ':no-path', 'no path of %s returns a synthesised token' % fname, where=W)


def r187(P, rep):
    rep.rule('R18.7', 'gen_expr and gen_stmt emit `.loc <file_no of the node\'s token> <its line_no>` before any other output; '
             'codegen emits one `.file <file_no> "<name>"` per input file before any code; tokenize_file registers every file under its own number', floor=6)
    u = P.unit(CG)

    class _Stop(Exception):
        pass
    for fn in ('gen_expr', 'gen_stmt'):
        W = '%s:%d' % (CG, u.fn(fn).line)
        base = '%s:%s' % (CG, fn)

        def m_println(it, ctx, call, args):
            raise NoReturn('@emit', args, call.line)
        it = Interp(P, u, {'models': {'println': m_println}, 'opaque': ['count']})
        try:
            paths = it.explore(fn, lambda ctx: [Obj('Node', lazy=True, label='node')], max_paths=3000)
        except (Unsupported, AnalysisBroken) as e:
            rep.undecided('R18.7', base + ':shape', 'cannot interpret the head of %s: %s' % (fn, e), where=W)
            continue
        n = 0
        for ctx, out in paths:
            if out[0] != 'noreturn' or out[1] != '@emit':
                continue     # no output at all on this path, or a diagnostic
            n += 1
            a = out[2]
            tmpl = a[0] if a and isinstance(a[0], str) else None
            words = tmpl.split() if tmpl else []
            facts = {'path': ctx.trail[-6:], 'first_output': repr(a)}
            if not words or words[0] != '.loc':
                rep.ob('R18.7', base + ':loc-first', False,
                       '%s can emit `%s` before any .loc directive: the instructions of this node are attributed to the line of the previous node' % (fn, (tmpl or repr(a)).strip()), where='%s:%d' % (CG, out[3]), facts=facts)
                continue
            rep.ob('R18.7', base + ':loc-first', True, '', where=W)
            names = [getattr(x, 'name', repr(x)) for x in a[1:]]
            ok = names == ['node.tok.file.file_no', 'node.tok.line_no'] and words[1:] == ['%d', '%d']
            rep.ob('R18.7', base + ':loc-operands', ok,
                   '%s emits `%s` with (%s): expected the file number of the node\'s token and its line number, in this order' % (fn, tmpl.strip(), ', '.join(names)), where='%s:%d' % (CG, out[3]), facts=facts)
        if n == 0:
            rep.undecided('R18.7', base + ':no-output', '%s never reaches println' % fn, where=W)
    # codegen: .file per input file
    fn = 'codegen'
    W = '%s:%d' % (CG, u.fn(fn).line)
    base = '%s:%s' % (CG, fn)

    def cut_files(it, ctx, call, args):
        from .interp import ElemPlace
        return _Ref(ElemPlace(Arr([Obj('File', lazy=True, label='fileA'), Obj('File', lazy=True, label='fileB'), 0], label='files'), 0))

    def m_println2(it, ctx, call, args):
        ctx.emit('emit', args, call.line)
        return None
    it = Interp(P, u, {'cut': {'get_input_files': cut_files}, 'models': {'println': m_println2},
                       'opaque': ['assign_lvar_offsets', 'emit_data', 'emit_text']})
    try:
        paths = it.explore(fn, lambda ctx: [Obj('Obj', lazy=True, label='prog'), Sym('out', 'FILE *')])
    except (Unsupported, AnalysisBroken) as e:
        rep.undecided('R18.7', base + ':shape', 'cannot interpret codegen: %s' % e, where=W)
        paths = []
    for ctx, out in paths:
        if out[0] != 'ret':
            continue
        seq = [e for e in ctx.events if e[0] in ('emit', 'call')]
        files = []
        early = False
        for e in seq:
            if e[0] == 'call' and e[1] in ('emit_data', 'emit_text'):
                early = True
            if e[0] == 'emit' and isinstance(e[1][0], str) and e[1][0].split()[:1] == ['.file']:
                files.append((e[1][0], [getattr(x, 'name', repr(x)) for x in e[1][1:]], early))
        want = [['fileA.file_no', 'fileA.name'], ['fileB.file_no', 'fileB.name']]
        got = [f[1] for f in files]
        if any(not (x.startswith('fileA.') or x.startswith('fileB.')) for g in got for x in g):
            rep.undecided('R18.7', base + ':shape', 'cannot follow how codegen walks the file table (%s)' % (got,), where=W)
            continue
        ok = got == want and not any(f[2] for f in files) and all(f[0].split()[1:] == ['%d', '"%s"'] for f in files)
        rep.ob('R18.7', base + ':file-directive-per-input-file', ok,
               'for two input files codegen emits .file directives with operands %s (expected (file_no, name) of each file, once, before any code): a .loc then refers to a missing or wrong file entry' % (got,), where=W, facts={'path': ctx.trail})
    # tokenize_file registers the file it numbers
    tu = P.unit(T)
    fn = 'tokenize_file'
    W = '%s:%d' % (T, tu.fn(fn).line)

    def cut_new_file(it, ctx, call, args):
        f = Obj('File', lazy=True, label='newfile')
        ctx.emit('call', 'new_file', args, call.line, f)
        return f

    def cut_realloc(it, ctx, call, args):
        return Arr([], label='input_files')
    it = Interp(P, tu, {'cut': {'new_file': cut_new_file, 'realloc': cut_realloc},
                        'opaque': ['read_file', 'canonicalize_newline', 'remove_backslash_newline', 'convert_universal_chars', 'tokenize', 'memcmp']})
    n = 0
    try:
        paths = it.explore(fn, lambda ctx: [Sym('path', 'char *')])
    except (Unsupported, AnalysisBroken) as e:
        rep.undecided('R18.7', '%s:%s:shape' % (T, fn), 'cannot interpret tokenize_file: %s' % e, where=W)
        paths = []
    for ctx, out in paths:
        nf = [e for e in ctx.events if e[0] == 'call' and e[1] == 'new_file']
        if out[0] != 'ret' or not nf:
            continue
        n += 1
        arr = ctx.globals.get('input_files')
        no = nf[0][2][1]
        f = nf[0][4]
        # first call: static counter 0 -> number 1, slot 0, terminator in slot 1
        ok = isinstance(arr, Arr) and no == 1 and len(arr.elems) >= 2 and arr.elems[0] is f and arr.elems[1] == 0
        cnt = [v for k, v in ctx.globals.items() if str(k).startswith('static:')]
        ok = ok and cnt == [1]
        rep.ob('R18.7', '%s:%s:file-registered-under-its-number' % (T, fn), bool(ok),
               'the first file gets number %r and the file table is %r with counter %r afterwards (expected number 1, table [file, NULL], counter 1): .file entries and .loc file numbers do not match' % (no, getattr(arr, 'elems', arr), cnt), where=W, facts={'path': ctx.trail})
    if n == 0 and paths:
        rep.undecided('R18.7', '%s:%s:no-path' % (T, fn), 'no path of tokenize_file creates a file', where=W)
