"""Private helper of sa/rules/c18.py: rules R18.4-R18.7."""
from .interp import Interp, Obj, Sym, Term, Lin, View, Cell, Arr, is_opaque, vkey, Unsupported, NoReturn, _Ref
from .build import AnalysisBroken
from .lib_c18 import lin, lsub, ladd, same

T = 'tokenize.c'
PP = 'preprocess.c'
CG = 'codegen.c'


def rest(P, rep):
    pu = P.unit(PP)
    from .lib_c18c import r188
    from .lib_c18d import r189
    from .lib_c18f import r1810, r1811
    from .lib_c18g import r1812, r182_computed
    from .lib_c18h import r186_directive_end
    return (('R18.10', r1810, (P, rep)), ('R18.11', r1811, (P, rep)), ('R18.12', r1812, (P, rep)), ('R18.2', r182_computed, (P, rep)), ('R18.8', r188, (P, rep)), ('R18.9', r189, (P, rep)), ('R18.4', r184, (P, rep)), ('R18.5', r185, (P, rep)),
            ('R18.6', r186_handlers, (P, pu, rep)), ('R18.6', r186_line_marker, (P, pu, rep)), ('R18.6', r186_directive_end, (P, pu, rep)), ('R18.6', r186_origin, (P, pu, rep)),
            ('R18.7', r187, (P, rep)))


def _uncast(v):
    while isinstance(v, Term) and v.op.startswith('cast:') and len(v.args) == 1:
        v = v.args[0]
    return v


def _settle_obj(it, v):
    v = it.settle(v) if isinstance(v, View) else v
    return v


def _origin_null(it, o):
    """is o->origin known to be NULL on this path?"""
    if not isinstance(o, Obj) or 'origin' not in o.fields:
        return False
    v = o.fields['origin']
    v = it.settle(v) if isinstance(v, View) else v
    return isinstance(v, int) and v == 0


def _depth(label):
    return label.count('.origin') if label else 0


# ------------------------------------------------------------------------------ R18.6
def r186_handlers(P, u, rep):
    rep.rule('R18.6', '__LINE__ / __FILE__ are computed from the token of the OUTERMOST macro invocation (origin chain walked to its end) '
             'and from that token\'s file (#line delta / display name); #line N makes the next line N; every token of an expansion gets the invoking token as origin', floor=18)
    for fn, maker, what in (('line_macro', 'new_num_token', 'line'), ('file_macro', 'new_str_token', 'file')):
        W = '%s:%d' % (PP, u.fn(fn).line)
        base = '%s:%s' % (PP, fn)
        it = Interp(P, u, {'cut': {maker: None}, 'opaque': ['format', 'quote_string', 'tokenize', 'new_file'], 'loop_limit': 3})
        def mk(ctx):
            o = Obj('Token', lazy=True, label='tmpl')
            ctx.c18_root = o
            return [o]
        paths = it.explore(fn, mk)
        depths = set()
        for ctx, out in paths:
            if out[0] != 'ret':
                continue
            calls = [e for e in ctx.events if e[0] == 'call' and e[1] == maker]
            if len(calls) != 1:
                rep.undecided('R18.6', base + ':shape', 'a returning path does not build its result with one call of %s' % maker, where=W)
                continue
            val, src = calls[0][2][0], _settle_obj(it, calls[0][2][1])
            facts = {'path': ctx.trail, 'value': repr(val)}
            # which token objects does the value depend on?
            leaves = []
            l = lin(val) if what == 'line' else None
            if what == 'line':
                if l is None:
                    rep.undecided('R18.6', base + ':shape', 'the line value %r is not a sum of fields' % (val,), where=W)
                    continue
                leaves = [leaf for (c, leaf) in l.terms.values()]
            else:
                leaves = [val] if isinstance(val, Sym) else []
                if not leaves:
                    rep.undecided('R18.6', base + ':shape', 'the file name value %r is not a field' % (val,), where=W)
                    continue
            names = sorted(getattr(x, 'name', repr(x)) for x in leaves)
            # the outermost token on this path: deepest label whose origin is known NULL
            outer = None
            o = None
            # follow from tmpl
            cur = None
            for ctxobj in _walk_origin(it, ctx):
                cur = ctxobj
            outer = cur
            if outer is None:
                rep.undecided('R18.6', base + ':shape', 'cannot follow the origin chain on a path', where=W)
                continue
            L = outer.label
            d = _depth(L)
            depths.add(d)
            walked = _origin_null(it, outer)
            if what == 'line':
                want = sorted([L + '.line_no', L + '.file.line_delta'])
                okv = names == want and all(c == 1 for (c, _) in l.terms.values()) and l.c == 0
                used_tok = [n for n in names if n.endswith('.line_no')]
                used_file = [n for n in names if n.endswith('.line_delta')]
            else:
                want = [L + '.file.display_name']
                okv = names == want
                used_tok = []
                used_file = names
            # diagnose
            if not walked:
                # the token used is not known to be outermost
                rep.ob('R18.6', base + ':origin-walked-to-the-end/depth%d' % d, False,
                       '%s takes its result from the token reached after %d origin step(s) without having seen a NULL origin: for a macro used inside another macro\'s body the position of an intermediate #define is reported instead of the position of the outermost invocation' % (fn, d),
                       where=W, facts=facts)
                continue
            rep.ob('R18.6', base + ':origin-walked-to-the-end/depth%d' % d, True, '', where=W)
            if okv:
                rep.ob('R18.6', base + ':uses-outermost-token-and-its-file/depth%d' % d, True, '', where=W)
            else:
                bad_file = [n for n in used_file if not n.startswith(L + '.file.')]
                bad_tok = [n for n in used_tok if n != L + '.line_no']
                if bad_file and not bad_tok:
                    key, msg = ':file-of-inner-token', '%s combines the outermost token with %s, a field of the file of a token further in (read before the origin walk): for a macro defined in a header and used in a file under #line the delta / name of the header is applied to the line of the use' % (fn, ', '.join(bad_file))
                elif bad_tok:
                    key, msg = ':line-of-inner-token', '%s uses %s, not the line of the outermost invocation %s.line_no' % (fn, ', '.join(bad_tok), L)
                else:
                    key, msg = ':value', '%s computes %r, expected %s' % (fn, val, ' + '.join(want))
                rep.ob('R18.6', base + key + '/depth%d' % d, False, msg, where=W, facts=facts)
        if not ({0, 1, 2} <= depths):
            rep.undecided('R18.6', base + ':liveness', 'origin chains of depth 0, 1 and 2 were not all explored (%s)' % sorted(depths), where=W)


def _walk_origin(it, ctx):
    """objects tmpl, tmpl.origin, ... as far as this path materialised them with non-NULL origin"""
    # the root object is found through the events / facts: we re-walk from the argument stored on ctx by the arg maker
    root = getattr(ctx, 'c18_root', None)
    return _chain(it, root)


def _chain(it, root):
    out = []
    o = root
    while isinstance(o, Obj):
        out.append(o)
        v = o.fields.get('origin')
        if v is None:
            break
        v = it.settle(v) if isinstance(v, View) else v
        if isinstance(v, View):
            break          # undetermined
        o = v
    return out


def _multi_line(P, u, fn):
    from .lib_c18h import multi_line_directive
    return multi_line_directive(P, u, fn)


def r186_line_marker(P, u, rep):
    fn = 'read_line_marker'
    W = '%s:%d' % (PP, u.fn(fn).line)
    base = '%s:%s' % (PP, fn)

    def cut_preprocess(it, ctx, call, args):
        t = Obj('Token', lazy=True, label='arg')
        ctx.emit('call', 'preprocess', args, call.line, t)
        return t

    def cut_copy_line(it, ctx, call, args):
        t = Obj('Token', lazy=True, label='linetoks')
        ctx.emit('call', 'copy_line', args, call.line, t)
        return t
    # the operands of the directive are macro-expanded by whichever expansion pass is used (preprocess / preprocess2) and turned into
    # numbers by convert_pp_tokens: both are cut, the first result stands for the operand list
    def cut_convert(it, ctx, call, args):
        ctx.emit('call', 'convert_pp_tokens', args, call.line, None)
        return None
    import time as _time
    deadline = _time.time() + 12

    class _Budget(Interp):
        # a scan over unknown bytes written with pointer comparisons (`for (r = q; r < e; r++)`) is followed as a concrete loop over ever larger terms:
        # give up (undecided) instead of spinning; the concrete judgement of the end line (lib_c18h) does not depend on this exploration
        def cmp(self, op, a, b):
            if _time.time() > deadline:
                raise AnalysisBroken('exploration of %s exceeds its time budget (a scan over unknown bytes that is not bounded by a byte test)' % fn)
            return Interp.cmp(self, op, a, b)
    it = _Budget(P, u, {'cut': {'preprocess': cut_preprocess, 'preprocess2': cut_preprocess, 'convert_pp_tokens': cut_convert, 'copy_line': cut_copy_line}, 'track_stores': True})
    def mk(ctx):
        return [Sym('rest', 'Token **'), Obj('Token', lazy=True, label='start')]
    n = 0
    recs = []       # (constant part of the stored delta relative to N - (L + 1), the directive token whose line is L, facts) per returning path
    for ctx, out in it.explore(fn, mk):
        if out[0] != 'ret':
            continue
        st = [e for e in ctx.events if e[0] == 'fstore' and e[2] == 'line_delta']
        if not st:
            rep.undecided('R18.6', base + ':shape', 'a returning path does not store line_delta', where=W)
            continue
        n += 1
        o, v = st[-1][1], _uncast(st[-1][4])
        facts = {'path': ctx.trail, 'stored': repr(v)}
        okf = isinstance(o, Obj) and o.label == 'start.file'
        rep.ob('R18.6', base + ':delta-of-the-directives-file', okf, '#line stores its delta into %r, not into the file of the directive' % (o,), where=W, facts=facts)
        nsym = _line_operand(P, u, rep, ctx, v, base, W, facts)
        # which physical line the delta counts from: the line of a token of the directive (the keyword, an operand, the last token of the line)
        lv = lin(v)
        ltoks = sorted(set(leaf.name[:-len('.line_no')] for (c, leaf) in (lv.terms.values() if lv is not None else [])
                           if c == -1 and isinstance(leaf, Sym) and isinstance(leaf.name, str) and leaf.name.endswith('.line_no')))
        if len(ltoks) != 1:
            rep.ob('R18.6', base + ':delta-formula', False, '#line stores %r as delta, expected N - (L + 1) with L the line of the directive' % (v,), where=W, facts=facts)
        else:
            d = lsub(v, lsub(lsub(nsym, Sym(ltoks[0] + '.line_no')), 1))
            if isinstance(d, int):
                recs.append((d, ltoks[0], facts))
            else:
                rep.ob('R18.6', base + ':delta-formula', False, '#line stores %r as delta, expected N - (L + 1) = %r' % (v, lsub(lsub(nsym, Sym(ltoks[0] + '.line_no')), 1)), where=W, facts=facts)
        dn = [e for e in ctx.events if e[0] == 'fstore' and e[2] == 'display_name']
        if dn:
            okd = isinstance(dn[-1][1], Obj) and dn[-1][1].label == 'start.file' and getattr(dn[-1][4], 'name', '').endswith('.str')
            rep.ob('R18.6', base + ':display-name-from-the-string', okd, '#line "name" does not store the string operand as display name of the directive\'s file (%r)' % (dn[-1][4],), where=W, facts=facts)
    if recs:
        # a directive that is one physical line: the path on which nothing but the token's line is subtracted (the largest constant)
        d = max(r[0] for r in recs)
        facts = [r[2] for r in recs if r[0] == d][0]
        if d == 0:
            rep.ob('R18.6', base + ':next-line-is-N', True, '', where=W)
        else:
            rep.ob('R18.6', base + ':next-line-is-N%+d' % d, False,
                   '`#line N` on physical line L stores delta N - L%s; the line after the directive (L+1) is then presented as N%+d, C11 6.10.4p3 and gcc make it N: __LINE__ after any #line is off by %d' % ((' %+d' % (d - 1)) if d != 1 else '', d, d),
                   where=W, facts=facts)
        # the numbering restarts on the line that FOLLOWS the directive, and a directive ends where its new-line is: a comment (or a line splice) inside it may put
        # that new-line on a later physical line than any of its tokens. A delta that on every path is N minus the line of a token of the directive (plus a constant)
        # takes the line on which that token starts for the line the directive ends on; a function that counts what lies behind the last token subtracts more on some paths
        toks = sorted(set(r[1] for r in recs))
        on_dir = [t for t in toks if t.split('.', 1)[0] in ('start', 'linetoks', 'arg')]
        key = base + ':counted-from-the-line-the-directive-ends-on'
        if len(set(r[0] for r in recs)) > 1:
            rep.ob('R18.6', key + '/scans-behind-the-last-token', True, '', where=W)       # that the scan counts exactly the new-lines of the comments is decided on concrete tails by lib_c18h.r186_directive_end
        elif on_dir and _multi_line(P, u, fn) is True:
            # the symbolic exploration (one generic iteration per loop) saw the same constant on every path, e.g. because the new-lines are counted by a state
            # machine that needs several iterations; the concrete run on a directive with a three-line comment shows that the end line is used
            rep.ob('R18.6', key + '/scans-behind-the-last-token', True, '', where=W)
        elif on_dir and _multi_line(P, u, fn) is None:
            rep.undecided('R18.6', key, 'the delta is N minus the line of a token of the directive on every explored path, and the concrete run on a directive with a three-line comment is not conclusive', where=W)
        elif on_dir:
            rep.ob('R18.6', key + '/line-of-a-token-of-the-directive', False,
                   '#line computes its delta from %s.line_no on every path, the physical line on which a token of the directive starts: a directive that extends over several physical lines '
                   '(a comment with new-lines behind the operand, a line splice) ends later than any of its tokens, so every line after `#line 100 /* x\\n\\n */` is numbered too high '
                   'by the number of new-lines inside the directive (gcc counts from the line that follows the directive)' % on_dir[0], where=W, facts=recs[0][2])
        else:
            rep.undecided('R18.6', key, 'the delta is computed from the line of `%s`; whether that is the line the directive ends on is not decided' % toks[0], where=W)
    if n < 2:
        rep.undecided('R18.6', base + ':liveness', 'fewer than 2 returning paths store a delta (%d)' % n, where=W)


STRTO = ('strtol', 'strtoul', 'strtoll', 'strtoull', 'strtoimax', 'strtoumax')
ATOI = ('atoi', 'atol', 'atoll')


def _radix_by_prefix(P):
    """does the conversion that fills Token.val from a pp-number choose its radix from the spelling?  True / False / None (cannot tell):
    among the functions of tokenize.c reachable from convert_pp_tokens, a strto* call whose base is not the literal 10"""
    tu = P.unit(T)
    if 'convert_pp_tokens' not in tu.functions:
        return None
    from .lib_c18e import callgraph, closure
    fns = closure(callgraph(tu), ['convert_pp_tokens'])
    seen = None
    for f in fns:
        fd = tu.functions.get(f)
        if fd is None:
            continue
        for c in fd.walk():
            if c.kind == 'CallExpr' and c.callee() in STRTO and len(c.args()) == 3:
                try:
                    b = c.args()[2].strip_all().int_value()
                except Exception:
                    b = None
                if b != 10:
                    return True
                seen = False
    return seen


def _line_operand(P, u, rep, ctx, v, base, W, facts):
    """the operand N inside the stored delta, and how it was read from the spelling: `#line` takes a digit sequence that is read as a
    DECIMAL number whatever its leading zeros (C11 6.10.4p3), not an integer constant whose prefix selects the radix"""
    l = lin(v)
    others = [(c, leaf) for (c, leaf) in (l.terms.values() if l is not None else []) if not (getattr(leaf, 'name', None) or '').endswith('.line_no')]
    if len(others) != 1 or others[0][0] != 1:
        return Sym('arg.val')
    leaf = others[0][1]
    name = getattr(leaf, 'name', '') or ''
    key = base + ':operand-radix'
    if isinstance(leaf, Sym) and name.endswith('.val'):
        r = _radix_by_prefix(P)
        if r is None:
            rep.undecided('R18.6', key, 'the line number is taken from Token.val; cannot find how a pp-number is converted into it', where=W)
        else:
            rep.ob('R18.6', key + ('/integer-constant' if r else '/decimal'), not r,
                   'the operand of #line is converted like an integer constant (Token.val as filled by convert_pp_tokens: a leading 0 selects octal, 0x hexadecimal, 0b binary, suffixes are accepted): '
                   '`#line 010` selects line 8 where C11 6.10.4p3 (a digit sequence read as a decimal number) and gcc select line 10', where=W, facts=facts)
        return leaf
    calls = [e for e in ctx.events if e[0] == 'call' and e[1] in STRTO + ATOI and (e[4] is leaf or vkey(e[4]) == vkey(leaf))]
    if calls:
        e = calls[0]
        a = e[2]
        src = getattr(a[0], 'name', '') if a else ''
        if e[1] in ATOI:
            b = 10
        else:
            b = a[2] if len(a) > 2 and isinstance(a[2], int) else None
        if not src.endswith('.loc') or b is None:
            rep.undecided('R18.6', key, 'the line number is the result of %s(%s, ..): cannot tell what is converted in which base' % (e[1], src or '?'), where=W)
        elif b == 10:
            rep.ob('R18.6', key + '/decimal', True, '', where=W)
        else:
            rep.ob('R18.6', key + ('/integer-constant' if b == 0 else '/base-%d' % b), False,
                   'the operand of #line is read with %s(.., %d): %s, C11 6.10.4p3 makes it a digit sequence read as a decimal number' % (
                       e[1], b, 'a prefix selects the radix (`#line 010` is line 8)' if b == 0 else 'the digits are not read as decimal'), where=W, facts=facts)
        return leaf
    rep.undecided('R18.6', key, 'cannot tell how the line number %r is read from the operand of #line' % (leaf,), where=W)
    return leaf


def r186_origin(P, u, rep):
    """expand_macro: every token of the expansion gets origin = the macro name token, on both paths"""
    fn = 'expand_macro'
    W = '%s:%d' % (PP, u.fn(fn).line)
    base = '%s:%s' % (PP, fn)

    def fresh(label):
        def h(it, ctx, call, args):
            t = Obj('Token', lazy=True, label=label)
            ctx.emit('call', call.callee(), args, call.line, t)
            return t
        return h

    def cut_args(it, ctx, call, args):
        # read_macro_args(&tok, tok, ...) moves tok to the closing parenthesis
        r = args[0]
        if isinstance(r, _Ref):
            r.place.set(it, Obj('Token', lazy=True, label='rparen'))
        ctx.emit('call', 'read_macro_args', args, call.line, None)
        return Sym('args', 'MacroArg *')

    def cut_equal(it, ctx, call, args):
        return View(Cell([0, 1], 'equal'))
    cfg = {'cut': {'add_hideset': fresh('body'), 'subst': fresh('substituted'), 'append': fresh('spliced'),
                   'read_macro_args': cut_args, 'equal': cut_equal},
           'opaque': ['hideset_contains', 'find_macro', 'hideset_union', 'hideset_intersection', 'new_hideset'],
           'track_stores': True, 'loop_limit': 2}
    # any other helper of the unit that makes a token list from a token list (e.g. a pass applying ## to an object-like body) is a
    # producer of fresh tokens as far as this rule is concerned: what matters is that expand_macro stamps the final list
    for hname, hfd in u.functions.items():
        if hname != fn and hname not in cfg['cut'] and hname not in cfg['opaque'] and (hfd.type or '').split('(')[0].strip().replace(' ', '') == 'Token*':
            cfg['cut'][hname] = fresh(hname)
    it = Interp(P, u, cfg)
    def mk(ctx):
        return [Sym('rest', 'Token **'), Obj('Token', lazy=True, label='tok')]
    kinds = {}
    try:
        paths = it.explore(fn, mk)
    except Unsupported as e:
        rep.undecided('R18.6', base + ':shape', 'cannot interpret expand_macro: %s' % e, where=W)
        return
    eof = u.enum_value('TK_EOF')
    for ctx, out in paths:
        if out[0] != 'ret':
            continue
        rv = it.settle(out[1]) if isinstance(out[1], View) else out[1]
        names = [e[1] for e in ctx.events if e[0] == 'call']
        if 'add_hideset' not in names:
            continue      # not expanded, or builtin handler
        path = 'funclike' if 'read_macro_args' in names else 'objlike'
        body = [e[4] for e in ctx.events if e[0] == 'call' and e[1] == 'add_hideset'][-1]
        # tokens of the body visited: body, body.next, ... with kind != EOF
        toks = []
        o = body
        while isinstance(o, Obj):
            k = o.fields.get('kind')
            k = it.settle(k) if isinstance(k, View) else k
            if isinstance(k, int) and k == eof:
                break
            undecided_kind = k is None or (isinstance(k, View) and eof in [k.proj(c) for c in k.cell.cands])
            toks.append(o)
            if undecided_kind:
                break        # never examined: may be a real token; nothing is known behind it
            nx = o.fields.get('next')
            nx = it.settle(nx) if isinstance(nx, View) else nx
            o = nx if isinstance(nx, Obj) else None
        st = {id(e[1]): e[4] for e in ctx.events if e[0] == 'fstore' and e[2] == 'origin'}
        facts = {'path': ctx.trail[-10:]}
        if not toks:
            kinds.setdefault(path, set()).add('empty')
            continue
        kinds.setdefault(path, set()).add('tokens')
        missing = [t.label for t in toks if id(t) not in st]
        wrong = [(t.label, st[id(t)]) for t in toks if id(t) in st and not (isinstance(st[id(t)], Obj) and st[id(t)].label == 'tok')]
        if missing:
            rep.ob('R18.6', '%s:origin-set/%s' % (base, path), False,
                   'on the %s path of expand_macro a token of the expansion (%s) gets no origin: __LINE__/__FILE__ inside that macro\'s body report the position of the #define instead of the invocation' % (path, missing[0]), where=W, facts=facts)
        elif wrong:
            rep.ob('R18.6', '%s:origin-is-macro-token/%s' % (base, path), False,
                   'on the %s path the origin of an expansion token is %r, not the macro name token: __LINE__ reports the line of another token (e.g. the closing parenthesis of a multi-line invocation)' % (path, wrong[0][1]), where=W, facts=facts)
        else:
            rep.ob('R18.6', '%s:origin-set/%s' % (base, path), True, '', where=W)
    for pth in ('objlike', 'funclike'):
        if 'tokens' not in kinds.get(pth, ()):
            rep.undecided('R18.6', '%s:liveness/%s' % (base, pth), 'no %s expansion path with body tokens was explored' % pth, where=W)


# ------------------------------------------------------------------------------ R18.4
def r184(P, rep):
    rep.rule('R18.4', 'Token.line_no, the field diagnostics and .loc print, is written only by the physical line count (add_line_numbers today; R18.3) or copied from another token; '
             'error_tok/warn_tok pass the token\'s file name, contents, line_no and loc to verror_at, which prints that name and line', floor=4)
    nw = 0
    from .lib_c18e import stamp_architecture
    arch, counter_fn = stamp_architecture(P.unit(T))      # the function that stores the physical count (R18.3 decides whether it counts right)
    if arch not in ('pass', 'running'):
        counter_fn = None
    for un in P.unit_names:
        u = P.unit(un)
        for fname, fd in u.functions.items():
            for n in fd.walk():
                tgt = rhs = None
                op = None
                if n.kind == 'BinaryOperator' and n.opcode == '=':
                    tgt, rhs, op = n.inner[0], n.inner[1], '='
                elif n.kind == 'CompoundAssignOperator':
                    tgt, rhs, op = n.inner[0], n.inner[1], n.opcode
                elif n.kind == 'UnaryOperator' and n.opcode in ('++', '--'):
                    tgt, rhs, op = n.inner[0], None, n.opcode
                if tgt is None:
                    continue
                t = tgt.strip()
                if t.kind != 'MemberExpr' or t.name != 'line_no':
                    continue
                bt = (t.inner[0].dtype or t.inner[0].type or '')
                if 'Token' not in bt:
                    continue
                nw += 1
                where = '%s:%d' % (un, n.line)
                if counter_fn is not None and fname == counter_fn and un == T and op == '=':
                    rep.ob('R18.4', '%s:%s:line_no=physical-count' % (un, fname), True, '', where=where)
                    continue
                r = rhs.strip_all() if rhs is not None else None
                if op == '=' and r is not None and _line_copy(fd, r):
                    rep.ob('R18.4', '%s:%s:line_no=copied' % (un, fname), True, '', where=where)
                    continue
                what = op + (_short(r) if r is not None else '')
                rep.ob('R18.4', '%s:%s:line_no%s' % (un, fname, what), False,
                       '%s() changes Token.line_no (`line_no %s %s`): the field that diagnostics and .loc print next to the physical file name no longer denotes the physical line (after `#line 1000` an error on physical line 4 is reported as line 1001 of a 4-line file)' % (
                           fname, op, rhs.src() if rhs is not None else ''), where=where)
    if nw < 1:
        rep.undecided('R18.4', 'tokenize.c:add_line_numbers:writers', 'no writer of Token.line_no found')
    u = P.unit(T)
    for fn in ('error_tok', 'warn_tok'):
        W = '%s:%d' % (T, u.fn(fn).line)
        it = Interp(P, u, {'opaque': ['verror_at', '__builtin_va_start', '__builtin_va_end'], 'noreturn': ['exit']})
        n = 0
        try:
            paths = it.explore(fn, lambda ctx: [Obj('Token', lazy=True, label='tok'), Sym('fmt', 'char *')])
        except Unsupported as e:
            rep.undecided('R18.4', '%s:%s:shape' % (T, fn), 'cannot interpret: %s' % e, where=W)
            continue
        for ctx, out in paths:
            calls = [e for e in ctx.events if e[0] == 'call' and e[1] == 'verror_at']
            if len(calls) != 1:
                rep.undecided('R18.4', '%s:%s:shape' % (T, fn), 'a path does not call verror_at exactly once', where=W)
                continue
            n += 1
            a = calls[0][2]
            names = [getattr(x, 'name', repr(x)) for x in a[:4]]
            want = ['tok.file.name', 'tok.file.contents', 'tok.line_no', 'tok.loc']
            bad = [(w, g) for w, g in zip(want, names) if w != g]
            if not bad:
                rep.ob('R18.4', '%s:%s:passes-token-position' % (T, fn), True, '', where=W)
            else:
                rep.ob('R18.4', '%s:%s:passes-%s-for-%s' % (T, fn, bad[0][1], bad[0][0].split('.')[-1]), False,
                       '%s passes %s where the token\'s %s belongs: the diagnostic names another file, line or position than the token\'s' % (fn, bad[0][1], bad[0][0]), where=W)
        if n == 0:
            rep.undecided('R18.4', '%s:%s:no-path' % (T, fn), 'no path reaches verror_at', where=W)
    # verror_at prints "<filename>:<line_no>: "
    fn = 'verror_at'
    W = '%s:%d' % (T, u.fn(fn).line)
    pr = u.params(fn)
    found = False
    for c in u.fn(fn).calls('fprintf'):
        a = c.args()
        fmt = a[1].str_value() if len(a) > 1 else None
        if fmt and '%d' in fmt and '%s' in fmt and ':' in fmt and len(a) >= 4:
            found = True
            ok = fmt.startswith('%s:%d') and len(pr) >= 3 and a[2].src() == pr[0].name and a[3].src() == pr[2].name
            rep.ob('R18.4', '%s:%s:prints-name-and-line' % (T, fn), ok,
                   'verror_at prints `%s` with (%s, %s) instead of its file name and line number parameters' % (fmt.strip(), a[2].src(), a[3].src()), where='%s:%d' % (T, c.line))
    if not found:
        rep.undecided('R18.4', '%s:%s:no-location-prefix' % (T, fn), 'verror_at has no fprintf of a "%s:%d" location prefix', where=W)


def _line_copy(fd, r, depth=0):
    """r is some token's line_no, or a local variable of the function every definition of which is (initialiser, plain assignments; never modified otherwise, address not taken)"""
    r = r.strip_all()
    if r.kind == 'MemberExpr' and r.name == 'line_no':
        return True
    if r.kind != 'DeclRefExpr' or depth > 3:
        return False
    decl = [d for d in fd.walk() if d.kind == 'VarDecl' and d.name == r.ref_name and getattr(d, 'id', None) == r.ref_id]
    if len(decl) != 1 or decl[0].d.get('storageClass') == 'static':
        return False
    defs = [x for x in decl[0].inner if x.kind not in ('FullComment',)]
    for n in fd.walk():
        if n.kind in ('BinaryOperator', 'CompoundAssignOperator', 'UnaryOperator') and n.inner:
            t = n.inner[0].strip()
            if t.kind == 'DeclRefExpr' and t.ref_id == r.ref_id:
                if n.kind == 'BinaryOperator' and n.opcode == '=':
                    defs.append(n.inner[1])
                elif n.kind == 'CompoundAssignOperator' or n.opcode in ('++', '--', '&'):
                    return False
    return bool(defs) and all(_line_copy(fd, x, depth + 1) for x in defs)


def _short(n):
    if n.kind == 'MemberExpr':
        return n.name
    s = n.src()
    return ''.join(ch for ch in s if ch.isalnum() or ch in '_+-*.>')[:40]


def _tok_params(u, fname):
    return [p.name for p in u.params(fname) if (p.type or '').replace(' ', '') in ('Token*', 'structToken*')]


MAKERS = ('new_token', 'read_string_literal', 'read_utf16_string_literal', 'read_utf32_string_literal', 'read_char_literal')


def r185(P, rep):
    rep.rule('R18.5', 'a token synthesised from a template token (number/string tokens of builtin macros, `defined`, #, ##, converted string literals) '
             'carries the line and the file identity of its template, and of ONE template: every position field of a created or re-positioned token that is read from a token '
             '(line_no; the File pointer, or name, number and display name of the File made for it) is read from the same token', floor=8)
    tu = P.unit(T)
    eof = tu.enum_value('TK_EOF')
    sites = []      # (unit, function): creates a token outside tokenize(), or stores the line or the file of a token (a created token adjusted after a helper made it)
    from .lib_c18e import callgraph, closure
    scanner = closure(callgraph(tu), ['tokenize'])
    direct = set()
    for un in P.unit_names:
        u = P.unit(un)
        setters = _position_setters(u)
        for fname, fd in u.functions.items():
            if un == T and (fname in ('tokenize', 'tokenize_file') or fname in MAKERS):
                continue
            if not _tok_params(u, fname):
                continue
            if un == T and fname in scanner:
                continue          # the scanner and the line count themselves (R18.3)
            if fd.calls('tokenize') or fd.calls(MAKERS):
                direct.add(fname)
                sites.append((un, fname))
            elif _writes_position(fd, setters):
                sites.append((un, fname))
    if len(sites) < 3:
        rep.undecided('R18.5', 'preprocess.c:synthesisers', 'fewer than 3 functions synthesise tokens from a template (%s)' % sites)

    def cut_tokenize(it, ctx, call, args):
        f = it.settle(args[0]) if isinstance(args[0], View) else args[0]
        e = Obj('Token', lazy=False, label='synth.eof')
        e.fields.update({'kind': eof, 'line_no': 1, 'file': f})
        t = Obj('Token', lazy=True, label='synth')
        t.fields.update({'line_no': 1, 'file': f, 'next': e, 'origin': 0})
        ctx.emit('call', 'tokenize', args, call.line, t)
        return t

    def cut_maker(it, ctx, call, args):
        t = Obj('Token', lazy=True, label='scanned')
        t.fields.update({'line_no': 0, 'file': Sym('current_file', 'File *'), 'next': 0, 'origin': 0})
        ctx.emit('call', call.callee(), args, call.line, t)
        return t
    n_one = set()
    for un, fname in sorted(sites):
        u = P.unit(un)
        W = '%s:%d' % (un, u.fn(fname).line)
        base = '%s:%s' % (un, fname)
        cuts = {'tokenize': cut_tokenize}
        for m in MAKERS:
            cuts[m] = cut_maker
        it = Interp(P, u, {'cut': cuts, 'opaque': ['quote_string', 'format', 'join_tokens'], 'track_stores': True})
        params = u.params(fname)
        def mk(ctx, params=params):
            a = []
            for p in params:
                t = (p.type or '')
                if t.replace(' ', '') == 'Token*':
                    a.append(Obj('Token', lazy=True, label=p.name))
                else:
                    a.append(it.lazy_value(t, p.name))
            return a
        try:
            paths = it.explore(fname, mk)
        except Unsupported as e:
            rep.undecided('R18.5', base + ':shape', 'cannot interpret %s: %s' % (fname, e), where=W)
            continue
        tp = _tok_params(u, fname)
        n = 0
        for ctx, out in paths:
            if out[0] != 'ret':
                continue
            r = it.settle(out[1]) if isinstance(out[1], View) else out[1]
            facts = {'path': ctx.trail}
            for e in ctx.events:      # any other token whose line or file this path stores (a copy that is re-positioned)
                if e[0] == 'fstore' and e[2] in ('line_no', 'file') and isinstance(e[1], Obj) and e[1].tname == 'Token' and not (e[1] is r and r.label in ('synth', 'scanned')):
                    k1 = _one_template(it, rep, e[1], base, fname, W, facts)
                    n_one.add((base, k1))
                    if not k1 and _template_path(e[4]) is not None and e[1].label not in tp and not any(x[0] == 'fstore' and x[1] is e[1] and x[2] in ('line_no', 'file') and x[2] != e[2] for x in ctx.events):
                        rep.undecided('R18.5', base + ':one-template/%s-stored-alone' % e[2], '%s() stores the %s of `%s` into a token without storing the other half of the position; '
                                      'whether the token already is in the file of `%s` is not decided' % (fname, e[2], _template_path(e[4]), _template_path(e[4])), where=W)
            if not isinstance(r, Obj) or r.label not in ('synth', 'scanned'):
                if fname in direct:
                    continue          # returns an existing token
                n += 1
                continue
            n += 1
            facts = {'path': ctx.trail}
            ln = r.fields.get('line_no')
            okl = isinstance(ln, Sym) and any(ln.name == t + '.line_no' for t in tp)
            how = 'tokenised as a fresh one-line file' if r.label == 'synth' else 'scanned outside tokenize() and never numbered'
            rep.ob('R18.5', base + ':line-inherited', okl,
                   'the token returned by %s is %s and keeps line_no %r instead of the line of its template token: a diagnostic or .loc on it names line %r' % (fname, how, ln, ln), where=W, facts=facts)
            f = r.fields.get('file')
            f = it.settle(f) if isinstance(f, View) else f
            okf = False
            why = repr(f)
            if isinstance(f, View) and f.tag == 'id' and any(f.cell.label == t + '.file' for t in tp):
                okf = True            # the template's own file pointer, copied
            elif isinstance(f, Obj):
                if f.label and any(f.label == t + '.file' for t in tp):
                    okf = True
                else:
                    nm, no = f.fields.get('name'), f.fields.get('file_no')
                    okf = any(getattr(nm, 'name', None) == t + '.file.name' and getattr(no, 'name', None) == t + '.file.file_no' for t in tp)
                    why = 'a new File(name=%r, file_no=%r)' % (nm, no)
            _scratch_rescans_spellings(it, rep, ctx, base, fname, W, facts)
            n_one.add((base, _one_template(it, rep, r, base, fname, W, facts)))
            rep.ob('R18.5', base + ':file-identity-inherited', okf,
                   'the token returned by %s belongs to %s, not to a file with the name and number of its template\'s file: diagnostics name another file and .loc refers to another (or no) .file entry' % (fname, why), where=W, facts=facts)
        if n == 0:
            rep.undecided('R18.5', base + ':no-path', 'no path of %s returns a synthesised token' % fname, where=W)
    live = len(set(b for b, k in n_one if k > 0))
    if live < 2:
        rep.undecided('R18.5', 'preprocess.c:synthesisers:one-template-liveness', 'the line and the file of a created token could be traced to position fields of tokens in only %d functions '
                      '(expected at least 2): that both come from ONE template token is not decided' % live)


_POS_SUFFIX = (('.file.display_name', 'name'), ('.file.file_no', 'number'), ('.file.name', 'name'), ('.line_no', 'line'), ('.file', 'file'))


def _template_path(v):
    """the token a position value was read from: `hash.line_no` -> 'hash', `arg.file.name` -> 'arg', the File pointer `lhs.file` -> 'lhs'; None when the value
    is not a position field of a token (a constant, a global, a computed value: the other obligations of R18.5 judge those)"""
    nm = None
    if isinstance(v, Sym):
        nm = v.name
    elif isinstance(v, View) and v.tag == 'id':
        nm = v.cell.label
    elif isinstance(v, Obj):
        nm = v.label
    if not isinstance(nm, str):
        return None
    for suf, _ in _POS_SUFFIX:
        if nm.endswith(suf) and len(nm) > len(suf):
            return nm[:-len(suf)]
    return None


def position_sources(it, tok):
    """[(position field of the created token, template token it was read from)] for every position field diagnostics and .loc use (line_no; the File pointer, or the name,
    number and display name of a File made for the token) whose value is a position field of some token"""
    out = []
    t = _template_path(tok.fields.get('line_no'))
    if t is not None:
        out.append(('line_no', t))
    f = tok.fields.get('file')
    f = it.settle(f) if isinstance(f, View) else f
    t = _template_path(f)
    if t is not None:
        out.append(('file', t))
    elif isinstance(f, Obj):
        for fld in ('name', 'file_no', 'display_name'):
            t = _template_path(f.fields.get(fld))
            if t is not None:
                out.append(('file.' + fld, t))
    return out


def _one_template(it, rep, tok, base, fname, W, facts):
    """the position of a created token is ONE position: the line is a line OF the file. Every position field that is read from a token is read from the same token"""
    src = position_sources(it, tok)
    if len(src) < 2:
        return 0        # nothing to compare: line-inherited / file-identity-inherited judge a field that comes from no token
    ref_f, ref_t = src[0]
    for fld, t in src[1:]:
        rep.ob('R18.5', base + ':one-template/%s-and-%s' % (ref_f, fld), t == ref_t,
               'the token %s() creates takes its %s from `%s` and its %s from `%s`: two tokens that need not be in the same file (a macro defined in a header and used elsewhere, '
               'a macro argument written in another file than the macro body), so diagnostics and .loc on the token name line %s.line_no of the file of %s, a position where no such token is'
               % (fname, ref_f, ref_t, fld, t, ref_t, t), where=W, facts=facts)
    return len(src) - 1


def _writes_position(fd, setters=()):
    """the function assigns Token.line_no or Token.file, itself or through a helper that assigns them in a token it is given (`setters`)"""
    for n in fd.walk():
        if n.kind == 'BinaryOperator' and n.opcode == '=':
            t = n.inner[0].strip()
            if t.kind == 'MemberExpr' and t.name in ('line_no', 'file') and 'Token' in (t.inner[0].dtype or t.inner[0].type or ''):
                return True
        if setters and n.kind == 'CallExpr' and n.callee() in setters:
            return True
    return False


def _position_setters(u):
    """functions of the unit that assign line_no / file of a token they receive as a parameter: their callers position the token"""
    out = set()
    for fname, fd in u.functions.items():
        for n in fd.walk():
            if n.kind == 'BinaryOperator' and n.opcode == '=':
                t = n.inner[0].strip()
                if t.kind == 'MemberExpr' and t.name in ('line_no', 'file') and 'Token' in (t.inner[0].dtype or t.inner[0].type or ''):
                    b = t.inner[0].strip_all()
                    if b.kind == 'DeclRefExpr' and b.ref_kind == 'ParmVarDecl':
                        out.add(fname)
    return out


def _scratch_rescans_spellings(it, rep, ctx, base, fname, W, facts):
    """a scratch buffer that is tokenised under the NAME of the template's file: the scanner's own diagnostics (error_at) count lines inside
    the scratch buffer. Harmless while the buffer always scans (a number, a quoted string, one spelling); a buffer put together from the
    spellings of two or more tokens may not (`/` ## `*` opens a comment, `"` pieces an unclosed string)"""
    tz = [e for e in ctx.events if e[0] == 'call' and e[1] == 'tokenize']
    if not tz:
        return
    f = tz[-1][2][0] if tz[-1][2] else None
    f = it.settle(f) if isinstance(f, View) else f
    if not isinstance(f, Obj):
        return
    buf = f.fields.get('contents')
    if not (isinstance(buf, Term) and buf.op == 'format'):
        return
    spell = [a for a in buf.args[1:] if isinstance(a, Sym) and a.name.endswith('.loc')]
    if len(spell) < 2:
        return
    nm = f.fields.get('name')
    borrowed = isinstance(nm, Sym) and nm.name.endswith('.file.name')
    if not borrowed:
        return
    extra = sorted(k for k in f.fields if k not in ('name', 'display_name', 'file_no', 'contents'))
    key = base + ':scratch-of-several-spellings-scanned-under-the-template-name'
    if extra:
        rep.undecided('R18.5', key, 'the scratch File of %s carries %s; whether the scanner\'s diagnostics use it to name the template\'s line is not decided' % (fname, ', '.join(extra)), where=W)
        return
    rep.ob('R18.5', key, False,
           '%s() tokenises a buffer made of the spellings of %d tokens (%s) as a File that has the NAME of the template\'s file but its own contents: when the buffer does not scan '
           '(`/` ## `*` opens a comment that is never closed) the scanner\'s diagnostic (error_at) counts lines inside the scratch buffer and reports line 1 of the template\'s file, '
           'whatever line the tokens are on' % (fname, len(spell), ', '.join(a.name for a in spell)), where=W, facts=facts)


def r187(P, rep):
    rep.rule('R18.7', 'on every path of gen_expr and gen_stmt, entered in any remembered state (statics, written globals), the first line written for the node itself '
             '(helpers followed, generation of other nodes cut by contract) is `.loc <file_no of the node\'s token> <its line_no>`; '
             'codegen emits one `.file <file_no> "<name>"` per input file before any code; tokenize_file registers every file under its own number', floor=6)
    u = P.unit(CG)
    _r187_generators(P, u, rep)
    # codegen: .file per input file
    fn = 'codegen'
    W = '%s:%d' % (CG, u.fn(fn).line)
    base = '%s:%s' % (CG, fn)

    def cut_files(it, ctx, call, args):
        from .interp import ElemPlace
        return _Ref(ElemPlace(Arr([Obj('File', lazy=True, label='fileA'), Obj('File', lazy=True, label='fileB'), 0], label='files'), 0))

    def m_println2(nfixed):
        def h(it, ctx, call, args):
            ctx.emit('emit', list(args[max(nfixed - 1, 0):]), call.line)
            return None
        return h
    printers = _printers(u, _callgraph(u))      # println today: found by what it does (variadic, built on vfprintf), not by name
    if not printers:
        raise AnalysisBroken('codegen.c has no variadic printing function built on vfprintf (println vanished)')
    it = Interp(P, u, {'cut': {'get_input_files': cut_files}, 'models': {p: m_println2(k) for p, k in printers.items()},
                       'opaque': ['assign_lvar_offsets', 'emit_data', 'emit_text']})
    try:
        paths = it.explore(fn, lambda ctx: [Obj('Obj', lazy=True, label='prog'), Sym('out', 'FILE *')])
    except (Unsupported, AnalysisBroken) as e:
        rep.undecided('R18.7', base + ':shape', 'cannot interpret codegen: %s' % e, where=W)
        paths = []
    for ctx, out in paths:
        if out[0] != 'ret':
            continue
        seq = [e for e in ctx.events if e[0] in ('emit', 'call')]
        files = []
        early = False
        for e in seq:
            if e[0] == 'call' and e[1] in ('emit_data', 'emit_text'):
                early = True
            if e[0] == 'emit' and isinstance(e[1][0], str) and e[1][0].split()[:1] == ['.file']:
                files.append((e[1][0], [getattr(x, 'name', repr(x)) for x in e[1][1:]], early))
        want = [['fileA.file_no', 'fileA.name'], ['fileB.file_no', 'fileB.name']]
        got = [f[1] for f in files]
        if any(not (x.startswith('fileA.') or x.startswith('fileB.')) for g in got for x in g):
            rep.undecided('R18.7', base + ':shape', 'cannot follow how codegen walks the file table (%s)' % (got,), where=W)
            continue
        ok = got == want and not any(f[2] for f in files) and all(f[0].split()[1:] == ['%d', '"%s"'] for f in files)
        rep.ob('R18.7', base + ':file-directive-per-input-file', ok,
               'for two input files codegen emits .file directives with operands %s (expected (file_no, name) of each file, once, before any code): a .loc then refers to a missing or wrong file entry' % (got,), where=W, facts={'path': ctx.trail})
    # tokenize_file registers the file it numbers
    tu = P.unit(T)
    fn = 'tokenize_file'
    W = '%s:%d' % (T, tu.fn(fn).line)

    def cut_new_file(it, ctx, call, args):
        f = Obj('File', lazy=True, label='newfile')
        ctx.emit('call', 'new_file', args, call.line, f)
        return f

    def cut_realloc(it, ctx, call, args):
        return Arr([], label='input_files')
    it = Interp(P, tu, {'cut': {'new_file': cut_new_file, 'realloc': cut_realloc},
                        'opaque': ['read_file', 'canonicalize_newline', 'remove_backslash_newline', 'convert_universal_chars', 'tokenize', 'memcmp']})
    n = 0
    try:
        paths = it.explore(fn, lambda ctx: [Sym('path', 'char *')])
    except (Unsupported, AnalysisBroken) as e:
        rep.undecided('R18.7', '%s:%s:shape' % (T, fn), 'cannot interpret tokenize_file: %s' % e, where=W)
        paths = []
    for ctx, out in paths:
        nf = [e for e in ctx.events if e[0] == 'call' and e[1] == 'new_file']
        if out[0] != 'ret' or not nf:
            continue
        n += 1
        arr = ctx.globals.get('input_files')
        no = nf[0][2][1]
        f = nf[0][4]
        # first call: static counter 0 -> number 1, slot 0, terminator in slot 1
        ok = isinstance(arr, Arr) and no == 1 and len(arr.elems) >= 2 and arr.elems[0] is f and arr.elems[1] == 0
        cnt = [v for k, v in ctx.globals.items() if str(k).startswith('static:') and not isinstance(v, (Obj, Arr, View))]      # the counter, not a table kept beside it
        ok = ok and cnt == [1]
        rep.ob('R18.7', '%s:%s:file-registered-under-its-number' % (T, fn), bool(ok),
               'the first file gets number %r and the file table is %r with counter %r afterwards (expected number 1, table [file, NULL], counter 1): .file entries and .loc file numbers do not match' % (no, getattr(arr, 'elems', arr), cnt), where=W, facts={'path': ctx.trail})
    if n == 0 and paths:
        rep.undecided('R18.7', '%s:%s:no-path' % (T, fn), 'no path of tokenize_file creates a file', where=W)


# ------------------------------------------------------------------------------ R18.7: the generators
GEN = ('gen_expr', 'gen_stmt')
# stdio output primitives: index of the template/string argument (None: no template), index of the stream argument
RAW_OUT = {'fprintf': (1, 0), 'vfprintf': (1, 0), 'fputs': (0, 1), 'fputc': (None, 1), 'putc': (None, 1), 'fwrite': (None, 3),
           'printf': (0, None), 'vprintf': (0, None), 'puts': (0, None), 'putchar': (None, None)}
MAX_PATHS = 3000        # paths per generator
MAX_BAD = 24            # stop exploring once this many paths without a leading .loc are on record
BUDGET_S = 12.0         # wall clock per generator


def _callgraph(u):
    return {fn: set(c.callee() for c in fd.walk() if c.kind == 'CallExpr' and c.callee()) for fn, fd in u.functions.items()}


def _reaching(calls, targets):
    """functions of the unit from which a target is reachable (targets included)"""
    r = set(targets)
    changed = True
    while changed:
        changed = False
        for f, cs in calls.items():
            if f not in r and cs & r:
                r.add(f)
                changed = True
    return r


def _printers(u, calls):
    """name -> number of named parameters, for the variadic functions of the unit that hand their arguments to v(f)printf
    (println today; found by what they do, not by name)"""
    out = {}
    for fn, fd in u.functions.items():
        if '...' in (fd.type or '') and calls.get(fn, set()) & {'vfprintf', 'vprintf'}:
            out[fn] = len(u.params(fn))
    return out


def _scalar(t):
    t = (t or '').replace('const ', '').replace('volatile ', '').strip()
    return t.endswith('*') or t in ('int', 'long', 'unsigned int', 'unsigned long', 'short', 'char', 'bool', '_Bool', 'unsigned char',
                                   'unsigned short', 'long long', 'unsigned long long', 'size_t', 'int64_t', 'uint64_t', 'int32_t', 'uint32_t')


def _written_ids(u):
    """ids of the variables some function of the unit assigns, increments or takes the address of"""
    ids = set()
    for fd in u.functions.values():
        for n in fd.walk():
            tgt = None
            if n.kind == 'BinaryOperator' and n.opcode == '=':
                tgt = n.inner[0]
            elif n.kind == 'CompoundAssignOperator':
                tgt = n.inner[0]
            elif n.kind == 'UnaryOperator' and n.opcode in ('++', '--', '&'):
                tgt = n.inner[0]
            if tgt is not None:
                t = tgt.strip()
                if t.kind == 'DeclRefExpr' and t.ref_id:
                    ids.add(t.ref_id)
    return ids


def _state_vars(u):
    """remembered state a generator may consult: function-scope statics and initialised file-scope variables of scalar type that
    the unit writes. A generator is entered in ANY such state, so they start as symbols, not as their initialisers."""
    wr = _written_ids(u)
    statics, globs = [], []
    for fn, fd in u.functions.items():
        for n in fd.walk():
            if n.kind == 'VarDecl' and n.d.get('storageClass') == 'static' and _scalar(n.dtype or n.type) and n.id in wr:
                statics.append((n.id, 'state:%s.%s' % (fn, n.name), n.dtype or n.type))
    for name, g in u.globals.items():
        if 'init' in g.d and _scalar(g.dtype or g.type) and g.id in wr:
            globs.append((name, 'state:%s' % name, g.dtype or g.type))
    return statics, globs


def _explore_budget(it, u, fname, make_args, is_bad):
    """Interp.explore with three caps: number of paths, number of `bad` paths on record, wall clock. -> (paths, reason the exploration is partial | None)"""
    import time
    from .interp import Ctx, NeedChoice, Infeasible
    fn = u.functions[fname]
    out, stack, nbad, t0 = [], [[]], 0, time.process_time()      # CPU time: independent of the load of the machine
    while stack:
        dec = stack.pop()
        ctx = Ctx(dec)
        it.ctx = ctx
        try:
            args = make_args(ctx)
            v = it.call_fn(u, fn, args)
            out.append((ctx, ('ret', v)))
        except NeedChoice as e:
            for a in range(e.n - 1, -1, -1):
                stack.append(dec + [a])
        except Infeasible:
            pass
        except NoReturn as e:
            o = ('noreturn', e.fn, e.args_, e.line)
            out.append((ctx, o))
            if is_bad(o):
                nbad += 1
        if nbad >= MAX_BAD and stack:
            return out, 'stopped after %d paths whose first output is not a .loc directive' % nbad
        if len(out) + len(stack) > MAX_PATHS:
            return out, 'more than %d paths' % MAX_PATHS
        if time.process_time() - t0 > BUDGET_S and stack:
            return out, 'time budget of %d s used up after %d paths' % (BUDGET_S, len(out))
    return out, None


def _leaf_names(key, acc):
    if isinstance(key, tuple):
        if len(key) == 2 and key[0] == 'sym' and isinstance(key[1], str):
            acc.add(key[1])
        else:
            for k in key:
                _leaf_names(k, acc)
    return acc


def _position_pins(it, ctx, ptr_state):
    """fields of the node's own token that this path knows to be EQUAL to something (a remembered value, a constant):
    {'line_no': other, 'file.file_no': other, 'file': other, ...}"""
    pins = {}
    eqs = []
    for key, val in ctx.facts.items():
        if isinstance(key, tuple) and len(key) == 4 and key[0] == 'term' and key[1] in ('==', '!=') and bool(val) == (key[1] == '=='):
            eqs.append((key[2], key[3]))
            eqs.append((key[3], key[2]))
    for a, b in eqs:
        if isinstance(a, tuple) and len(a) == 2 and a[0] in ('sym', 'obj') and str(a[1]).startswith('node.tok.'):
            other = sorted(_leaf_names(b, set())) if isinstance(b, tuple) else [repr(b)]
            pins[a[1][len('node.tok.'):]] = ', '.join(other) or repr(b)
    # a token field that is a pointer and NULL on this path, compared with a remembered pointer
    root = getattr(ctx, 'c18_root', None)
    tok = _settle_obj(it, root.fields.get('tok')) if isinstance(root, Obj) else None
    if isinstance(tok, Obj):
        for fld, v in tok.fields.items():
            v = _settle_obj(it, v)
            if isinstance(v, int) and not isinstance(v, bool) and v == 0:
                for a, b in eqs:
                    if a == 0 and isinstance(b, tuple) and len(b) == 2 and b[0] == 'sym' and b[1] in ptr_state:
                        pins[fld] = b[1]
    return pins


def _r187_generators(P, u, rep):
    """every path of gen_expr/gen_stmt from entry to the FIRST line it writes for its own node: that line is `.loc` with the file number and
    line of the node's own token. Helpers are followed (whoever prints, and with whatever parameter names); calls that generate ANOTHER node
    are cut by contract; the generator is entered in any remembered state."""
    calls = _callgraph(u)
    REC = _reaching(calls, set(GEN))
    printers = _printers(u, calls)
    if not printers:
        raise AnalysisBroken('codegen.c has no variadic printing function built on vfprintf (println vanished)')
    statics, globs = _state_vars(u)
    ptr_state = set(label for (_, label, t) in statics + globs if '*' in (t or ''))

    def m_printer(nfixed):
        def h(it, ctx, call, args):
            raise NoReturn('@emit', list(args[max(nfixed - 1, 0):]), call.line)
        return h

    def m_raw(name):
        ti, si = RAW_OUT[name]
        def h(it, ctx, call, args):
            if si is not None and si < len(args) and 'stderr' in str(getattr(args[si], 'name', '')):
                return None         # a diagnostic, not output
            a = ([args[ti]] + list(args[ti + 1:] if name.endswith('printf') else [])) if (ti is not None and ti < len(args)) else [None]
            raise NoReturn('@emit', a, call.line)
        return h

    def h_rec(it, ctx, call, args):
        """a function from which gen_expr/gen_stmt are reachable: followed while it works on the SAME node, cut when it generates another one"""
        name = call.callee()
        root = getattr(ctx, 'c18_root', None)
        if root is not None and any(a is root for a in args) and ctx.rec.get(name, 0) == 0:
            u2, fd = it.find_def(name)
            if fd is not None:
                return it.call_fn(u2, fd, args)
        t = call.dtype or call.type
        r = None if t == 'void' else it.lazy_value(t, ctx.fresh(name))
        ctx.emit('call', name, args, call.line, r)
        return r

    models = {p: m_printer(n) for p, n in printers.items()}
    for r in RAW_OUT:
        if r not in u.functions:
            models[r] = m_raw(r)
    for fn in GEN:
        W = '%s:%d' % (CG, u.fn(fn).line)
        base = '%s:%s' % (CG, fn)
        cfg = {'models': models, 'opaque': ['count'], 'cut': {f: h_rec for f in REC if f not in printers},
               'globals': {name: Sym(label, t) for (name, label, t) in globs}}
        it = Interp(P, u, cfg)

        def mk(ctx):
            for (vid, label, t) in statics:
                ctx.globals['static:' + vid] = Sym(label, t)
            o = Obj('Node', lazy=True, label='node')
            ctx.c18_root = o
            return [o]

        def is_bad(o):
            return o[1] == '@emit' and not (o[2] and isinstance(o[2][0], str) and o[2][0].split()[:1] == ['.loc'])
        try:
            paths, partial = _explore_budget(it, u, fn, mk, is_bad)
        except (Unsupported, AnalysisBroken) as e:
            rep.undecided('R18.7', base + ':shape', 'cannot interpret %s up to its first output: %s' % (fn, e), where=W)
            continue
        n = nviol = 0
        und = {}
        for ctx, out in paths:
            if out[0] != 'noreturn' or out[1] != '@emit':
                continue     # no output of its own on this path (only sub-nodes, or nothing), or a diagnostic
            n += 1
            a = out[2]
            tmpl = a[0] if a and isinstance(a[0], str) else None
            words = tmpl.split() if tmpl else []
            where = '%s:%d' % (CG, out[3])
            facts = {'path': ctx.trail[-6:], 'first_output': repr(a)}
            shown = (tmpl or repr(a)).strip()
            if words[:1] != ['.loc']:
                pins = _position_pins(it, ctx, ptr_state)
                has_line = 'line_no' in pins
                has_file = any(k == 'file' or k.startswith('file.') for k in pins)
                facts['skipped_when'] = pins
                if has_line and has_file:
                    und[base + ':loc-first/position-cache'] = (
                        '%s omits the .loc directive when both the line (%s) and the file (%s) of the node\'s token equal remembered values; '
                        'whether what is remembered is always the position announced last is not decided by this check' % (
                            fn, pins['line_no'], ', '.join(v for k, v in sorted(pins.items()) if k.startswith('file'))), where)
                    continue
                nviol += 1
                if pins:
                    miss = 'file' if has_line else ('line' if has_file else 'file and line')
                    rep.ob('R18.7', base + ':loc-first/skipped-on-equal-' + '+'.join(sorted(pins)), False,
                           '%s can emit `%s` with no .loc directive before it, on a path taken when %s: the condition says nothing about the %s of the node\'s token, '
                           'so a node whose token differs in %s from the position announced last has its instructions attributed to that earlier position' % (
                               fn, shown, ' and '.join('node->tok->%s equals %s' % (k.replace('.', '->'), v) for k, v in sorted(pins.items())), miss, miss),
                           where=where, facts=facts)
                else:
                    rep.ob('R18.7', base + ':loc-first', False,
                           '%s can emit `%s` before any .loc directive: the instructions of this node are attributed to the line of the previous node' % (fn, shown), where=where, facts=facts)
                continue
            rep.ob('R18.7', base + ':loc-first', True, '', where=W)
            names = [getattr(x, 'name', repr(x)) for x in a[1:]]
            ok = names == ['node.tok.file.file_no', 'node.tok.line_no'] and words[1:] == ['%d', '%d']
            rep.ob('R18.7', base + ':loc-operands', ok,
                   '%s emits `%s` with (%s): expected the file number of the node\'s token and its line number, in this order' % (fn, shown, ', '.join(names)), where=where, facts=facts)
        for key, (why, where) in sorted(und.items()):
            rep.undecided('R18.7', key, why, where=where)
        if partial and not nviol:
            rep.undecided('R18.7', base + ':exploration-capped', 'the paths of %s to its first output were not all explored (%s)' % (fn, partial), where=W)
        if n == 0:
            rep.undecided('R18.7', base + ':no-output', '%s never reaches an output call' % fn, where=W)
