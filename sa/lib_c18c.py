"""Private helper of sa/rules/c18.py: rule R18.8 -- the #line state (File.line_delta / File.display_name) is per inclusion.

The state that `#line` changes lives in the File object the tokens of an inclusion point to. It is per inclusion only if
  (1) new_file hands out a File allocated on this very call, with delta 0 and display name = name,
  (2) tokenize_file tokenises a File it created on this very call and returns those tokens,
  (3) a function that reads a file (calls tokenize_file) hands on -- to a callee that takes tokens, or to its caller -- only
      tokens that stem from the tokenize_file call of the same path or from its own parameters.
Tokens or Files taken from remembered state (a function static, a file-scope variable, a table looked up through one)
belong to an EARLIER inclusion: their File still carries the delta / presumed name the last `#line` of that inclusion left.

Decided by provenance: each function is explored on every path, entered in any remembered state (record-typed and
pointer-typed statics / globals are unknown objects labelled `remembered`), the producing call is cut and yields an object
labelled `fresh`, parameters are labelled `param`; a call that is not followed yields an object whose label is the union
of the provenances of the objects passed to it. Consumers are the callee parameters and the return value of type
`Token *` / `File *`."""
import re
from .interp import Interp, Obj, Sym, View, Cell, Arr, Unsupported, _Ref, NORETURN, is_opaque
from .build import AnalysisBroken

T = 'tokenize.c'
POS_TYPES = ('Token', 'File')          # objects that carry a source position
STATE_FIELDS = ('line_delta', 'display_name')
MAX_PATHS = 4000


# ---------------------------------------------------------------------------------------------- provenance
def _label_prov(label):
    if not label:
        return {'unknown'}
    head = label.split(':', 1)[0]
    if head in ('remembered', 'g'):
        return {'remembered'}
    if head in ('fresh', 'param'):
        return {head}
    if head.startswith('derived<') and head.endswith('>'):
        return set(x for x in head[len('derived<'):-1].split(',') if x) or {'unknown'}
    return {'unknown'}


def _label_source(label):
    """what a remembered label names: `hashmap_get(tokenized)`, `last_tokens`, ..."""
    if not label:
        return '?'
    body = label.split(':', 1)[1] if ':' in label else label
    body = body.split('#', 1)[0]
    if label.startswith('derived<'):
        return body[body.index('(') + 1:-1] if ('(' in body and body.endswith(')')) else body
    return body if '(' in body else body.split('.', 1)[0]


def prov(it, v, seen=None):
    """provenances of the objects a value may denote; empty for NULL, numbers and opaque scalars"""
    if isinstance(v, View):
        s = set()
        for c in v.cell.cands:
            s |= prov(it, v.proj(c), seen)
        return s
    if isinstance(v, _Ref):
        try:
            return prov(it, v.place.get(it), seen)
        except Exception:
            return set()
    if isinstance(v, (Obj, Arr)):
        return _label_prov(v.label)
    if is_opaque(v):
        # an opaque pointer (element of a table the interpreter does not model, ...): judged by the leaves it is computed from
        s = set()
        for m in _LEAF.finditer(repr(v)):
            s |= _label_prov(m.group(0))
        return s or {'unknown'}
    return set()


_LEAF = re.compile(r'\b(?:remembered|g|param|fresh|unknown|derived<[^>]*>):[A-Za-z_]')


def _objs(it, v):
    if isinstance(v, View):
        return [o for c in v.cell.cands for o in _objs(it, v.proj(c))]
    if isinstance(v, _Ref):
        try:
            return _objs(it, v.place.get(it))
        except Exception:
            return []
    return [v] if isinstance(v, (Obj, Arr)) else []


def _sources(it, v):
    out = set(x for o in _objs(it, v) if 'remembered' in _label_prov(o.label) for x in _label_source(o.label).split(',') if x)
    if is_opaque(v):
        for m in re.finditer(r'\b(?:remembered|g):([A-Za-z_][A-Za-z_0-9]*(?:\([^)]*\))?)', repr(v)):
            out.add(m.group(1))
    return sorted(out)


def _base_of(t):
    """'Token *' -> 'Token'; anything else -> None"""
    t = (t or '').replace('const ', '').replace('struct ', '').strip()
    if t.endswith('*'):
        b = t[:-1].strip()
        if b and '*' not in b and '(' not in b:
            return b
    return None


def _ret_type(fd):
    t = fd.type or ''
    return t.split('(', 1)[0].strip()


def _result_type(call):
    """the type a call's result is used as: the outermost cast directly around the call"""
    t = call.dtype or call.type
    p = call.parent
    while p is not None and p.kind in ('ImplicitCastExpr', 'CStyleCastExpr', 'ParenExpr'):
        if p.kind != 'ParenExpr' and (p.cast_kind in ('BitCast', 'NoOp', None) or p.kind == 'CStyleCastExpr'):
            t = p.dtype or p.type or t
        p = p.parent
    return t


def _callgraph(u):
    return {fn: set(c.callee() for c in fd.walk() if c.kind == 'CallExpr' and c.callee()) for fn, fd in u.functions.items()}


def _reaching(calls, targets):
    r = set(targets)
    changed = True
    while changed:
        changed = False
        for f, cs in calls.items():
            if f not in r and cs & r:
                r.add(f)
                changed = True
    return r


class Prov:
    """provenance exploration of one function"""

    def __init__(self, P, u, fname, producers, records_of=None):
        self.P, self.u, self.fname, self.producers = P, u, fname, producers
        calls = _callgraph(u)
        self.follow = (_reaching(calls, set(producers)) & set(u.functions)) - set(producers) - {fname}
        names = set()
        todo, done = [fname], set()
        while todo:
            f = todo.pop()
            if f in done or f not in u.functions:
                continue
            done.add(f)
            for c in calls.get(f, ()):
                names.add(c)
                if c in self.follow:
                    todo.append(c)
        self.scanned = done
        self.cut_names = set(n for n in names if n not in self.follow and n not in NORETURN)
        cfg = {'cut': {n: self._h_call for n in self.cut_names}, 'track_stores': True, 'loop_limit': 1,
               'globals': self._globals()}
        self.it = Interp(P, u, cfg)

    # remembered state: every record-typed or pointer-to-record-typed variable with static storage starts as an unknown object
    def _remembered(self, t, name, scalars=False):
        u = self.u
        t = (t or '').replace('const ', '').strip()
        tb = t.replace('struct ', '').strip()
        if tb in u.records:
            return Obj(tb, lazy=True, label='remembered:' + name)
        b = _base_of(t)
        if b is not None and b in u.records:
            return View(Cell([0, Obj(b, lazy=True, label='remembered:' + name)], 'remembered:' + name, names={0: 'NULL'}))
        if scalars and not t.endswith(']'):
            if t in ('bool', '_Bool'):
                return View(Cell([0, 1], 'remembered:' + name))
            return Sym('remembered:' + name, t)
        return None

    def _globals(self):
        out = {}
        for name, g in self.u.globals.items():
            v = self._remembered(g.dtype or g.type, name)
            if v is not None:
                out[name] = (lambda ctx, g=g, name=name: self._remembered(g.dtype or g.type, name))
        return out

    def _statics(self):
        out = []
        for f in self.scanned:
            for n in self.u.functions[f].walk():
                if n.kind == 'VarDecl' and n.d.get('storageClass') == 'static':
                    out.append(n)
        return out

    def _h_call(self, it, ctx, call, args):
        name = call.callee()
        line = call.line
        # consumers: parameters of a position-carrying pointer type
        fd = self.u.fdecls.get(name)
        ptypes = [p.dtype or p.type for p in fd.inner if p.kind == 'ParmVarDecl'] if fd is not None else []
        for i, a in enumerate(args):
            pt = ptypes[i] if i < len(ptypes) else None
            if _base_of(pt) in POS_TYPES:
                ctx.emit('consume', '%s.arg%d' % (name, i + 1), a, line)
        if name in self.producers:
            r = self.producers[name](it, ctx, call, args)
            ctx.emit('call', name, args, line, r)
            return r
        ps = set()
        for a in args:
            ps |= prov(it, a)
        srcs = sorted(set(s for a in args for s in _sources(it, a)))
        if ps == {'remembered'}:
            label = 'remembered:%s(%s)' % (name, ','.join(srcs))
        elif ps:
            label = 'derived<%s>:%s' % (','.join(sorted(ps)), name) + ('(%s)' % ','.join(srcs) if srcs else '')
        else:
            label = 'unknown:' + name
        label = ctx.fresh(label)
        t = _result_type(call)
        rt = (call.dtype or call.type or '').strip()
        if rt == 'void':
            r = None
        else:
            tt = (t or '').replace('const ', '').strip()
            b = _base_of(tt)
            if tt.endswith('*') and tt[:-1].strip().endswith('*'):
                r = Arr([], label=label)
            elif b is not None and (b in self.u.records or b == 'void'):
                r = View(Cell([0, Obj(b if b != 'void' else None, lazy=True, label=label)], label, names={0: 'NULL'}))
            else:
                r = it.lazy_value(tt, label)
        ctx.emit('call', name, args, line, r)
        return r

    def explore(self):
        u, fname = self.u, self.fname
        statics = self._statics()

        def mk(ctx):
            for d in statics:
                v = self._remembered(d.dtype or d.type, d.name, scalars=True)
                if v is not None:
                    ctx.globals['static:' + d.id] = v
            a = []
            for p in u.params(fname):
                t = p.dtype or p.type or ''
                b = _base_of(t)
                if b is not None and b in u.records:
                    a.append(Obj(b, lazy=True, label='param:' + p.name))
                else:
                    a.append(Sym('param:' + p.name, t))
            return a
        return self.it.explore(fname, mk, max_paths=MAX_PATHS)


# ---------------------------------------------------------------------------------------------- the rule
def _fresh_tokens(it, ctx, call, args):
    return View(Cell([0, Obj('Token', lazy=True, label='fresh:tokenize_file')], ctx.fresh('tokenize_file'), names={0: 'NULL'}))


def _fresh_file(it, ctx, call, args):
    return Obj('File', lazy=True, label='fresh:new_file')


def _fresh_mem(it, ctx, call, args):
    name = call.callee() or 'alloc'
    return Obj(None, lazy=(name != 'calloc'), label='fresh:' + name)      # calloc: zeroed; malloc: contents unknown


def _judge(rep, P, u, fname, producers, what_fresh, counts):
    """explore fname; one obligation per consumer of a Token/File pointer"""
    un = u.name
    fd = u.functions[fname]
    W = '%s:%d' % (un, fd.line)
    base = '%s:%s' % (un, fname)
    try:
        pv = Prov(P, u, fname, producers)
        paths = pv.explore()
    except (Unsupported, AnalysisBroken) as e:
        rep.undecided('R18.8', base + ':shape', 'cannot interpret %s: %s' % (fname, e), where=W)
        return None
    it = pv.it
    rb = _base_of(_ret_type(fd))
    nret = 0
    for ctx, out in paths:
        if out[0] != 'ret':
            continue
        nret += 1
        cons = [(e[1], e[2], e[3]) for e in ctx.events if e[0] == 'consume']
        if rb in POS_TYPES:
            cons.append(('return', out[1], fd.line))
        stores = [e for e in ctx.events if e[0] == 'fstore' and e[2] in STATE_FIELDS]
        for (cname, v, line) in cons:
            v = it.settle(v) if isinstance(v, View) else v
            ps = prov(it, v)
            where = '%s:%d' % (un, line)
            facts = {'path': ctx.trail[-8:], 'value': repr(v), 'provenance': sorted(ps)}
            key = '%s:provenance/%s' % (base, cname)
            if not ps or 'fresh' in ps or ps <= {'param'}:
                rep.ob('R18.8', key, True, '', where=where)
                counts['ok'] = counts.get('ok', 0) + 1
                continue
            if 'remembered' in ps:
                srcs = _sources(it, v) or ['remembered state']
                # the one sound way to reuse a File: put its #line state back to that of a new file on the same path
                reset = set()
                for o in _objs(it, v):
                    f = o.fields.get('file') if isinstance(o, Obj) and o.tname == 'Token' else (o if isinstance(o, Obj) else None)
                    f = it.settle(f) if isinstance(f, View) else f
                    for e in stores:
                        if e[1] is f:
                            reset.add(e[2])
                if not reset and any(o.label and o.label.startswith('derived<') for o in _objs(it, v)):
                    # handed on through a callee: the reset is visible only path-wide
                    for fld in STATE_FIELDS:
                        if any(e[2] == fld and isinstance(e[1], Obj) and 'remembered' in _label_prov(e[1].label) for e in stores):
                            reset.add(fld)
                if reset >= set(STATE_FIELDS):
                    rep.undecided('R18.8', key + '<-' + '+'.join(srcs), '%s hands on position-carrying objects taken from %s after storing to line_delta and display_name of their file; '
                                  'whether that restores the state of a new inclusion in every case (nested inclusion of the same file) is not decided' % (fname, ', '.join(srcs)), where=where)
                    continue
                rep.ob('R18.8', key + '<-' + '+'.join(srcs), False,
                       '%s passes to %s %s taken from %s, not %s: they belong to an earlier inclusion and share its File object, so the #line state of that inclusion '
                       '(File.line_delta, File.display_name) is still in force -- when the same file is included again, __LINE__ and __FILE__ of the tokens before its #line directive '
                       'are shifted by the stale delta / show the stale presumed name' % (
                           fname, 'its caller' if cname == 'return' else cname.split('.')[0] + '()', 'tokens or a File', ', '.join(srcs), what_fresh),
                       where=where, facts=facts)
                continue
            rep.undecided('R18.8', key + '/unknown-origin', 'cannot tell where the position-carrying object that %s hands to %s comes from (%r)' % (fname, cname, v), where=where)
    if nret == 0:
        rep.undecided('R18.8', base + ':no-path', 'no returning path of %s was explored' % fname, where=W)
    return paths, it


def r188(P, rep):
    rep.rule('R18.8', 'the #line state is per inclusion: new_file returns a File allocated by this call with delta 0 and display name = name; tokenize_file tokenises '
             'a File created by this call; a function that reads a file hands on only tokens of the tokenize_file call of the same path or of its parameters, '
             'never tokens or Files kept in remembered state (statics, globals, tables), whose File carries the #line delta / presumed name of an earlier inclusion', floor=6)
    tu = P.unit(T)
    for f in ('new_file', 'tokenize_file'):
        if f not in tu.functions:
            raise AnalysisBroken('anchor function %s vanished from %s' % (f, T))
    counts = {}
    # (1) new_file
    fn = 'new_file'
    W = '%s:%d' % (T, tu.fn(fn).line)
    base = '%s:%s' % (T, fn)
    r = _judge(rep, P, tu, fn, {'calloc': _fresh_mem, 'malloc': _fresh_mem}, 'memory allocated by this call', counts)
    if r is not None:
        paths, it = r
        for ctx, out in paths:
            if out[0] != 'ret':
                continue
            o = it.settle(out[1]) if isinstance(out[1], View) else out[1]
            if not isinstance(o, Obj) or 'fresh' not in _label_prov(o.label):
                continue        # judged above
            facts = {'path': ctx.trail[-6:]}
            ld = o.fields.get('line_delta', 0 if not o.lazy else None)
            if ld is None or 'display_name' not in o.fields and o.lazy:
                rep.undecided('R18.8', base + ':initial-state', 'new_file does not visibly initialise line_delta / display_name of memory whose contents are unknown', where=W)
                continue
            rep.ob('R18.8', base + ':delta-starts-at-0', isinstance(ld, int) and ld == 0,
                   'a new File starts with line_delta %r, not 0: __LINE__ is shifted in a file that has no #line directive' % (ld,), where=W, facts=facts)
            dn = o.fields.get('display_name')
            rep.ob('R18.8', base + ':display-name-starts-as-name', isinstance(dn, Sym) and dn.name == 'param:name' and
                   isinstance(o.fields.get('name'), Sym) and o.fields['name'].name == 'param:name',
                   'a new File starts with display_name %r and name %r, expected both to be the name it is created with: __FILE__ of a file without #line is wrong' % (dn, o.fields.get('name')),
                   where=W, facts=facts)
    # (2) tokenize_file and whoever else in tokenize.c turns a new File into tokens
    for fn in sorted(f for f, fd in tu.functions.items() if f != 'new_file' and fd.calls('new_file')):
        _judge(rep, P, tu, fn, {'new_file': _fresh_file}, 'a File created by this call', counts)
    # (3) the readers of files
    readers = []
    for un in P.unit_names:
        u = P.unit(un)
        for f, fd in u.functions.items():
            if f != 'tokenize_file' and fd.calls('tokenize_file'):
                readers.append((un, f))
    if not readers:
        rep.undecided('R18.8', 'preprocess.c:readers', 'no function calls tokenize_file')
    for un, f in sorted(readers):
        _judge(rep, P, P.unit(un), f, {'tokenize_file': _fresh_tokens}, 'the tokens tokenize_file returned on this path', counts)
