"""Private helper of sa/rules/c18.py: rule R18.9 -- a diagnostic about a preprocessing directive is located on the directive.

A directive occupies one line: the `#` at the beginning of a line and the tokens up to the next token that begins a line
(or the end of the input).  While a directive is processed the handler moves its cursor BEHIND that line (skip_line, copy_line
and friends hand back the first token of the next line so that processing can continue there).  A diagnostic about the
directive that is located at such a token names the line -- for the last directive of a header even the file -- of whatever
follows, not of the directive.

Decided by abstract interpretation of one generic iteration of the directive dispatcher (the loop of the function that
compares the token after `#` with the directive names), entered with the cursor on a `#` at the beginning of a line:

  * the tokens reachable from that `#` through `next` are the directive's token sequence; a token of the sequence is BEHIND
    the directive's line when the path knows that it, or a token between the `#` and it, begins a line or is the end of input;
  * every call of a diagnostic function (a function of tokenize.c that takes a token and reports through verror_at) and every
    store of a token into a record field that a diagnostic is later located at (CondIncl.tok) is a judged site;
  * helpers are not inlined into the iteration (the paths multiply) but summarised: each helper is explored on its own, for the
    facts known about its token arguments, and its paths are folded into outcomes "diagnostic at the k-th successor of
    parameter i / *rest = the k-th successor of parameter i, which begins a line / returns a new token"; an outcome is
    instantiated on the caller's tokens.  Loop-free helpers are inlined, helpers that neither reach a diagnostic nor move a
    caller's cursor are cut (result unknown), recursion is cut;
  * a loop that cannot touch anything the rule observes is not iterated (Lines.neutral_loop: every store in it goes to a variable
    the loop declares or to a token field that is no position / line-structure field -- `t->ty = ...` --, every call is one the
    exploration cuts anyway and gets no address to write through, it raises no diagnostic and does not leave the function):
    iterating it would only multiply the paths by what it reads.  Any other loop is followed as before.

A site is (function of the call, message or record field, directive name the iteration matched).  A site is a violation when, on
EVERY explored path that reaches it with a token of the directive's sequence, that token is behind the directive's line.  (Cuts and summaries only add paths; a site that is reached with a token on the line on some path
is never reported.)"""
import re, time
from .interp import (Interp, Ctx, Obj, Sym, View, Arr, Unsupported, NoReturn, Infeasible, NeedChoice, ElemPlace, _Ref,
                     NORETURN, _BUILTIN_MODELS, _Break, _Continue)
from .build import AnalysisBroken
from .lib_c18 import CutInterp

T = 'tokenize.c'
PP = 'preprocess.c'
LOOPS = ('ForStmt', 'WhileStmt', 'DoStmt')
DIRECTIVE_NAMES = ('include', 'define', 'if', 'endif')      # the dispatcher is the function that compares a token with all of these
INTRO = '#'
SPEC_FIELDS = ('kind', 'at_bol')
MAX_PATHS_FN = 4000
MAX_PATHS_MAIN = 6000
BUDGET_S = 22.0
LOOP_LIMIT = 2
POS_FIELDS = ('loc', 'line_no', 'file')
PURE_MODELS = ('memcmp', 'strcmp', 'strncmp', 'strlen', '__builtin_expect')      # modelled library functions that store nothing


def posof(o):
    """the token whose position (file, line, loc) a token object has because it is a whole-struct copy of it and no position field was
    stored since; None for a token that is no such copy"""
    m = o.meta.get('c18_posof') if isinstance(o, Obj) else None
    if not m:
        return None
    src, snap = m
    for f in POS_FIELDS:
        if f in o.fields and o.fields[f] is not snap.get(f):
            return None
    return src


def _base_of(t):
    t = (t or '').replace('const ', '').replace('struct ', '').strip()
    if t.endswith('*'):
        b = t[:-1].strip()
        if b and '*' not in b and '(' not in b:
            return b
    return None


def _rec_of(n):
    """the record a member is selected from, given the base expression of the MemberExpr"""
    t = n.dtype or n.type
    return _base_of(t) or (t or '').replace('const ', '').replace('struct ', '').strip()


def _is_cursor_type(t):
    return (t or '').replace('const ', '').replace('struct ', '').replace(' ', '') == 'Token**'


def _slug(s):
    s = re.sub(r'%[-+0-9.]*[a-z]+', ' ', s if isinstance(s, str) else 'message')
    w = re.findall(r'[A-Za-z0-9#]+', s)
    return '-'.join(w)[:48] or 'message'


class DirInterp(CutInterp):
    """Engine I; the first loop of the explored function is cut at its head only when asked to (`headcut`); no loop is accelerated.
    Stores into record fields that diagnostics are located at are events."""

    def __init__(self, program, unit, cfg, headcut, posfields):
        CutInterp.__init__(self, program, unit, cfg)
        self.headcut = headcut
        self.posfields = posfields
        self.eof_kind = cfg.get('eof_kind')
        self.neutral = cfg.get('neutral_loop')

    def exec_loop(self, s, _unused, cond, inc, body, env):
        st = self._st()
        if self.headcut and not st['cut_done'] and self.ctx.depth == 1:
            return self._cut_loop(s, cond, inc, body, env, do=False)
        if self._skip_neutral(s, env):
            return
        if cond is None or cond.strip_all().kind in ('IntegerLiteral', 'CXXBoolLiteralExpr'):
            # `for (;;)` / `while (1)`: left by a break the body decides; as many generic iterations as any other loop
            if cond is not None and not self.truth(self.eval(cond, env), cond):
                return
            for _ in range(self.loop_limit + 1):
                try:
                    self.exec(body, env)
                except _Break:
                    return
                except _Continue:
                    pass
                if inc is not None:
                    self.eval(inc, env)
            raise Infeasible('loop bound')
        return Interp.exec_loop(self, s, _unused, cond, inc, body, env)

    def exec_do(self, s, env):
        st = self._st()
        if self.headcut and not st['cut_done'] and self.ctx.depth == 1:
            return self._cut_loop(s, s.inner[1], None, s.inner[0], env, do=True)
        if self._skip_neutral(s, env):
            return
        return Interp.exec_do(self, s, env)

    def _skip_neutral(self, s, env):
        """contract of a loop that stores no position, moves no cursor and reports nothing: no effect on what is observed"""
        return self.neutral is not None and bool(self.neutral(s))

    def copy_obj(self, o):
        """a whole-struct copy of a token has the position (file, line, loc) of the token it is copied from"""
        c = Interp.copy_obj(self, o)
        if o.tname == 'Token':
            c.meta['c18_posof'] = (o.meta.get('c18_posof') or (o, None))[0], dict((f, o.fields.get(f)) for f in POS_FIELDS)
        return c

    def e_BinaryOperator(self, n, env):
        v = Interp.e_BinaryOperator(self, n, env)
        if n.opcode == '=':
            t = n.inner[0].strip()
            if t.kind == 'MemberExpr' and t.inner:
                rec = _base_of(t.inner[0].dtype or t.inner[0].type) or (t.inner[0].dtype or t.inner[0].type or '').replace('struct ', '').strip()
                if rec == 'Token' and t.name == 'next' and self.eof_kind is not None:
                    w = self.settle(v) if isinstance(v, View) else v
                    if isinstance(w, Obj) and posof(w) is not None:
                        k = w.fields.get('kind')
                        k = self.settle(k) if isinstance(k, View) else k
                        if isinstance(k, int) and k == self.eof_kind:
                            fd = n.enclosing('FunctionDecl')
                            self.ctx.emit('c18ev', 'eol', '%s:%s:end-marker-positioned-on-the-line/EOF' % (self.unit.name, fd.name if fd is not None else '?'),
                                          '%s:%d' % (self.unit.name, n.line), w, 'the end-of-list token')
                if (rec, t.name) in self.posfields:
                    fd = n.enclosing('FunctionDecl')
                    self.ctx.emit('c18ev', 'store', '%s:%s:position-kept-for-a-diagnostic/%s.%s' % (self.unit.name, fd.name if fd is not None else '?', rec, t.name),
                                  '%s:%d' % (self.unit.name, n.line), v, '%s.%s' % (rec, t.name))
        return v


class Outcome:
    __slots__ = ('ret', 'rests', 'events', 'term', 'sig')


class Lines:
    """the analysis of one unit"""

    def __init__(self, P):
        self.P = P
        self.u = u = P.unit(PP)
        tu = P.unit(T)
        self.t0 = time.process_time()      # CPU time of this process: the budget bounds the work, whatever else the machine is doing
        self.EOF = tu.enum_value('TK_EOF')
        self.PUNCT = tu.enum_value('TK_PUNCT')
        if self.EOF is None or self.PUNCT is None:
            raise AnalysisBroken('token kinds TK_EOF / TK_PUNCT vanished')
        # diagnostic functions: take a token first, report through verror_at
        self.diag = set(f for f, fd in tu.functions.items() if tu.params(f) and _base_of(tu.params(f)[0].dtype or tu.params(f)[0].type) == 'Token' and fd.calls('verror_at'))
        if not self.diag:
            raise AnalysisBroken('no function of tokenize.c reports a diagnostic at a token through verror_at')
        self.calls = {fn: set(c.callee() for c in fd.walk() if c.kind == 'CallExpr' and c.callee()) for fn, fd in u.functions.items()}
        # the dispatcher
        cands = []
        for fn, fd in u.functions.items():
            lits = set()
            for c in fd.walk():
                if c.kind == 'CallExpr':
                    for a in c.args():
                        s = a.str_value() if hasattr(a, 'str_value') else None
                        if isinstance(s, str):
                            lits.add(s)
            if all(d in lits for d in DIRECTIVE_NAMES) and any(n.kind in LOOPS for n in fd.walk()):
                cands.append(fn)
        if len(cands) != 1:
            raise AnalysisBroken('expected exactly one function of preprocess.c that compares a token with the directive names %s in a loop, found %s' % (DIRECTIVE_NAMES, cands))
        self.F = cands[0]
        # record fields a diagnostic is located at
        self.posfields = set()
        tokfields = set(f for (f, _, _) in u.records.get('Token', []))
        for fn, fd in u.functions.items():
            for c in fd.walk():
                if c.kind == 'CallExpr' and c.callee() in self.diag and c.args():
                    a = c.args()[0].strip_all()
                    if a.kind == 'MemberExpr' and a.inner:
                        rec = _base_of(a.inner[0].dtype or a.inner[0].type) or (a.inner[0].dtype or a.inner[0].type or '').replace('struct ', '').strip()
                        if rec and rec != 'Token' and rec in u.records and a.name not in tokfields:
                            self.posfields.add((rec, a.name))
        # how each function of the unit is treated
        reach = set(self.diag)
        changed = True
        while changed:
            changed = False
            for f, cs in self.calls.items():
                if f not in reach and cs & reach:
                    reach.add(f); changed = True
        self.kind = {}
        for f in u.functions:
            if f == self.F:
                self.kind[f] = 'self'
            elif self._loopfree(f, ()):
                self.kind[f] = 'inline'
            elif f in reach or any(_is_cursor_type(p.dtype or p.type) for p in u.params(f)):
                self.kind[f] = 'summ'
            else:
                self.kind[f] = 'cut'
        # spelling tests: functions defined elsewhere that take (token, string) and answer yes/no  (equal today)
        self.spelling = set()
        for n, d in u.fdecls.items():
            if n in u.functions or n in self.diag:
                continue
            pt = [(p.dtype or p.type or '') for p in d.inner if p.kind == 'ParmVarDecl']
            rt = (d.type or '').split('(', 1)[0].strip()
            if len(pt) == 2 and _base_of(pt[0]) == 'Token' and pt[1].replace('const ', '').replace(' ', '') == 'char*' and rt in ('bool', '_Bool', 'int'):
                self.spelling.add(n)
        # token fields a position or the line structure is read from: those the diagnostic functions read, the links to other tokens / files,
        # and the ones this analysis keeps facts about
        self.protected = set(POS_FIELDS) | set(SPEC_FIELDS) | {'next'}
        for (f, t, _) in u.records.get('Token', []):
            if _base_of(t) in ('Token', 'File') or f in ('filename', 'line_delta', 'len'):
                self.protected.add(f)
        for f in self.diag | {'verror_at'}:
            for n in (tu.functions[f].walk() if f in tu.functions else ()):
                if n.kind == 'MemberExpr' and n.inner and _rec_of(n.inner[0]) == 'Token':
                    self.protected.add(n.name)
        self.neutral = {}
        self.memo = {}
        self.stack = []
        self.nsumm = 0

    def neutral_loop(self, s):
        """True when the loop statement `s` cannot have an effect on anything this analysis observes, whatever it iterates over (see module docstring):
        it is not iterated.  A variable declared outside the loop must not be assigned in it (a cursor the loop moves is what the rule is about).
        Decided on the statement (and the loop-free helpers it calls) alone; anything not recognised makes the loop an ordinary one."""
        r = self.neutral.get(s.id)
        if r is None:
            r = self.neutral[s.id] = (s, self._neutral(s, (), False))
        return r[1]

    def _neutral(self, region, seen, is_fn):
        """`region`: a loop statement, or (is_fn) a whole function called from such a loop"""
        own = set(n.id for n in region.walk() if n.kind in ('VarDecl', 'ParmVarDecl') and n.id)
        for n in region.walk():
            k = n.kind
            if k in ('GotoStmt', 'IndirectGotoStmt', 'LabelStmt', 'AsmStmt', 'GCCAsmStmt', 'StmtExpr', 'VAArgExpr') or (k == 'ReturnStmt' and not is_fn):
                return False
            if k == 'VarDecl' and ((n.dtype or n.type or '').count('*') > 1 or n.d.get('storageClass')):
                return False
            if k == 'UnaryOperator' and n.opcode == '&':
                return False          # an address leaves the expression: a store through it would not be seen here
            if k == 'CallExpr':
                c = n.callee()
                if not c or c in self.diag or c in NORETURN or c in self.spelling:
                    return False
                if c in _BUILTIN_MODELS:
                    if c not in PURE_MODELS:
                        return False
                elif c in self.u.functions:
                    kd = self.kind.get(c)
                    if kd == 'inline':          # a loop-free helper: the same conditions hold for its body
                        if c in seen or len(seen) > 4 or not self._neutral(self.u.functions[c], seen + (c,), True):
                            return False
                    elif kd != 'cut':
                        return False
                for a in n.args():
                    t = (a.dtype or a.type or '').replace('const ', '')
                    if t.count('*') > 1 or '(' in t:
                        return False
                continue
            tgt = None
            if k in ('BinaryOperator', 'CompoundAssignOperator') and (n.opcode == '=' or (n.opcode or '').endswith('=') and n.opcode not in ('==', '!=', '<=', '>=')):
                tgt = n.inner[0]
            elif k == 'UnaryOperator' and n.opcode in ('++', '--'):
                tgt = n.inner[0]
            if tgt is None:
                continue
            t = tgt.strip()
            if t.kind == 'DeclRefExpr' and t.ref_id in own:
                continue
            if t.kind == 'MemberExpr' and t.inner and _rec_of(t.inner[0]) == 'Token' and t.name not in self.protected and ('Token', t.name) not in self.posfields \
                    and not (tgt.dtype or tgt.type or '').rstrip().endswith(']'):
                continue
            return False
        return True

    def _loopfree(self, f, seen):
        u = self.u
        if f not in u.functions:
            return True
        if f in seen or f == self.F:
            return False
        if any(n.kind in LOOPS for n in u.functions[f].walk()):
            return False
        return all(self._loopfree(c, seen + (f,)) for c in self.calls.get(f, ()))

    # ------------------------------------------------------------------------------------------ interpreter
    def interp(self, headcut=False, assume=None):
        names = set()
        for f, cs in self.calls.items():
            names |= cs
        cuts = {}
        for n in names:
            if n in _BUILTIN_MODELS:
                continue
            if n in self.diag:
                cuts[n] = self.h_diag
            elif n in NORETURN:
                continue
            else:
                k = self.kind.get(n, 'cut')
                cuts[n] = {'self': self.h_self, 'inline': self.h_inline, 'summ': self.h_summ, 'cut': self.h_cut}[k]
        for n in self.spelling:
            cuts[n] = self.h_equal
        cfg = {'inline_other_units': False, 'cut': cuts, 'loop_limit': LOOP_LIMIT, 'assume': assume, 'eof_kind': self.EOF, 'neutral_loop': self.neutral_loop}
        return DirInterp(self.P, self.u, cfg, headcut, self.posfields)

    def _check_budget(self):
        if time.process_time() - self.t0 > BUDGET_S:
            raise AnalysisBroken('time budget of %d s for the directive exploration used up' % BUDGET_S)

    # ------------------------------------------------------------------------------------------ token facts
    def known(self, it, o, f):
        v = o.fields.get(f) if isinstance(o, Obj) else None
        v = it.settle(v) if isinstance(v, View) else v
        return int(v) if isinstance(v, (int, bool)) else None

    def ends_line(self, it, o):
        """'bol' / 'eof' when the path knows that the token begins a line / is the end of input"""
        if self.known(it, o, 'at_bol') == 1:
            return 'bol'
        if self.known(it, o, 'kind') == self.EOF:
            return 'eof'
        return None

    def chain(self, it, root):
        out = []
        o = root
        while isinstance(o, Obj) and len(out) < 64:
            out.append(o)
            v = o.fields.get('next')
            if v is None:
                break
            v = it.settle(v) if isinstance(v, View) else v
            if not isinstance(v, Obj):
                break
            o = v
        return out

    def _assert_field(self, it, o, f, want):
        v = it.read_field(o, f)
        v = it.settle(v) if isinstance(v, View) else v
        if isinstance(v, View):
            it.refine(v.cell, [c for c in v.cell.cands if v.proj(c) == want])
        elif isinstance(v, (int, bool)):
            if int(v) != want:
                raise Infeasible('fact')
        else:
            o.fields[f] = want

    def _succ(self, it, o):
        v = it.read_field(o, 'next')
        v = it.settle(v) if isinstance(v, View) else v
        if isinstance(v, View):
            objs = [c for c in v.cell.cands if isinstance(v.proj(c), Obj)]
            it.refine(v.cell, objs)
            v = it.settle(v)
        if not isinstance(v, Obj):
            raise Infeasible('no successor')
        return v

    # ------------------------------------------------------------------------------------------ call handlers
    def _havoc_out_params(self, it, ctx, call, args, name, skip=()):
        for i, (an, a) in enumerate(zip(call.args(), args)):
            if i in skip or not isinstance(a, _Ref):
                continue
            pt = (an.dtype or an.type or '').strip()
            if not pt.endswith('*'):
                continue
            pt = pt[:-1].strip()
            q = pt.replace('const ', '').replace('struct ', '').strip()
            if q.startswith('char') or q == 'void' or q in self.u.records:
                continue
            try:
                if _base_of(pt) == 'Token':
                    a.place.set(it, Obj('Token', lazy=True, label=ctx.fresh('derived:' + name)))
                else:
                    a.place.set(it, it.lazy_value(pt, ctx.fresh('derived:' + name)))
            except (Unsupported, AttributeError):
                pass

    def _result(self, it, ctx, call, name):
        t = call.dtype or call.type
        return None if t == 'void' else it.lazy_value(t, ctx.fresh('derived:' + name))

    def h_cut(self, it, ctx, call, args):
        """contract of a call that is not followed: tokens and scalars it hands back are unknown"""
        name = call.callee()
        self._havoc_out_params(it, ctx, call, args, name)
        r = self._result(it, ctx, call, name)
        ctx.emit('call', name, args, call.line, r)
        return r

    def h_equal(self, it, ctx, call, args):
        a = it.settle(args[0]) if args and isinstance(args[0], View) else (args[0] if args else None)
        s = args[1] if len(args) > 1 else None
        root = getattr(ctx, 'c18_root', None)
        if root is not None and a is root and isinstance(s, str):
            return 1 if s == INTRO else 0          # the iteration is entered on the directive introducer
        if isinstance(a, Obj) and isinstance(s, str) and s and self.known(it, a, 'kind') == self.EOF:
            return 0                               # the end-of-input token has no spelling
        # the same question about the same token has the same answer on a path
        if isinstance(s, str) and (isinstance(a, Obj) or isinstance(a, View)):
            memo = ctx.__dict__.setdefault('c18_equal', {})
            mk = (id(a) if isinstance(a, Obj) else id(a.cell), s)
            if mk not in memo:
                memo[mk] = (a, self.h_cut(it, ctx, call, args))
            return memo[mk][1]
        return self.h_cut(it, ctx, call, args)

    def h_self(self, it, ctx, call, args):
        """recursion into the dispatcher: an empty list stays that list, anything else yields unknown tokens"""
        a = it.settle(args[0]) if args and isinstance(args[0], View) else (args[0] if args else None)
        if isinstance(a, Obj) and self.known(it, a, 'kind') == self.EOF:
            return a
        return self.h_cut(it, ctx, call, args)

    def h_inline(self, it, ctx, call, args):
        name = call.callee()
        if ctx.rec.get(name, 0) > 0:
            return self.h_cut(it, ctx, call, args)
        return it.call_fn(self.u, self.u.functions[name], args)

    def h_diag(self, it, ctx, call, args):
        name = call.callee()
        fd = call.enclosing('FunctionDecl')
        msg = args[1] if len(args) > 1 else None
        if args and isinstance(args[0], View):
            v = it.settle(args[0])
            if isinstance(v, View):          # the diagnostic function dereferences its token: it is not NULL
                objs = [c for c in v.cell.cands if isinstance(v.proj(c), Obj)]
                if len(objs) == 1:
                    it.refine(v.cell, objs)
        key = '%s:%s:diagnostic-on-the-directive/%s' % (self.u.name, fd.name if fd is not None else '?', _slug(msg))
        ctx.emit('c18ev', 'diag', key, '%s:%d' % (self.u.name, call.line), args[0] if args else None, msg if isinstance(msg, str) else name)
        if name in NORETURN:
            raise NoReturn(name, [], call.line)
        return None

    # ------------------------------------------------------------------------------------------ summaries
    def _spec(self, it, params, args):
        facts = []
        for i, p in enumerate(params):
            if i < len(args) and _base_of(p.dtype or p.type) == 'Token':
                a = it.settle(args[i]) if isinstance(args[i], View) else args[i]
                if isinstance(a, Obj):
                    for f in SPEC_FIELDS:
                        k = self.known(it, a, f)
                        if k is not None:
                            facts.append((i, f, int(k)))
                elif isinstance(a, int) and a == 0:
                    facts.append((i, 'null', 1))
        return tuple(facts)

    def h_summ(self, it, ctx, call, args):
        name = call.callee()
        if name in self.stack:
            return self.h_cut(it, ctx, call, args)
        params = self.u.params(name)
        facts = self._spec(it, params, args)
        if any(f[1] == 'null' for f in facts):
            return self.h_cut(it, ctx, call, args)
        outs = self.summary(name, facts)
        if not outs:
            raise Infeasible('callee has no path')
        i = ctx.choose(len(outs), 'outcome of %s' % name)
        o = outs[i]
        ctx.note('%s(): %s' % (name, o.sig))
        # base objects
        base = {}
        for j, p in enumerate(params):
            if j >= len(args):
                continue
            t = p.dtype or p.type
            if _base_of(t) == 'Token':
                a = it.settle(args[j]) if isinstance(args[j], View) else args[j]
                if isinstance(a, View):
                    a = it.force(a)
                base[('p', j)] = a
            elif _is_cursor_type(t) and isinstance(args[j], _Ref):
                try:
                    a = args[j].place.get(it)
                    a = it.settle(a) if isinstance(a, View) else a
                except Exception:
                    a = None
                base[('r', j)] = a
        memo = {}

        def inst(d):
            if d[0] == 'null':
                return 0
            if d[0] == 'chain':
                if d in memo:
                    return memo[d]
                b = base.get((d[1], d[2]))
                if isinstance(b, Obj):
                    fx = dict(d[4])
                    o_ = b
                    for step in range(d[3] + 1):
                        if step:
                            o_ = self._succ(it, o_)
                        e = fx.get(step)
                        if e == 'bol':
                            self._assert_field(it, o_, 'at_bol', 1)
                        elif e == 'eof':
                            self._assert_field(it, o_, 'kind', self.EOF)
                    memo[d] = o_
                    return o_
            if d[0] == 'copy':
                if d in memo:
                    return memo[d]
                src = inst(d[1])
                c = Obj('Token', lazy=True, label=ctx.fresh('derived:' + name))
                if isinstance(src, Obj):
                    c.meta['c18_posof'] = (src, {})
                if d[2]:
                    c.fields['kind'] = self.EOF
                memo[d] = c
                return c
            return Obj('Token', lazy=True, label=ctx.fresh('derived:' + name))
        for (typ, key, where, d, extra) in o.events:
            ctx.emit('c18ev', typ, key, where, inst(d), extra)
        done = set()
        for (j, d) in o.rests:
            done.add(j)
            if d[0] != 'unchanged' and isinstance(args[j], _Ref):
                args[j].place.set(it, inst(d))
        self._havoc_out_params(it, ctx, call, args, name, skip=done)
        if o.term:
            raise NoReturn(o.term, [], call.line)
        rt = call.dtype or call.type
        if rt == 'void':
            return None
        if _base_of(rt) == 'Token':
            return inst(o.ret)
        return it.lazy_value(rt, ctx.fresh('derived:' + name))

    def summary(self, name, facts):
        mk = (name, facts)
        if mk in self.memo:
            return self.memo[mk]
        self._check_budget()
        self.stack.append(name)
        try:
            outs = self._summarise(name, facts)
        finally:
            self.stack.pop()
        self.memo[mk] = outs
        self.nsumm += 1
        return outs

    def _summarise(self, name, facts):
        u = self.u
        it = self.interp()
        params = u.params(name)
        fd = u.functions[name]

        def mk(ctx):
            args, roots = [], []
            for i, p in enumerate(params):
                t = (p.dtype or p.type or '').strip()
                if _base_of(t) == 'Token':
                    o = Obj('Token', lazy=True, label='p%d' % i)
                    for (j, f, v) in facts:
                        if j == i:
                            o.fields[f] = v
                    roots.append(('p', i, o))
                    args.append(o)
                elif _is_cursor_type(t):
                    o = Obj('Token', lazy=True, label='r%d' % i)
                    arr = Arr([o], label='cursor%d' % i)
                    roots.append(('r', i, o))
                    args.append(_Ref(ElemPlace(arr, 0)))
                    ctx.c18_cursor = getattr(ctx, 'c18_cursor', {})
                    ctx.c18_cursor[i] = (arr, o)
                elif t.endswith('*') and not t[:-1].replace('const ', '').strip().startswith('char') and t[:-1].replace('struct ', '').strip() not in u.records \
                        and t[:-1].strip() != 'void' and '(' not in t:
                    arr = Arr([it.lazy_value(t[:-1].strip(), 'in:%s' % p.name)], label='out%d' % i)
                    args.append(_Ref(ElemPlace(arr, 0)))
                else:
                    args.append(it.lazy_value(t, 'param:%s' % p.name) if (_base_of(t) in u.records) else Sym('param:%s' % p.name, t))
            ctx.c18_roots = roots
            return args
        paths = self._explore(it, name, mk, MAX_PATHS_FN)
        rt = _base_of((fd.type or '').split('(', 1)[0].strip())
        outs, seen = [], set()
        for ctx, out in paths:
            index = {}
            for (rk, ri, ro) in ctx.c18_roots:
                for k, o in enumerate(self.chain(it, ro)):
                    index.setdefault(id(o), (rk, ri, k))

            def desc(v):
                v = it.settle(v) if isinstance(v, View) else v
                if isinstance(v, int) and not isinstance(v, bool) and v == 0:
                    return ('null',)
                if isinstance(v, Obj) and id(v) in index:
                    rk, ri, k = index[id(v)]
                    root = [ro for (a, b, ro) in ctx.c18_roots if a == rk and b == ri][0]
                    ch = self.chain(it, root)
                    fx = tuple((j, self.ends_line(it, ch[j])) for j in range(k + 1) if self.ends_line(it, ch[j]))
                    return ('chain', rk, ri, k, fx)
                src = posof(v) if isinstance(v, Obj) else None
                if src is not None and id(src) in index:
                    d = desc(src)
                    return ('copy', d, self.known(it, v, 'kind') == self.EOF)
                return ('other',)
            o = Outcome()
            o.events = tuple((e[1], e[2], e[3], desc(e[4]), e[5]) for e in ctx.events if e[0] == 'c18ev')
            rests = []
            for i, (arr, init) in sorted(getattr(ctx, 'c18_cursor', {}).items()):
                v = arr.elems[0]
                vv = it.settle(v) if isinstance(v, View) else v
                rests.append((i, ('unchanged',) if vv is init else desc(v)))
            o.rests = tuple(rests)
            if out[0] == 'ret':
                o.term = None
                o.ret = desc(out[1]) if rt == 'Token' else ('other',)
            else:
                o.term = out[1]
                o.ret = ('other',)
            sig = (o.ret, o.rests, tuple((e[0], e[1], e[3]) for e in o.events), o.term)
            if sig in seen:
                continue
            seen.add(sig)
            o.sig = _show_sig(sig)
            outs.append(o)
        return outs

    def _explore(self, it, fname, make_args, cap):
        fn = self.u.functions[fname]
        out, stack = [], [[]]
        n = 0
        while stack:
            dec = stack.pop()
            ctx = Ctx(dec)
            it.ctx = ctx
            try:
                args = make_args(ctx)
                v = it.call_fn(self.u, fn, args)
                out.append((ctx, ('ret', v)))
            except NeedChoice as e:
                for a in range(e.n - 1, -1, -1):
                    stack.append(dec + [a])
            except Infeasible:
                pass
            except NoReturn as e:
                out.append((ctx, ('noreturn', e.fn, e.args_, e.line)))
            n += 1
            if n % 64 == 0:
                self._check_budget()
            if len(out) + len(stack) > cap:
                raise AnalysisBroken('path explosion in %s (> %d)' % (fname, cap))
        return out

    # ------------------------------------------------------------------------------------------ the dispatcher
    def run(self):
        """-> {site key: {'where', 'what', 'n': paths with a token of the directive, 'behind': of those behind the line, 'other': other tokens, 'ex': example}}"""
        u, F = self.u, self.F
        tparams = [p for p in u.params(F) if _base_of(p.dtype or p.type) == 'Token']

        def assume(it, ctx, head):
            cur = [p.name for p in tparams if p.name in head]
            if len(cur) != 1:
                raise AnalysisBroken('expected the loop of %s to advance exactly one token parameter, found %s among %s' % (F, cur, sorted(head)))
            v = head[cur[0]]
            objs = [c for c in v.cell.cands if isinstance(v.proj(c), Obj)] if isinstance(v, View) else []
            if len(objs) != 1:
                raise AnalysisBroken('cannot make the cursor of %s a token' % F)
            it.refine(v.cell, objs)
            o = v.proj(objs[0])
            o.fields['kind'] = self.PUNCT
            o.fields['at_bol'] = 1
            ctx.c18_root = o
        it = self.interp(headcut=True, assume=assume)
        paths = self._explore(it, F, lambda ctx: [Obj('Token', lazy=True, label='param:%s' % p.name) if _base_of(p.dtype or p.type) == 'Token'
                                                  else Sym('param:%s' % p.name, p.dtype or p.type) for p in u.params(F)], MAX_PATHS_MAIN)
        sites = {}
        dnames = set()
        ndir = 0
        for ctx, out in paths:
            root = getattr(ctx, 'c18_root', None)
            if root is None:
                continue
            ndir += 1
            ch = self.chain(it, root)
            pos = {id(o): k for k, o in enumerate(ch)}
            # which directive this iteration handles: the name the token after the introducer compared equal to
            dname = None
            nx = root.fields.get('next')
            for e in ctx.events:
                if e[0] == 'call' and e[1] in self.spelling and len(e[2]) > 1 and isinstance(e[2][1], str) and nx is not None:
                    a = e[2][0]
                    r = it.settle(e[4]) if isinstance(e[4], View) else e[4]
                    same = (isinstance(a, View) and isinstance(nx, View) and a.cell is nx.cell) or \
                           (isinstance(it.settle(a) if isinstance(a, View) else a, Obj) and (it.settle(a) if isinstance(a, View) else a) is (it.settle(nx) if isinstance(nx, View) else nx))
                    if same and isinstance(r, int) and r == 1:
                        dname = e[2][1]
                        break
            if dname is None:
                dname = 'no-name'
            dnames.add(dname)
            for e in ctx.events:
                if e[0] != 'c18ev':
                    continue
                typ, key, where, v, extra = e[1:6]
                v = it.settle(v) if isinstance(v, View) else v
                head, _, tail = key.rpartition('/')
                if typ != 'eol':          # the end marker of a line's token list is one construct whatever the directive
                    key = '%s/#%s/%s' % (head, re.sub(r'[^A-Za-z0-9_]+', '-', dname), tail)
                s = sites.setdefault(key, {'where': where, 'type': typ, 'what': extra, 'directive': dname, 'n': 0, 'behind': 0, 'other': 0, 'ex': None, 'on': None})
                if isinstance(v, Obj) and id(v) not in pos and posof(v) is not None and id(posof(v)) in pos:
                    v = posof(v)          # a copy of a token of the directive's sequence is where that token is
                if isinstance(v, Obj) and id(v) in pos:
                    k = pos[id(v)]
                    cross = [(j, self.ends_line(it, ch[j])) for j in range(1, k + 1) if self.ends_line(it, ch[j])]
                    s['n'] += 1
                    if cross:
                        s['behind'] += 1
                        if s['ex'] is None:
                            s['ex'] = {'token': 'the %d. token after the `#`' % k, 'line ends at': 'token %d (%s)' % (cross[0][0], 'begins a line' if cross[0][1] == 'bol' else 'end of input'),
                                       'path': ctx.trail[-10:]}
                    elif s['on'] is None:
                        s['on'] = k
                else:
                    s['other'] += 1
        self.dnames = dnames
        return sites, ndir, len(paths)


def _show_sig(sig):
    def d(x):
        if x[0] == 'chain':
            e = dict(x[4]).get(x[3])
            return '%s%d+%d%s' % (x[1], x[2], x[3], {'bol': ' (begins a line)', 'eof': ' (end of input)'}.get(e, ''))
        if x[0] == 'copy':
            return 'a copy of ' + d(x[1])
        return x[0]
    ret, rests, evs, term = sig
    parts = []
    for (typ, key, dd) in evs:
        parts.append('%s at %s' % (key.split('/')[-1], d(dd)))
    for (j, dd) in rests:
        parts.append('*arg%d = %s' % (j + 1, d(dd)))
    parts.append('stops in %s' % term if term else 'returns %s' % d(ret))
    return '; '.join(parts)


def r189(P, rep):
    rep.rule('R18.9', 'a diagnostic raised while a preprocessing directive is processed (and a token kept for a later diagnostic about it) is located on the directive: '
             'never, on every path that reaches it, at a token behind the end of the directive\'s line (the continuation that skip_line / copy_line hand back)', floor=15)
    L = Lines(P)
    un = L.u.name
    W = '%s:%d' % (un, L.u.fn(L.F).line)
    sites, ndir, npaths = L.run()
    judged = 0
    for key, s in sorted(sites.items()):
        if s['n'] == 0:
            continue          # never located at a token of the directive's sequence (a copy, a macro-expanded token, remembered state)
        judged += 1
        bad = s['behind'] == s['n']
        if s['type'] == 'diag':
            msg = ('the diagnostic `%s` of a `#%s` directive is located, on all %d explored paths that reach it from the directive loop of %s, at a token BEHIND the end of the directive\'s line '
                   '(%s; the line ends at %s): the message names the line -- after the last directive of a header, the file -- of whatever follows the directive, not the directive' % (
                       s['what'], s['directive'], s['n'], L.F, (s['ex'] or {}).get('token'), (s['ex'] or {}).get('line ends at')))
        elif s['type'] == 'eol':
            msg = ('the end-of-list token that terminates the copied tokens of a directive\'s line takes its position, on all %d explored paths, from a token BEHIND the end of the line '
                   '(%s; it is a copy of the first token of the next line): a diagnostic raised at the end of the operand list -- a missing `)` in `#if (1`, a missing operand of `#line` -- '
                   'names the line, after the last directive of a header the file, of whatever follows' % (s['n'], (s['ex'] or {}).get('token')))
        else:
            msg = ('the token a `#%s` directive stores in %s, which a later diagnostic is located at, is on all %d explored paths a token BEHIND the end of the directive\'s line (%s): '
                   'that diagnostic will name the line after the directive' % (s['directive'], s['what'], s['n'], (s['ex'] or {}).get('token')))
        rep.ob('R18.9', key, not bad, msg, where=s['where'], facts={'paths_with_a_token_of_the_directive': s['n'], 'of_those_behind_the_line': s['behind'],
                                                                    'paths_with_another_token': s['other'], 'example': s['ex']})
    rep.extra.setdefault('R18.9', {}).update({'dispatcher': L.F, 'paths': npaths, 'summaries': L.nsumm, 'sites': len(sites), 'sites_judged': judged, 'directives': sorted(L.dnames),
                                              'position_fields': sorted('%s.%s' % x for x in L.posfields),
                                              'summarised': sorted(f for f, k in L.kind.items() if k == 'summ'), 'seconds': round(time.process_time() - L.t0, 1)})
    if ndir == 0 or judged < 15:
        rep.undecided('R18.9', '%s:%s:liveness' % (un, L.F), 'only %d diagnostic sites are reached with a token of the directive on %d paths of a directive iteration' % (judged, ndir), where=W)
