"""Private helper of sa/rules/c18.py: the byte-loop engine of lib_c18 extended so that the counting laws can be stated over
WHATEVER computes Token.line_no / File.contents, not over named functions.

ScanInterp (a CutInterp) adds:
  * the loop that is cut is chosen by a predicate (default: first loop at depth 1); file-scope variables the loop (and the
    functions it calls) assign are replaced by fresh symbols at the cut like the locals ('g:<name>' in the head/snapshots);
  * the <ctype.h> classification macros/functions restrict the set of values a byte may have on the path;
  * strncmp/memcmp of the buffer with a literal teach the bytes on the equal branch;
  * strstr/strchr/memchr/strpbrk on the buffer return `start + off` with off >= 0 unknown: a SPAN of bytes nothing has
    looked at ('span' event; whether it may contain a newline follows from what was searched for);
  * loops behind the cut are followed for a bounded number of generic iterations;
  * a local char array filled by fread is a chunk of the input (bytes Term('byte', chunk + i), valid length = fread's result);
    fputc/putc/fwrite on a stream are stores at `stream + position` ('@out' pseudo loop variable);
  * a cut loop nested in another loop ends its path at the loop exit ('@loop_exit').
"""
from .interp import (Interp, Ctx, Sym, Term, Lin, Obj, View, Cell, Arr, is_opaque, vkey, NoReturn, Infeasible,
                     Unsupported, ElemPlace, _Ref, _Break, _Continue, _StaticAlias, VarPlace)
from .build import AnalysisBroken
from .lib_c18 import (CutInterp, BufPlace, INF, lin, lsub, ladd, same, known_byte, may_be, _assigned_vars, first, after, pinned, lower_bound, _has_side_effects)

T = 'tokenize.c'

# --------------------------------------------------------------------------------------------- byte classes
_ALL = frozenset(range(256))
_CLASSES = {
    'space': frozenset([9, 10, 11, 12, 13, 32]),
    'blank': frozenset([9, 32]),
    'digit': frozenset(range(48, 58)),
    'upper': frozenset(range(65, 91)),
    'lower': frozenset(range(97, 123)),
    'xdigit': frozenset(list(range(48, 58)) + list(range(65, 71)) + list(range(97, 103))),
    'cntrl': frozenset(list(range(0, 32)) + [127]),
    'print': frozenset(range(32, 127)),
    'graph': frozenset(range(33, 127)),
}
_CLASSES['alpha'] = _CLASSES['upper'] | _CLASSES['lower']
_CLASSES['alnum'] = _CLASSES['alpha'] | _CLASSES['digit']
_CLASSES['punct'] = _CLASSES['graph'] - _CLASSES['alnum']
CTYPE_FNS = {'is' + k: k for k in _CLASSES}


def byte_set(ctx, v):
    """values the byte value v may have on this path (C locale, 0..255)"""
    kb = known_byte(ctx, v)
    if kb is not None:
        return frozenset([kb & 0xff])
    s = getattr(ctx, 'c18_sets', {}).get(vkey(v), _ALL)
    if is_opaque(v):
        k = vkey(v)
        ne = ctx.neq.get(k)
        if ne:
            s = s - frozenset(x & 0xff for x in ne)
        b = ctx.bounds.get(k)
        if b:
            s = frozenset(x for x in s if b[0] <= x <= b[1] or b[0] <= x - 256 <= b[1])
    return s


def may_nl(ctx, v):
    """can the byte value v be a newline on this path?"""
    if isinstance(v, int):
        return v == 10
    return may_be(ctx, v, 10) and 10 in byte_set(ctx, v) and consistent_with(ctx, vkey(v), 10)


def _eval_key(key, subst):
    """value of a value key (interp.vkey) when the leaves in subst have the given values; None when it depends on anything else"""
    if isinstance(key, bool):
        return int(key)
    if isinstance(key, int):
        return key
    if key in subst:
        return subst[key]
    if not isinstance(key, tuple) or not key:
        return None
    if key[0] == 'lin':
        tot = key[1]
        for k, c in key[2:]:
            x = _eval_key(k, subst)
            if x is None:
                return None
            tot += c * x
        return tot
    if key[0] != 'term' or len(key) < 3 or not isinstance(key[1], str):
        return None
    op = key[1]
    xs = [_eval_key(a, subst) for a in key[2:]]
    if any(x is None for x in xs):
        return None
    if op.startswith('cast:') and len(xs) == 1:
        from .interp import wrap_int
        return wrap_int(xs[0], op[5:])
    base = op.split(':')[0]
    try:
        if len(xs) == 1:
            return {'!': lambda a: int(not a), 'neg': lambda a: -a, '~': lambda a: ~a, 'bool': lambda a: int(bool(a))}[base](xs[0])
        if len(xs) == 2:
            a, b = xs
            if base in ('/', '%') and b == 0:
                return None
            return {'+': lambda: a + b, '-': lambda: a - b, '*': lambda: a * b, '&': lambda: a & b, '|': lambda: a | b, '^': lambda: a ^ b,
                    '<<': lambda: a << b if 0 <= b < 64 else None, '>>': lambda: a >> b if 0 <= b < 64 else None,
                    '==': lambda: int(a == b), '!=': lambda: int(a != b), '<': lambda: int(a < b), '<=': lambda: int(a <= b),
                    '>': lambda: int(a > b), '>=': lambda: int(a >= b),
                    '/': lambda: abs(a) // abs(b) * (1 if (a >= 0) == (b >= 0) else -1), '%': lambda: a - (abs(a) // abs(b) * (1 if (a >= 0) == (b >= 0) else -1)) * b}[base]()
    except (KeyError, TypeError):
        return None
    return None


def _contains(key, leaf):
    if key == leaf:
        return True
    return isinstance(key, tuple) and any(_contains(k, leaf) for k in key)


def consistent_with(ctx, leafkey, value):
    """is `leaf == value` compatible with every condition the path has decided (conditions that mention nothing else are evaluated)?"""
    sub = {leafkey: value}
    for k, truth in ctx.facts.items():
        if k != leafkey and _contains(k, leafkey):
            ev = _eval_key(k, sub)
            if ev is not None and bool(ev) != bool(truth):
                return False
    for k, b in ctx.bounds.items():
        if k != leafkey and _contains(k, leafkey):
            ev = _eval_key(k, sub)
            if ev is not None and not (b[0] <= ev <= b[1]):
                return False
    for k, ne in ctx.neq.items():
        if k != leafkey and _contains(k, leafkey):
            ev = _eval_key(k, sub)
            if ev is not None and ev in ne:
                return False
    return True


def nl_of(ctx, v):
    """newline indicator of a byte value: 1, 0, or a symbol when the path does not know"""
    if not may_nl(ctx, v):
        return 0
    if known_byte(ctx, v) == 10:
        return 1
    return Sym('isnl(%r)' % (v,))


def nl_at(ctx, addr):
    """newline indicator of the input byte at addr; the byte may have been read or learnt through another spelling of the same address
    (an address made of a symbol the path has pinned since)"""
    vs = [Term('byte', addr)]
    seen = list(getattr(ctx, 'c18_addrs', ())) + [e[1] for e in ctx.events if e[0] == 'bread']
    for a in seen:
        d = lsub(a, addr)
        if d is not None and not isinstance(d, int) and pinned(ctx, d) == 0:
            vs.append(Term('byte', a))
    rs = [nl_of(ctx, v) for v in vs]
    if any(isinstance(r, int) and r == 0 for r in rs):
        return 0
    if any(isinstance(r, int) and r == 1 for r in rs):
        return 1
    return rs[0]


def feasible(ctx):
    """no byte is pinned to a value outside the set the classification tests left"""
    for k, s in getattr(ctx, 'c18_sets', {}).items():
        if not s:
            return False
        b = ctx.bounds.get(k)
        if b and b[0] == b[1] and (b[0] & 0xff) not in s:
            return False
    return True


def _restrict(ctx, v, s):
    if not hasattr(ctx, 'c18_sets'):
        ctx.c18_sets = {}
    cur = byte_set(ctx, v) & s
    if not cur:
        raise Infeasible('byte class')
    ctx.c18_sets[vkey(v)] = cur
    if len(cur) == 1 and is_opaque(v):
        c = list(cur)[0]
        ctx.bounds[vkey(v)] = [c, c]


def _learn_byte(ctx, addr, c):
    v = Term('byte', addr)
    if not hasattr(ctx, 'c18_addrs'):
        ctx.c18_addrs = []
    ctx.c18_addrs.append(addr)
    if c not in byte_set(ctx, v):
        raise Infeasible('byte value')
    ctx.bounds[vkey(v)] = [c, c]


def _uncast(v):
    while isinstance(v, Term) and v.op.startswith('cast:') and len(v.args) == 1:
        v = v.args[0]
    return v


# --------------------------------------------------------------------------------------------- the engine
STREAM_IN = ('fgetc', 'getc', 'ungetc', 'fread', 'fgets', 'getline', 'read', 'fscanf')


class ScanInterp(CutInterp):
    def __init__(self, program, unit, cfg=None):
        cfg = dict(cfg or {})
        self.cut_pred = cfg.pop('cut_pred', None)
        self.havoc_globals = list(cfg.pop('havoc_globals', ()))      # [(name, ctype)]
        self.inner_limit = cfg.pop('inner_limit', 2)
        self.stop_at_exit = cfg.pop('stop_at_exit', False)
        self.accelerate = cfg.pop('accelerate', False)      # counting loops behind the cut are summarised (lib_c18) instead of followed
        models = dict(cfg.get('models', {}))
        for nm, h in (('strncmp', self._m_strncmp), ('memcmp', self._m_strncmp), ('strstr', self._m_strstr), ('strchr', self._m_strchr),
                      ('memchr', self._m_strchr), ('strpbrk', self._m_strpbrk), ('fread', self._m_fread), ('fputc', self._m_fputc),
                      ('putc', self._m_fputc), ('fwrite', self._m_fwrite), ('fgetc', self._m_input), ('getc', self._m_input), ('ungetc', self._m_input),
                      ('fgets', self._m_fgets), ('read', self._m_read)):
            models.setdefault(nm, h)
        for nm, cls in CTYPE_FNS.items():
            models.setdefault(nm, self._m_ctype(cls))
        cfg['models'] = models
        CutInterp.__init__(self, program, unit, cfg)

    # ---- per path state -------------------------------------------------------------------------
    def _st(self):
        st = CutInterp._st(self)
        if 'chunk' not in st:
            st.update({'chunk': {}, 'chunklen': {}, 'pos': {}, 'spans': [], 'cut_node': None})
        return st

    # ---- classification -------------------------------------------------------------------------
    def classify(self, v, cls, label):
        ctx = self.ctx
        v = _uncast(self.settle(v) if isinstance(v, View) else v)
        s = _CLASSES[cls]
        if isinstance(v, int):
            return 1 if (v & 0xff) in s else 0
        if not is_opaque(v):
            raise Unsupported('character class test of %r' % (v,))
        cur = byte_set(ctx, v)
        if cur <= s:
            return 1
        if not (cur & s):
            return 0
        i = ctx.choose(2, 'is%s %s' % (cls, label))
        if i == 0:
            _restrict(ctx, v, s)
            ctx.note('is%s(%s)' % (cls, label))
            return 1
        _restrict(ctx, v, _ALL - s)
        ctx.note('!is%s(%s)' % (cls, label))
        return 0

    def _m_ctype(self, cls):
        def h(it, ctx, call, args):
            return it.classify(args[0], cls, call.args()[0].src() if call.args() else '?')
        return h

    def e_BinaryOperator(self, n, env):
        if n.opcode == '&':
            L, R = n.inner
            if any(c.kind == 'CallExpr' and c.callee() == '__ctype_b_loc' for c in L.walk()):
                cls = None
                for c in R.walk():
                    if c.kind == 'DeclRefExpr' and (c.ref_name or '').startswith('_IS'):
                        cls = c.ref_name[3:]
                sub = L.strip_all()
                if cls in _CLASSES and sub.kind == 'ArraySubscriptExpr':
                    v = self.eval(sub.inner[1], env)
                    return self.classify(v, cls, sub.inner[1].src())
                raise Unsupported('character classification not understood at %s:%d' % (self.unit.name, n.line))
        return CutInterp.e_BinaryOperator(self, n, env)

    def truth(self, v, where=None):
        if is_opaque(v) and not isinstance(v, Term) and vkey(v) in self._st().get('nonnull', ()):
            return True
        return CutInterp.truth(self, v, where)

    # ---- comparisons of linear terms: decided by the bounds of their difference, or reduced to `leaf op constant` (which the engine learns from) ----
    def cmp(self, op, a, b):
        if op in ('==', '!=', '<', '<=', '>', '>=') and (is_opaque(a) or is_opaque(b)) and (is_opaque(a) or isinstance(a, int)) and (is_opaque(b) or isinstance(b, int)) \
                and not isinstance(a, bool) and not isinstance(b, bool):
            d = lsub(a, b)
            if d is not None and not isinstance(d, int):
                ctx = self.ctx
                lo = lower_bound(ctx, d)
                nhi = lower_bound(ctx, lsub(0, d))
                hi = -nhi if nhi is not None else None
                r = None
                if op == '<':
                    r = True if (hi is not None and hi < 0) else (False if (lo is not None and lo >= 0) else None)
                elif op == '<=':
                    r = True if (hi is not None and hi <= 0) else (False if (lo is not None and lo > 0) else None)
                elif op == '>':
                    r = True if (lo is not None and lo > 0) else (False if (hi is not None and hi <= 0) else None)
                elif op == '>=':
                    r = True if (lo is not None and lo >= 0) else (False if (hi is not None and hi < 0) else None)
                elif op == '==':
                    r = False if ((lo is not None and lo > 0) or (hi is not None and hi < 0)) else (True if (lo == 0 and hi == 0) else None)
                elif op == '!=':
                    r = True if ((lo is not None and lo > 0) or (hi is not None and hi < 0)) else (False if (lo == 0 and hi == 0) else None)
                if r is not None:
                    return int(r)
                l = lin(d)
                if len(l.terms) == 1:
                    (k, (c, leaf)), = l.terms.items()
                    if c == 1:
                        return CutInterp.cmp(self, op, leaf, -l.c)
                    if c == -1:
                        flip = {'<': '>', '<=': '>=', '>': '<', '>=': '<=', '==': '==', '!=': '!='}[op]
                        return CutInterp.cmp(self, flip, leaf, l.c)
        return CutInterp.cmp(self, op, a, b)

    # ---- string functions on the buffer -----------------------------------------------------------
    def _m_strncmp(self, it, ctx, call, args):
        a, b = args[0], args[1]
        k = args[2] if len(args) > 2 else None
        if isinstance(a, str) and isinstance(b, str) and isinstance(k, int):
            a, b = a[:k], b[:k]
            return (a > b) - (a < b)
        if isinstance(b, str) and not isinstance(a, str):
            a, b = b, a
        if isinstance(a, str) and is_opaque(b) and lin(b) is not None and isinstance(k, int):
            lit = a[:k]
            i = ctx.choose(2, '%s %r' % (call.callee(), lit))
            if i == 0:
                for j, ch in enumerate(lit):
                    _learn_byte(ctx, ladd(b, j), ord(ch) & 0xff)
                if call.callee() != 'memcmp' and k > len(a):
                    _learn_byte(ctx, ladd(b, len(a)), 0)
                ctx.note('%s starts with %r' % (b, lit))
                return 0
            ctx.note('%s does not start with %r' % (b, lit))
            return 1
        r = Sym(ctx.fresh(call.callee()), 'int')
        ctx.emit('call', call.callee(), args, call.line, r)
        return r

    def _search(self, call, hay, learn, may_nl_inside, what):
        """result of a search from `hay`: NULL, or hay + off with the bytes before it never examined"""
        ctx = self.ctx
        i = ctx.choose(2, '%s finds %s' % (call.callee(), what))
        if i == 1:
            ctx.note('%s: %s not found' % (call.callee(), what))
            return 0
        off = Sym(ctx.fresh(call.callee() + '.off'), 'long')
        ctx.bounds[off.key()] = [0, INF]
        q = ladd(hay, off)
        learn(q)
        self._st().setdefault('nonnull', set()).add(vkey(q))
        self._st()['spans'].append((hay, off, may_nl_inside, call.callee(), call.line))
        ctx.emit('span', hay, off, may_nl_inside, call.callee(), call.line)
        ctx.note('%s: %s found at +%s' % (call.callee(), what, off.name))
        return q

    def _m_strstr(self, it, ctx, call, args):
        h, nd = args[0], args[1]
        if is_opaque(h) and lin(h) is not None and isinstance(nd, str) and nd:
            def learn(q):
                for j, ch in enumerate(nd):
                    _learn_byte(ctx, ladd(q, j), ord(ch) & 0xff)
            return self._search(call, h, learn, nd != '\n', repr(nd))
        return self._opaque_call(call, args)

    def _m_strchr(self, it, ctx, call, args):
        h, c = args[0], _uncast(args[1])
        if is_opaque(h) and lin(h) is not None and isinstance(c, int):
            return self._search(call, h, lambda q: _learn_byte(ctx, q, c & 0xff), (c & 0xff) != 10, repr(chr(c & 0xff)))
        if isinstance(h, str) and is_opaque(c) and call.callee() == 'strchr':
            s = frozenset(ord(x) & 0xff for x in h) | frozenset([0])
            cur = byte_set(ctx, c)
            if cur <= s:
                return 1
            if not (cur & s):
                return 0
            i = ctx.choose(2, 'strchr(%r, %s)' % (h, c))
            if i == 0:
                _restrict(ctx, c, s)
                ctx.note('%s in %r' % (c, h))
                return 1
            _restrict(ctx, c, _ALL - s)
            ctx.note('%s not in %r' % (c, h))
            return 0
        if isinstance(h, str) and isinstance(c, int) and call.callee() == 'strchr':
            return 1 if (chr(c & 0xff) in h or c == 0) else 0
        return self._opaque_call(call, args)

    def _m_strpbrk(self, it, ctx, call, args):
        h, acc = args[0], args[1]
        if is_opaque(h) and lin(h) is not None and isinstance(acc, str) and acc:
            s = frozenset(ord(x) & 0xff for x in acc)
            return self._search(call, h, lambda q: _restrict(ctx, Term('byte', q), s), 10 not in s, 'one of %r' % acc)
        return self._opaque_call(call, args)

    def _opaque_call(self, call, args):
        ctx = self.ctx
        t = call.dtype or call.type
        r = None if t == 'void' else self.lazy_value(t, ctx.fresh(call.callee()))
        ctx.emit('call', call.callee(), args, call.line, r)
        return r

    # ---- chunks and streams -------------------------------------------------------------------------
    def _arr_of(self, v):
        if isinstance(v, Arr):
            return v
        if isinstance(v, _Ref) and isinstance(v.place, ElemPlace) and isinstance(v.place.arr, Arr) and v.place.i == 0:
            return v.place.arr
        return None

    def _m_fread(self, it, ctx, call, args):
        st = self._st()
        arr = self._arr_of(args[0])
        size, cnt = args[1], args[2]
        n = Sym(ctx.fresh('fread.n'), 'long')
        hi = cnt if isinstance(cnt, int) else INF
        ctx.bounds[n.key()] = [0, hi]
        ctx.emit('input', 'fread', args, call.line, n)
        if arr is not None and isinstance(size, int) and size == 1:
            base = Sym(ctx.fresh('chunk'), 'char *')
            st['chunk'][id(arr)] = (arr, base)
            st['chunklen'][base.key()] = n
        elif arr is not None:
            raise Unsupported('fread with an element size other than 1 at %s:%d' % (self.unit.name, call.line))
        return n

    def _m_read(self, it, ctx, call, args):
        st = self._st()
        arr = self._arr_of(args[1]) if len(args) > 1 else None
        cnt = args[2] if len(args) > 2 else None
        n = Sym(ctx.fresh('read.n'), 'long')
        ctx.bounds[n.key()] = [-1, cnt if isinstance(cnt, int) else INF]
        ctx.emit('input', 'read', args, call.line, n)
        if arr is not None:
            base = Sym(ctx.fresh('chunk'), 'char *')
            st['chunk'][id(arr)] = (arr, base)
            st['chunklen'][base.key()] = n
        return n

    def _m_fgets(self, it, ctx, call, args):
        st = self._st()
        arr = self._arr_of(args[0])
        ctx.emit('input', 'fgets', args, call.line, None)
        if arr is None:
            return self._opaque_call(call, args)
        i = ctx.choose(2, 'fgets reads a piece')
        if i == 1:
            ctx.note('fgets: end of input')
            return 0
        base = Sym(ctx.fresh('chunk'), 'char *')
        st['chunk'][id(arr)] = (arr, base)
        st['chunklen'][base.key()] = None
        st.setdefault('nulterm', set()).add(base.key())
        ctx.note('fgets: a piece')
        return args[0]

    def _m_input(self, it, ctx, call, args):
        r = Sym(ctx.fresh(call.callee()), 'int')
        ctx.emit('input', call.callee(), args, call.line, r)
        return r

    def _stream_addr(self, stream):
        st = self._st()
        k = vkey(stream)
        if k not in st['pos']:
            st['pos'][k] = (stream, 0)
        s, pos = st['pos'][k]
        return Term('stream', stream), pos, k

    def _m_fputc(self, it, ctx, call, args):
        c, stream = args[0], args[1]
        c = self.settle(c) if isinstance(c, View) else c
        base, pos, k = self._stream_addr(stream)
        ctx.emit('bstore', ladd(base, pos), c, call.line)
        self._st()['pos'][k] = (stream, ladd(pos, 1))
        return c

    def _m_fwrite(self, it, ctx, call, args):
        src, size, cnt, stream = args[0], args[1], args[2], args[3]
        arr = self._arr_of(src)
        st = self._st()
        if arr is not None and id(arr) in st['chunk']:
            src = st['chunk'][id(arr)][1]
        base, pos, k = self._stream_addr(stream)
        tot = cnt if (isinstance(size, int) and size == 1) else Term('*', size, cnt)
        ctx.emit('bcopy', ladd(base, pos), tot, src, call.line)
        l = lin(tot)
        st['pos'][k] = (stream, ladd(pos, tot) if l is not None else Sym(ctx.fresh('pos'), 'long'))
        return cnt

    def e_ImplicitCastExpr(self, n, env):
        v = CutInterp.e_ImplicitCastExpr(self, n, env)
        if n.cast_kind == 'ArrayToPointerDecay' and isinstance(v, Arr):
            st = self._st()
            if id(v) in st['chunk']:
                return st['chunk'][id(v)][1]
        return v

    def place(self, n, env):
        m = n.strip() if n.kind == 'ParenExpr' else n
        if m.kind == 'ArraySubscriptExpr' and self._is_char(m):
            st = self._st()
            if st['chunk']:
                a = self.eval(m.inner[0], env)
                arr = self._arr_of(a)
                if arr is not None and id(arr) in st['chunk']:
                    i = self.eval(m.inner[1], env)
                    i = self.force(i) if isinstance(i, View) else i
                    return BufPlace(self.arith('+', st['chunk'][id(arr)][1], i, 'long'), m.line)
        return CutInterp.place(self, n, env)

    # ---- loops ------------------------------------------------------------------------------------
    def _want_cut(self, s):
        st = self._st()
        if not self.cut_loops or st['cut_done']:
            return False
        if self.cut_pred is not None:
            return bool(self.cut_pred(s))
        return self.ctx.depth == 1

    def exec_loop(self, s, _unused, cond, inc, body, env):
        st = self._st()
        if self._want_cut(s):
            return self._cut_loop(s, cond, inc, body, env, do=False)
        if not st['cut_done']:
            return Interp.exec_loop(self, s, _unused, cond, inc, body, env)
        if self.accelerate and cond is not None and not _has_side_effects(cond):
            return self._accel_stream_loop(s, cond, inc, body, env)
        return self._bounded_loop(s, cond, inc, body, env, do=False)

    def _accel_stream_loop(self, s, cond, inc, body, env):
        st = self._st()
        pre = dict(st['pos'])
        nev = len(self.ctx.events)
        CutInterp._accel_loop(self, s, cond, inc, body, env)
        done = [e for e in self.ctx.events[nev:] if e[0] == 'loop_done']
        if done and not isinstance(done[-1][2], int):
            trips = lin(done[-1][2])
            for k, (stream, pos) in list(st['pos'].items()):
                p0 = pre.get(k, (stream, 0))[1]
                d = lsub(pos, p0)
                if isinstance(d, int) and d and trips is not None:
                    st['pos'][k] = (stream, ladd(p0, trips.scale(d)))
                elif not isinstance(d, int):
                    raise Unsupported('stream position does not advance by a constant per iteration at %s:%d' % (self.unit.name, s.line))

    def exec_do(self, s, env):
        st = self._st()
        if self._want_cut(s):
            return self._cut_loop(s, s.inner[1], None, s.inner[0], env, do=True)
        if not st['cut_done']:
            return Interp.exec_do(self, s, env)
        return self._bounded_loop(s, s.inner[1], None, s.inner[0], env, do=True)

    def _bounded_loop(self, s, cond, inc, body, env, do):
        """a loop behind the cut: concrete iterations run, at most inner_limit iterations whose continuation was a choice"""
        ctx = self.ctx
        generic = 0
        iters = 0
        while True:
            if not (do and iters == 0) and cond is not None:
                before = (ctx.di, len(ctx.trail))
                c = self.truth(self.eval(cond, env), cond)
                if not c:
                    break
                if (ctx.di, len(ctx.trail)) != before:
                    generic += 1
            elif cond is None:
                generic += 1
            if generic > self.inner_limit:
                raise Infeasible('loop bound')
            iters += 1
            if iters > 20000:
                raise AnalysisBroken('concrete loop does not terminate at %s:%d' % (self.unit.name, s.line))
            before = (ctx.di, len(ctx.trail))
            try:
                self.exec(body, env)
            except _Break:
                break
            except _Continue:
                pass
            if inc is not None:
                self.eval(inc, env)
            if do:
                c = self.truth(self.eval(cond, env), cond)
                if not c:
                    break
                if (ctx.di, len(ctx.trail)) != before:
                    generic += 1
                    if generic > self.inner_limit:
                        raise Infeasible('loop bound')

    def _global_type(self, name):
        g = self.unit.globals.get(name)
        return (g.dtype or g.type) if g is not None else 'int'

    def snapshot(self, env, ids):
        out = CutInterp.snapshot(self, env, ids)
        st = self._st()
        for name, _t in st.get('hg', ()):
            out['g:' + name] = self.ctx.globals.get(name)
        for k, (stream, pos) in st['pos'].items():
            out['@out'] = pos
        return out

    def _cut_loop(self, s, cond, inc, body, env, do):
        ctx = self.ctx
        st = self._st()
        st['cut_done'] = True
        st['cut_node'] = s
        nested = any(a.kind in ('ForStmt', 'WhileStmt', 'DoStmt') for a in s.ancestors())
        ids = _assigned_vars([cond, inc, body])
        ids = {i: r for i, r in ids.items() if i in env}
        hg = []
        for name, t in self.havoc_globals:
            if name not in ctx.globals:
                try:
                    ctx.globals[name] = self.materialise_global(name, self.unit.globals[name])
                except Exception:
                    ctx.globals[name] = Sym('g:' + name, t)
            hg.append((name, t))
        st['hg'] = hg
        # streams the loop writes to: their position is a loop variable too
        for c in ([body] if body is not None else []):
            for call in c.walk():
                if call.kind == 'CallExpr' and call.callee() in ('fputc', 'putc', 'fwrite'):
                    a = call.args()
                    sa_ = a[1] if call.callee() != 'fwrite' else (a[3] if len(a) > 3 else None)
                    if sa_ is not None and sa_.strip().kind == 'DeclRefExpr' and sa_.strip().ref_id in env:
                        self._stream_addr(self.eval(sa_, env))
        entry = self.snapshot(env, ids)
        ctx.emit('loop_entry', entry, s.line, s.kind)
        head = {}
        for i, ref in ids.items():
            v = self._havoc(ref)
            env[i] = v
            head[ref.ref_name] = v
        for name, t in hg:
            v = self.lazy_value(t, 'g:' + name + '@')
            ctx.globals[name] = v
            head['g:' + name] = v
        for k, (stream, pos) in list(st['pos'].items()):
            v = Sym('@out@', 'long')
            ctx.bounds[v.key()] = [0, INF]
            st['pos'][k] = (stream, v)
            head['@out'] = v
        if self.assume:
            self.assume(self, ctx, head)
        ctx.emit('loop_head', head, s.line)

        def leave(how):
            snap = self.snapshot(env, ids)
            ctx.emit('loop_exit', snap, how)
            if nested or self.stop_at_exit:
                raise NoReturn('@loop_exit', [snap], s.line)
        if not do:
            c = self.truth(self.eval(cond, env), cond) if cond is not None else True
            if not c:
                return leave('cond-at-head')
        try:
            self.exec(body, env)
        except _Break:
            return leave('break')
        except _Continue:
            pass
        if inc is not None:
            self.eval(inc, env)
        if do:
            c = self.truth(self.eval(cond, env), cond)
            if not c:
                return leave('cond-after-body')
        snap = self.snapshot(env, ids)
        ctx.emit('iter_end', snap)
        raise NoReturn('@iter_end', [snap], s.line)


# --------------------------------------------------------------------------------------------- structure queries
def callgraph(u):
    return {fn: set(c.callee() for c in fd.walk() if c.kind == 'CallExpr' and c.callee()) for fn, fd in u.functions.items()}


def closure(calls, roots, stop=()):
    """functions of the unit reachable from roots (roots included), not entering `stop`"""
    seen, todo = set(), [r for r in roots if r in calls]
    while todo:
        f = todo.pop()
        if f in seen or f in stop:
            continue
        seen.add(f)
        todo += [c for c in calls.get(f, ()) if c in calls and c not in seen]
    return seen


def assigned_globals(u, fns):
    """file-scope variables of the unit assigned (=, op=, ++, --) in the given functions -> {name: type}"""
    out = {}
    for fn in fns:
        fd = u.functions.get(fn)
        if fd is None:
            continue
        for n in fd.walk():
            tgt = None
            if n.kind == 'UnaryOperator' and n.opcode in ('++', '--'):
                tgt = n.inner[0]
            elif n.kind == 'BinaryOperator' and n.opcode == '=':
                tgt = n.inner[0]
            elif n.kind == 'CompoundAssignOperator':
                tgt = n.inner[0]
            if tgt is None:
                continue
            t = tgt.strip()
            if t.kind == 'DeclRefExpr' and t.ref_kind == 'VarDecl' and t.ref_name in u.globals and u.globals[t.ref_name].id == t.ref_id:
                out[t.ref_name] = u.globals[t.ref_name].dtype or u.globals[t.ref_name].type
    return out


def line_no_writers(u):
    """stores to Token.line_no in the unit that are not copies of another token's line_no -> [(function, node, op)]"""
    out = []
    for fname, fd in u.functions.items():
        for n in fd.walk():
            tgt = rhs = op = None
            if n.kind == 'BinaryOperator' and n.opcode == '=':
                tgt, rhs, op = n.inner[0], n.inner[1], '='
            elif n.kind == 'CompoundAssignOperator':
                tgt, rhs, op = n.inner[0], n.inner[1], n.opcode
            elif n.kind == 'UnaryOperator' and n.opcode in ('++', '--'):
                tgt, rhs, op = n.inner[0], None, n.opcode
            if tgt is None:
                continue
            t = tgt.strip()
            if t.kind != 'MemberExpr' or t.name != 'line_no' or 'Token' not in (t.inner[0].dtype or t.inner[0].type or ''):
                continue
            r = rhs.strip_all() if rhs is not None else None
            if op == '=' and r is not None and r.kind == 'MemberExpr' and r.name == 'line_no':
                continue
            out.append((fname, n, op))
    return out


LOOPS = ('ForStmt', 'WhileStmt', 'DoStmt')


def loops_of(fd):
    return [n for n in fd.walk() if n.kind in LOOPS]


def stamp_architecture(u):
    """who numbers the tokens tokenize() makes.
    -> ('pass', F)      a function F, called by tokenize() outside its scanning loop, stores the line number (today: add_line_numbers)
       ('running', F)   the line number is stored inside the scanning loop of tokenize() (by tokenize itself or by a function the loop calls)
       ('none', None) / ('unclear', why)"""
    calls = callgraph(u)
    if 'tokenize' not in u.functions:
        return ('unclear', 'tokenize() vanished')
    reach = closure(calls, ['tokenize'])
    ws = sorted(set(f for f, n, op in line_no_writers(u) if f in reach))
    if not ws:
        return ('none', None)
    tk = u.functions['tokenize']
    body = u.body('tokenize')
    top_loops = [s for s in body.inner if s.kind in LOOPS]
    in_loop = set()
    for lp in top_loops:
        in_loop |= set(c.callee() for c in lp.walk() if c.kind == 'CallExpr' and c.callee())
    loop_reach = closure(calls, in_loop)
    if len(ws) > 1:
        return ('unclear', 'more than one function reachable from tokenize() stores a computed Token.line_no: %s' % ', '.join(ws))
    F = ws[0]
    if F == 'tokenize' or F in loop_reach:
        return ('running', F)
    return ('pass', F)


# --------------------------------------------------------------------------------------------- R18.3, running counter
def _ret_token(fd):
    return (fd.type or '').split('(')[0].strip().replace(' ', '') in ('Token*', 'structToken*')


def _char_params(u, f):
    return [i for i, p in enumerate(u.params(f)) if (p.type or '').replace(' ', '').replace('const', '') == 'char*']


def _consumed_shape(kinds):
    n = {'LF': 0, 'other': 0, 'unknown': 0}
    for k in kinds:
        n[k] += 1
    return '.'.join('%s%d' % (k, n[k]) for k in ('LF', 'other', 'unknown') if n[k]) or 'nothing'


def r183_running(P, u, rep, F, rule='R18.3'):
    """the line number is kept by a counter while tokenize() scans: per generic iteration of the scanning loop (cut at its head; the scan
    pointer, the counter -- local or file-scope -- and every other variable the loop assigns are symbols) the counter grows by exactly the
    number of newlines among the bytes the scan pointer moves over, and a token is stamped with the value the counter has at its first byte."""
    fn = 'tokenize'
    W = '%s:%d' % (T, u.fn(fn).line)
    base = '%s:%s' % (T, fn)
    calls = callgraph(u)
    body = u.body(fn)
    top_loops = [s for s in body.inner if s.kind in LOOPS]
    if len(top_loops) != 1:
        rep.undecided(rule, base + ':shape', 'expected one scanning loop at the top level of tokenize(), found %d' % len(top_loops), where=W)
        return
    loop = top_loops[0]
    in_loop = set(c.callee() for c in loop.walk() if c.kind == 'CallExpr' and c.callee())
    loop_reach = closure(calls, in_loop)
    hg = assigned_globals(u, loop_reach | {fn})
    hg = {k: t for k, t in hg.items() if '*' not in t and '[' not in t}
    # the constructor: the function the loop reaches that returns a token built from (start, end) and (itself or through callees) stores the stamp
    cands = [f for f in sorted(loop_reach) if _ret_token(u.functions[f]) and len(_char_params(u, f)) >= 2]
    ctor = min(cands, key=lambda f: (len(closure(calls, [f])), f)) if cands else None
    makers = [f for f in sorted(loop_reach) if _ret_token(u.functions[f]) and f != ctor and f != fn and _char_params(u, f)
              and (ctor is None or ctor in closure(calls, [f]))]
    wr_glob = assigned_globals(u, closure(calls, makers, stop=[ctor] if ctor else []))

    def cut_maker(it, ctx, call, args):
        name = call.callee()
        start = args[_char_params(u, name)[0]]
        ln = Sym(ctx.fresh(name + '.len'), 'int')
        ctx.bounds[ln.key()] = [1, INF]
        if ctor is not None and ctor in closure(calls, [name]):
            cp = _char_params(u, ctor)
            own = {q.name: j for j, q in enumerate(u.params(name)) if q.name}
            wa = []
            for i, p in enumerate(u.params(ctor)):
                if i == cp[0]:
                    wa.append(start)
                elif i == cp[1]:
                    wa.append(ladd(start, ln))
                elif p.name in own and own[p.name] < len(args) and (u.params(name)[own[p.name]].type == p.type):
                    wa.append(args[own[p.name]])          # handed through (a line number passed along, say)
                else:
                    wa.append(it.lazy_value(p.type, ctx.fresh(name + '.' + (p.name or 'arg'))))
            t = it.call_fn(u, u.functions[ctor], wa)
            if isinstance(t, Obj):
                t.fields.setdefault('loc', start)
                t.lazy = True
                t.label = t.label or ctx.fresh(name)
            ctx.emit('call', name, args, call.line, t)
            return t
        t = Obj('Token', lazy=True, label=ctx.fresh(name))
        t.fields.update({'loc': start, 'len': ln})
        ctx.emit('call', name, args, call.line, t)
        return t
    opaque = [f for f in sorted(loop_reach) if f not in makers and f != ctor and f not in closure(calls, [ctor] if ctor else [])
              and not _ret_token(u.functions[f]) and loops_of(u.functions[f]) and not assigned_globals(u, closure(calls, [f]))
              and (u.functions[f].type or '').split('(')[0].strip() not in ('void', 'bool', '_Bool')]
    it = ScanInterp(P, u, {'track_stores': True, 'cut': {m: cut_maker for m in makers}, 'opaque': opaque,
                           'havoc_globals': sorted(hg.items()), 'inner_limit': 1, 'cut_pred': lambda s: s.id == loop.id})
    paths = it.explore(fn, lambda ctx: [Obj('File', lazy=True, label='file')], max_paths=4000)
    paths = [(c, o) for c, o in paths if feasible(c)]
    # the counter: the loop variable the stamps are made of
    cvs = set()
    n_it = n_exit = n_stamp = n_lf = 0
    dec = []
    for ctx, out in paths:
        lh = first(ctx, 'loop_head')
        if lh is None:
            continue
        hs = {v.key(): name for name, v in lh[1].items() if isinstance(v, Sym)}
        for e in after(ctx, 'loop_head'):
            if e[0] == 'fstore' and e[2] == 'line_no':
                l = lin(e[4])
                if l is not None:
                    cvs |= set(hs[k] for k in l.terms if k in hs)
    if len(cvs) != 1:
        rep.undecided(rule, base + ':shape', 'the line numbers stored inside the scanning loop are not made of exactly one loop variable (%s)' % (sorted(cvs) or 'none'), where=W)
        return
    cv = cvs.pop()
    if cv.startswith('g:') and cv[2:] in wr_glob:
        rep.undecided(rule, base + ':shape', 'a token scanner called by the loop assigns the line counter %s: its effect on the line count is not followed' % cv[2:], where=W)
    first_path = True
    for ctx, out in paths:
        le, lh = first(ctx, 'loop_entry'), first(ctx, 'loop_head')
        if le is None or lh is None:
            if out[0] == 'ret':
                rep.undecided(rule, base + ':shape', 'a returning path does not reach the scanning loop', where=W)
            continue
        head, entry = lh[1], le[1]
        ptrs = [k for k, v in head.items() if isinstance(v, Sym) and (v.ctype or '').replace(' ', '') in ('char*', 'constchar*')]
        if len(ptrs) != 1 or cv not in head:
            rep.undecided(rule, base + ':shape', 'expected one scan pointer among the loop variables %s' % sorted(head), where=W)
            return
        pv = ptrs[0]
        p0, c0 = head[pv], head[cv]
        facts = {'path': ctx.trail}
        if first_path:
            first_path = False
            e_p = entry.get(pv)
            rep.ob(rule, base + ':count-starts-at-1', entry.get(cv) == 1, 'the line counter %s is %r, not 1, when the scan starts' % (cv, entry.get(cv)), where=W)
            rep.ob(rule, base + ':scan-starts-at-contents', isinstance(e_p, Sym) and e_p.name.endswith('.contents'),
                   'the scan does not start at the first byte of the file\'s contents (%r)' % (e_p,), where=W)
        evs = after(ctx, 'loop_head')
        ie, xe = first(ctx, 'iter_end'), first(ctx, 'loop_exit')
        if out[0] == 'noreturn' and not str(out[1]).startswith('@'):
            continue            # a diagnostic ends the run
        state = ie[1] if ie is not None else (xe[1] if xe is not None else None)
        if state is None:
            continue
        dp, dc = lsub(state[pv], p0), lsub(state[cv], c0)
        where = '%s:%d' % (T, lh[2])
        # tokens made on this path
        toks = {}
        for e in evs:
            if e[0] == 'fstore' and isinstance(e[1], Obj) and e[2] in ('loc', 'len', 'line_no', 'kind'):
                toks.setdefault(id(e[1]), {'obj': e[1]})[e[2]] = e[4]
            if e[0] == 'call' and len(e) > 4 and isinstance(e[4], Obj) and e[1] in makers:
                d = toks.setdefault(id(e[4]), {'obj': e[4]})
                for f in ('loc', 'len'):
                    if f in e[4].fields:
                        d.setdefault(f, e[4].fields[f])
        toks = [t for t in toks.values() if 'loc' in t]

        def nls_before(off):
            """newline count of the bytes [p0, p0+off) or None"""
            tot = 0
            for i in range(off):
                tot = ladd(tot, nl_at(ctx, ladd(p0, i)))
            return tot
        for t in toks:
            j = lsub(t['loc'], p0)
            if 'line_no' not in t:
                rep.ob(rule, base + ':token-stamped', False, 'a token made in the scanning loop gets no line number on this path (it keeps the value 0 of calloc)', where=where, facts=facts)
                continue
            n_stamp += 1
            if not (isinstance(j, int) and 0 <= j <= 8):
                rep.undecided(rule, base + ':stamp-shape', 'a token starts at %r, not at a constant offset from the scan pointer' % (t['loc'],), where=where)
                continue
            want = ladd(c0, nls_before(j))
            d = lsub(t['line_no'], want)
            rep.ob(rule, base + ':stamp-is-current-count', isinstance(d, int) and d == 0,
                   'a token that starts at the scan pointer%s is stamped with %r, the line count there is %r' % (' + %d' % j if j else '', t['line_no'], want), where=where, facts=facts)
        if xe is not None:
            n_exit += 1
            eof = u.enum_value('TK_EOF')
            # the rest of the function: the end-of-input token
            et = [t for t in toks if it.settle(t.get('kind')) == eof] if toks else []
            rep.ob(rule, base + ':end-of-input-token-stamped', bool(et) and all('line_no' in t for t in et) and isinstance(dp, int) and dp == 0,
                   'after the scanning loop no end-of-input token is made and stamped with the line count (diagnostics at end of input name line 0)', where=W, facts=facts)
            continue
        n_it += 1
        if dp is None or dc is None:
            rep.undecided(rule, base + ':shape', 'the advance of the scan pointer or of the counter is not linear (%r, %r)' % (state[pv], state[cv]), where=where)
            continue
        pdp = pinned(ctx, dp)
        tok_region = [t for t in toks if 'len' in t and same(t['loc'], p0) and same(_uncast_lin(t['len']), _uncast_lin(dp))]
        if tok_region and pinned(ctx, dc) == 0:
            rep.ob(rule, base + ':count-per-newline/token', True, '', where=where, facts=facts)     # (assumption: no newline inside a token)
            continue
        if isinstance(pdp, int):
            if pdp < 0 or pdp > 64:
                rep.undecided(rule, base + ':shape', 'the scan pointer moves by %d in one iteration' % pdp, where=where)
                continue
            kinds = []
            cnl = 0
            for i in range(pdp):
                x = nl_at(ctx, ladd(p0, i))
                kinds.append('LF' if x == 1 else ('other' if x == 0 else 'unknown'))
                cnl = ladd(cnl, x)
            resid = lsub(dc, cnl)
            pr = pinned(ctx, resid)
            if 'LF' in kinds and pr == 0:
                n_lf += 1
            rep.ob(rule, base + ':count-per-newline/' + _consumed_shape(kinds), pr == 0,
                   'an iteration moves the scan pointer over %d byte(s) of which %s newline(s) and changes the line counter %s by %s: every later token of the file is numbered wrongly' % (
                       pdp, cnl, cv, dc), where=where, facts=facts)
            continue
        # the pointer moved by an amount the path does not know: over a region nothing has looked at
        l = lin(dp)
        spans = {e[2].key(): e for e in evs if e[0] == 'span'}
        unknown = [k for k in l.terms if not (ctx.bounds.get(k) and ctx.bounds[k][0] == ctx.bounds[k][1])]
        if len(unknown) == 1 and unknown[0] in spans and l.terms[unknown[0]][0] == 1:
            sp = spans[unknown[0]]
            a = lsub(sp[1], p0)                                   # known bytes before the searched region
            b = pinned(ctx, lsub(lsub(dp, sp[2]), a)) if isinstance(a, int) else None      # and behind it
            if isinstance(a, int) and isinstance(b, int) and 0 <= a <= 16 and 0 <= b <= 16:
                cnl = nls_before(a)
                for i in range(b):
                    cnl = ladd(cnl, nl_at(ctx, ladd(ladd(sp[1], sp[2]), i)))
                resid = pinned(ctx, lsub(dc, cnl))
                key = base + ':count-per-newline/region-skipped-by-%s' % sp[4]
                if not sp[3]:
                    rep.ob(rule, key, resid == 0, 'an iteration moves the scan pointer over a region without newlines and %s other byte(s) of which %s newline(s), and changes the line counter %s by %s' % (
                        a + b, cnl, cv, dc), where=where, facts=facts)
                elif pinned(ctx, dc) is not None and _untouched(ctx, evs, sp):
                    rep.ob(rule, key, False,
                           'an iteration moves the scan pointer to where %s() found its target, over a region of unknown length whose bytes nothing has looked at, and changes the line counter %s by the constant %s: '
                           'the newlines inside the region are not counted, so every later token of the file gets a line number that is too small' % (sp[4], cv, pinned(ctx, dc)),
                           where='%s:%d' % (T, sp[5]), facts=facts)
                else:
                    rep.undecided(rule, key, 'cannot relate the change of the counter (%r) to the newlines of the skipped region' % (dc,), where=where)
                continue
        rep.undecided(rule, base + ':shape', 'the scan pointer moves by %r in one iteration: neither a token, nor a known number of bytes, nor one searched region' % (dp,), where=where)
    if n_it < 5 or n_exit < 1 or n_stamp < 2 or n_lf < 1:
        rep.undecided(rule, base + ':liveness', 'iterations %d, exits %d, stamped tokens %d, iterations that count a newline %d' % (n_it, n_exit, n_stamp, n_lf), where=W)


def _mentions(key, symkey):
    if key == symkey:
        return True
    if isinstance(key, tuple):
        return any(_mentions(k, symkey) for k in key)
    return False


def _untouched(ctx, evs, sp):
    """nothing on the path has looked at the searched region sp = ('span', start, off, ...): no recorded condition mentions its length and
    no byte was read between its start and the place found"""
    offk = sp[2].key()
    if any(_mentions(k, offk) for k in ctx.facts):
        return False
    for e in evs:
        if e[0] != 'bread':
            continue
        d_end = lsub(e[1], ladd(sp[1], sp[2]))
        if isinstance(d_end, int) and d_end >= 0:
            continue                  # the target found, or behind it
        d_start = lsub(e[1], sp[1])
        if isinstance(d_start, int) and d_start < 0:
            continue                  # before the region
        return False
    return True


def _uncast_lin(v):
    """a linear value with int casts of its leaves removed (a length kept in an int field)"""
    v = _uncast(v)
    l = lin(v)
    if l is None or isinstance(l, int):
        return v
    tot = l.c
    for k, (c, leaf) in l.terms.items():
        tot = ladd(tot, lin(_uncast(leaf)).scale(c))
    return tot


# --------------------------------------------------------------------------------------------- R18.2: where CR is canonicalised
def explore_tolerant(it, fname, make_args, max_paths=4000):
    """Interp.explore, but a path that meets a construct the engine cannot interpret BEFORE it reaches the cut loop, or after it has left
    the function's part of interest without reaching it, is dropped (it says nothing about the loop); behind the cut the error is raised."""
    from .interp import NeedChoice
    u = it.unit
    fn = u.functions.get(fname)
    if fn is None:
        raise AnalysisBroken('function %s not found in %s' % (fname, u.name))
    out, stack, dropped = [], [[]], 0
    while stack:
        dec = stack.pop()
        ctx = Ctx(dec)
        it.ctx = ctx
        try:
            args = make_args(ctx)
            v = it.call_fn(u, fn, args)
            out.append((ctx, ('ret', v)))
        except NeedChoice as e:
            for a in range(e.n - 1, -1, -1):
                stack.append(dec + [a])
        except Infeasible:
            pass
        except NoReturn as e:
            out.append((ctx, ('noreturn', e.fn, e.args_, e.line)))
        except Unsupported:
            if first(ctx, 'loop_head') is not None:
                raise
            dropped += 1
        if len(out) + len(stack) > max_paths:
            raise AnalysisBroken('path explosion in %s (> %d)' % (fname, max_paths))
    return out


def _is_const(n, c):
    try:
        return n.strip_all().int_value() == c
    except Exception:
        return False


def cr_sites(u):
    """[(function, loop node)]: the loops, in functions tokenize_file() reaches before it tokenises, in which a byte is compared with CR
    (directly, as a case label, or in a function the loop calls). -> (sites, functions searched)"""
    calls = callgraph(u)
    reach = closure(calls, ['tokenize_file'], stop=['tokenize'])
    direct = {}
    for f in sorted(reach):
        fd = u.functions[f]
        for n in fd.walk():
            hit = False
            if n.kind == 'BinaryOperator' and n.opcode in ('==', '!=') and (_is_const(n.inner[0], 13) or _is_const(n.inner[1], 13)):
                hit = True
            elif n.kind == 'CaseStmt' and n.inner and _is_const(n.inner[0], 13):
                hit = True
            if hit:
                direct.setdefault(f, []).append(n)
    sites = []
    seen = set()
    for f, ns in direct.items():
        for n in ns:
            lps = [a for a in n.ancestors() if a.kind in LOOPS]
            if lps:
                if lps[0].id not in seen:
                    seen.add(lps[0].id)
                    sites.append((f, lps[0]))
            else:
                # the comparison lives in a helper: the loops that call it
                for g in sorted(reach):
                    for c in u.functions[g].walk():
                        if c.kind == 'CallExpr' and c.callee() and f in closure(calls, [c.callee()]):
                            lp = [a for a in c.ancestors() if a.kind in LOOPS]
                            if lp and lp[0].id not in seen:
                                seen.add(lp[0].id)
                                sites.append((g, lp[0]))
    return sites, sorted(reach)


def mentions_cr_text(u, fns):
    for f in fns:
        for n in u.functions[f].walk():
            if n.kind == 'StringLiteral':
                try:
                    if '\r' in (n.str_value() or ''):
                        return True
                except Exception:
                    return True
    return False


PURE_EXTERN = ('strchr', 'memchr', 'strstr', 'strlen', 'strncmp', 'strcmp', 'memcmp', '__ctype_b_loc', 'ferror', 'feof') + tuple(CTYPE_FNS)


def carried_state(u, loop, exclude=()):
    """names of the variables that can carry information from one chunk of input to the next: assigned inside the outermost loop around
    `loop` (that loop included) and declared outside it, other than `exclude` and the results of the input calls themselves"""
    outer = loop
    for a in loop.ancestors():
        if a.kind in LOOPS:
            outer = a
    declared_inside = set(n.id for n in outer.walk() if n.kind == 'VarDecl' and n.d.get('storageClass') != 'static')
    out = set()
    for n in outer.walk():
        tgt = rhs = None
        if n.kind == 'UnaryOperator' and n.opcode in ('++', '--'):
            tgt = n.inner[0]
        elif n.kind == 'BinaryOperator' and n.opcode == '=':
            tgt, rhs = n.inner[0], n.inner[1]
        elif n.kind == 'CompoundAssignOperator':
            tgt = n.inner[0]
        if tgt is None:
            continue
        t = tgt.strip()
        while t.kind in ('MemberExpr', 'ArraySubscriptExpr') and t.inner:
            t = t.inner[0].strip()
        if t.kind == 'UnaryOperator' and t.opcode == '*' and t.inner:
            t = t.inner[0].strip()
        if t.kind != 'DeclRefExpr':
            out.add('?')
            continue
        if t.ref_id in declared_inside or t.ref_name in exclude:
            continue
        if rhs is not None and rhs.strip_all().kind == 'CallExpr' and rhs.strip_all().callee() in STREAM_IN:
            continue
        out.add(t.ref_name)
    # a function the loop calls may keep state of its own
    calls = callgraph(u)
    for c in outer.walk():
        if c.kind != 'CallExpr':
            continue
        nm = c.callee()
        if nm is None:
            out.add('(indirect call)')
        elif nm in u.functions:
            cl = closure(calls, [nm])
            if assigned_globals(u, cl) or any(n.kind == 'VarDecl' and n.d.get('storageClass') == 'static' for f in cl for n in u.functions[f].walk()):
                out.add(nm + '()')
        elif nm not in STREAM_IN and nm not in ('fputc', 'putc', 'fwrite', 'fclose', 'fflush') and nm not in PURE_EXTERN:
            out.add(nm + '()')
    return out, outer


def splice_sites(u):
    """[(function, loop node)]: the loops, in functions tokenize_file() reaches before it tokenises, that compare a byte with a backslash and a
    byte with a newline (the line-splice filter, whatever it is called and wherever it lives)"""
    calls = callgraph(u)
    reach = closure(calls, ['tokenize_file'], stop=['tokenize'])
    sites = []
    for f in sorted(reach):
        for lp in loops_of(u.functions[f]):
            has = set()
            for n in lp.walk():
                if n.kind == 'BinaryOperator' and n.opcode in ('==', '!='):
                    for c in (92, 10):
                        if _is_const(n.inner[0], c) or _is_const(n.inner[1], c):
                            has.add(c)
                elif n.kind == 'CaseStmt' and n.inner:
                    for c in (92, 10):
                        if _is_const(n.inner[0], c):
                            has.add(c)
            if has == {92, 10} and not any(x.kind in LOOPS and x is not lp and _has_both(x) for x in lp.walk()):
                sites.append((f, lp))
    return sites


def _has_both(lp):
    has = set()
    for n in lp.walk():
        if n.kind == 'BinaryOperator' and n.opcode in ('==', '!='):
            for c in (92, 10):
                if _is_const(n.inner[0], c) or _is_const(n.inner[1], c):
                    has.add(c)
    return has == {92, 10}


# --------------------------------------------------------------------------------------------- reads inside a piece of input
def _nocast(key):
    """a value key with integer casts removed (a length kept in an int)"""
    if isinstance(key, tuple):
        if len(key) == 3 and key[0] == 'term' and isinstance(key[1], str) and key[1].startswith('cast:'):
            return _nocast(key[2])
        return tuple(_nocast(k) for k in key)
    return key


def _lf(key):
    """linear form of a value key: (const, {leaf key: coef}) or None"""
    key = _nocast(key)
    if isinstance(key, bool):
        return (int(key), {})
    if isinstance(key, int):
        return (key, {})
    if isinstance(key, tuple) and key and key[0] == 'lin':
        return (key[1], {k: c for k, c in key[2:]})
    if isinstance(key, tuple) and key and key[0] in ('sym', 'term'):
        return (0, {key: 1})
    return None


def piece_overrun(ctx, addr, base, n):
    """is the byte read at addr inside the piece [base, base + n) of input on this path?
    -> True (the path's conditions establish it), False (no condition of the path bounds it), None (cannot tell)"""
    T = lin(lsub(lsub(addr, base), n))           # must be <= -1
    if T is None:
        return None
    tt = {k: c for k, (c, leaf) in T.terms.items()}
    ub = None
    unknown = False
    leaves = set(tt)
    for key, truth in ctx.facts.items():
        key = _nocast(key)
        if not (isinstance(key, tuple) and len(key) == 4 and key[0] == 'term' and key[1] in ('<', '<=', '>', '>=', '==', '!=')):
            if leaves and all(_contains(key, k) for k in leaves if k != base.key()):
                unknown = True
            continue
        a, b = _lf(key[2]), _lf(key[3])
        if a is None or b is None:
            if all(_contains(key, k) for k in leaves if k != base.key()):
                unknown = True
            continue
        d = dict(a[1])
        for k, c in b[1].items():
            d[k] = d.get(k, 0) - c
        d = {k: c for k, c in d.items() if c}
        dc = a[0] - b[0]
        if d == tt:
            sgn = 1
        elif d == {k: -c for k, c in tt.items()}:
            sgn = -1
        else:
            if d and all(k in d for k in leaves if k != base.key()):
                unknown = True
            continue
        op = key[1]
        if not truth:
            op = {'<': '>=', '<=': '>', '>': '<=', '>=': '<', '==': '!=', '!=': '=='}[op]
        # sgn*X + c0 op 0   with X = T - T.c, c0 = dc - sgn*T.c  ->  bound on T
        c0 = dc - sgn * T.c
        # sgn*(T - T.c) + dc ... rewrite as sgn*T + c0 op 0
        if sgn == -1:
            op = {'<': '>', '<=': '>=', '>': '<', '>=': '<=', '==': '==', '!=': '!='}[op]
            c0 = -c0
        # now T + c0 op 0
        bnd = None
        if op == '<':
            bnd = -c0 - 1
        elif op in ('<=', '=='):
            bnd = -c0
        if bnd is not None:
            ub = bnd if ub is None else min(ub, bnd)
    if ub is not None and ub <= -1:
        return True
    return None if unknown else False
