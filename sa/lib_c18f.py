"""Private helper of sa/rules/c18.py: rules R18.10 (byte-level diagnostics are raised under the file that is being scanned) and
R18.11 (every File a token can belong to has a number of its own in the .file table)."""
from .build import AnalysisBroken

T = 'tokenize.c'
PP = 'preprocess.c'


def _is_static(fd):
    return fd.d.get('storageClass') == 'static'


def _program_graph(P):
    """(defs, calls): defs[(unit, name)] = FunctionDecl; calls[(unit, name)] = [(callee key, CallExpr)] resolved to definitions:
    a function of the same unit first, else the non-static definition of another unit"""
    defs = {}
    ext = {}
    for un in P.unit_names:
        u = P.unit(un)
        for fn, fd in u.functions.items():
            defs[(un, fn)] = fd
            if not _is_static(fd):
                ext.setdefault(fn, (un, fn))
    calls = {}
    for (un, fn), fd in defs.items():
        out = []
        for c in fd.walk():
            if c.kind != 'CallExpr':
                continue
            cn = c.callee()
            if not cn:
                continue
            k = (un, cn) if (un, cn) in defs else ext.get(cn)
            if k is not None:
                out.append((k, c))
        calls[(un, fn)] = out
    return defs, calls


def _file_globals(tu):
    """file-scope variables of tokenize.c that point to a File"""
    return set(n for n, g in tu.globals.items() if (g.dtype or g.type or '').replace('struct ', '').replace(' ', '') == 'File*')


def _refs(node, names):
    return [n for n in node.walk() if n.kind == 'DeclRefExpr' and n.ref_name in names and n.ref_kind in ('VarDecl', None)]


def _assigns_before(fd, body, call, gname):
    """is the global assigned by a plain statement of the function body that precedes the statement containing the call?"""
    top = body.inner
    idx = None
    for i, s in enumerate(top):
        if any(x is call for x in s.walk()):
            idx = i
            break
    if idx is None:
        return False
    for s in top[:idx]:
        x = s.strip() if hasattr(s, 'strip') else s
        if x.kind == 'BinaryOperator' and x.opcode == '=':
            t = x.inner[0].strip()
            if t.kind == 'DeclRefExpr' and t.ref_name == gname:
                return True
    return False


def r1810(P, rep):
    rep.rule('R18.10', 'a diagnostic located at a BYTE (error_at: the function of tokenize.c that reports through verror_at relative to the file-scope "file being scanned") '
             'computes file name and line from that file-scope variable, which only tokenize() sets: every function from which such a diagnostic is reachable and that belongs to the scanner '
             '(is reachable from tokenize()) is called only from the scanner, or by a caller that first makes the file of its token the scanned file; '
             'called from anywhere else the diagnostic names whatever file was tokenised last and counts newlines between two unrelated buffers', floor=10)
    tu = P.unit(T)
    fglobs = _file_globals(tu)
    if not fglobs:
        rep.undecided('R18.10', '%s:error_at:scanned-file' % T, 'tokenize.c has no file-scope File pointer: cannot tell what byte-level diagnostics are relative to')
        return
    # the byte-level diagnostic functions: report through verror_at with something read from the scanned-file variable
    E = {}
    for fn, fd in tu.functions.items():
        for c in fd.calls('verror_at'):
            used = set(r.ref_name for a in c.args() for r in _refs(a, fglobs))
            if used:
                E[(T, fn)] = sorted(used)[0]
    if not E:
        rep.undecided('R18.10', '%s:error_at:scanned-file' % T, 'no function of tokenize.c reports through verror_at relative to a file-scope File pointer (error_at vanished?)')
        return
    defs, calls = _program_graph(P)
    if (T, 'tokenize') not in defs:
        raise AnalysisBroken('anchor tokenize vanished')
    # S: functions from which a byte-level diagnostic is reachable
    S = set(E)
    changed = True
    while changed:
        changed = False
        for k, cs in calls.items():
            if k not in S and any(g in S for g, _ in cs):
                S.add(k)
                changed = True
    # N: the scanner -- what tokenize() reaches -- as far as it can end in a byte-level diagnostic
    reach, todo = set(), [(T, 'tokenize')]
    while todo:
        k = todo.pop()
        if k in reach:
            continue
        reach.add(k)
        todo += [g for g, _ in calls.get(k, ())]
    N = reach & S
    root = (T, 'tokenize')
    n = 0
    for (un, fn), cs in sorted(calls.items()):
        u = P.unit(un)
        seen = {}
        for g, c in cs:
            if g not in N or g == root:
                continue
            inside = (un, fn) in N
            gname = E.get(g) or sorted(set(E.values()))[0]
            ok = inside or (un == T and _assigns_before(defs[(un, fn)], u.body(fn), c, gname))
            prev = seen.get(g)
            seen[g] = (ok if prev is None else (prev[0] and ok), c if (prev is None or (prev[0] and not ok)) else prev[1])
        for g, (ok, c) in sorted(seen.items()):
            n += 1
            via = g[1] if g in E else '%s, from which %s is reachable' % (g[1], ', '.join(sorted(e[1] for e in E)))
            rep.ob('R18.10', '%s:%s:byte-diagnostic-under-the-scanned-file/%s' % (un, fn, g[1]), ok,
                   '%s() is not part of the scanner (not reachable from tokenize()) and calls %s without making the file of its token the scanned file (%s) first: '
                   'the diagnostic then names the file that happened to be tokenised last, with a line counted between that file\'s buffer and a pointer into another one '
                   '(wrong file AND wrong line)' % (fn, via, gname), where='%s:%d' % (un, c.line))
    if n < 10:
        rep.undecided('R18.10', '%s:tokenize:liveness' % T, 'only %d calls of scanner functions that can raise a byte-level diagnostic were found' % n)


def _confined(fd, call):
    """True when no token of the File created by `call` can leave function fd: the token list is bound to one local variable
    that is never reassigned, and every use of it reads a scalar member (kind, loc, len) or passes it to a diagnostic that
    does not return.  Everything else (returning it, storing it, passing it or its address to any other function) is an escape."""
    from .interp import NORETURN
    var = None
    for d in fd.walk():
        if d.kind == 'VarDecl' and any(x is call for x in d.walk()):
            var = d
    if var is None or not var.inner:
        return False
    init = var.inner[-1].strip_all()
    if not (init.kind == 'CallExpr' and init.callee() == 'tokenize' and len(init.args()) == 1 and init.args()[0].strip_all() is call):
        return False
    uses = 0
    for r in fd.walk():
        if not (r.kind == 'DeclRefExpr' and r.ref_name == var.name and r.ref_kind == 'VarDecl'):
            continue
        uses += 1
        p = r.parent
        while p is not None and p.kind in ('ImplicitCastExpr', 'ParenExpr'):
            p = p.parent
        if p is None:
            return False
        if p.kind == 'MemberExpr' and p.name in ('kind', 'loc', 'len'):
            q = p.parent
            if q is not None and q.kind == 'ImplicitCastExpr':      # an rvalue read (LValueToRValue), not &tok->loc or an assignment target
                continue
            return False
        if p.kind == 'CallExpr' and p.callee() in NORETURN and str(p.callee()).startswith('error'):
            continue
        return False
    return uses > 0


def r1811(P, rep):
    rep.rule('R18.11', 'the number of a File is what .loc prints for every token of it, and the .file table has one entry per REGISTERED file: every File that is created '
             '(call of new_file) gets either the fresh number under which the same function registers it in the table of input files, or the number of the file of the '
             'template token it stands in for; a constant or any other number makes .loc name another file\'s entry (or none)', floor=4)
    tu = P.unit(T)
    if 'new_file' not in tu.functions:
        raise AnalysisBroken('anchor new_file vanished')
    params = [p.name for p in tu.params('new_file')]
    # which parameter becomes File.file_no
    idx = None
    for n in tu.fn('new_file').walk():
        if n.kind == 'BinaryOperator' and n.opcode == '=':
            t, r = n.inner[0].strip(), n.inner[1].strip_all()
            if t.kind == 'MemberExpr' and t.name == 'file_no' and r.kind == 'DeclRefExpr' and r.ref_name in params:
                idx = params.index(r.ref_name)
    if idx is None:
        rep.undecided('R18.11', '%s:new_file:number-parameter' % T, 'new_file does not store one of its parameters into File.file_no')
        return
    # the table of registered files: the file-scope File ** of tokenize.c
    tables = set(n for n, g in tu.globals.items() if (g.dtype or g.type or '').replace('struct ', '').replace(' ', '') == 'File**')
    n = 0
    for un in P.unit_names:
        u = P.unit(un)
        for fn, fd in sorted(u.functions.items()):
            k = 0
            for c in fd.calls('new_file'):
                a = c.args()
                if len(a) <= idx:
                    continue
                n += 1
                x = a[idx].strip_all()
                where = '%s:%d' % (un, c.line)
                base = '%s:%s:file-number' % (un, fn)
                if x.kind == 'MemberExpr' and x.name == 'file_no':
                    rep.ob('R18.11', base + '/of-the-template', True, '', where=where)
                    continue
                try:
                    lit = x.int_value()
                except Exception:
                    lit = None
                if lit is not None and _confined(fd, c):
                    # the File is a scratch buffer for lexing one name: no token of it leaves the function, so none can reach .loc
                    rep.ob('R18.11', base + '/constant-%d-never-leaves' % lit, True, '', where=where)
                    continue
                if lit is not None:
                    rep.ob('R18.11', base + '/constant-%d' % lit, False,
                           '%s() creates a File with the constant number %d: it is not registered in the table of input files under that number, so every token of it '
                           '(e.g. the body of a predefined or -D macro) makes gen_expr/gen_stmt emit `.loc %d <line>`, which names the .file entry of the input file registered as %d '
                           '(the main file, or the first -include file) and a line of the scratch buffer' % (fn, lit, lit, lit), where=where)
                    continue
                registers = un == T and any(t.kind == 'DeclRefExpr' and t.ref_name in tables for t in fd.walk())
                if registers:
                    rep.ob('R18.11', base + '/registered', True, '', where=where)      # that number and table slot agree is R18.7 (file-registered-under-its-number)
                else:
                    rep.undecided('R18.11', base + '/other', 'cannot tell which number %s() gives the File it creates (%s)' % (fn, x.src()), where=where)
    if n < 4:
        rep.undecided('R18.11', '%s:new_file:liveness' % T, 'only %d calls of new_file found' % n)
