"""Private helper of sa/rules/c18.py: rule R18.12 -- a token that enters the token stream is made in the activation that puts it there.

A Token carries its position (file, line_no, loc) together with its spelling. The preprocessor puts tokens into the stream in three ways:
  * by VALUE: a whole-struct write over a token that is already linked (`*t = *new_num_token(0, t)`, memcpy, a helper that does either),
  * by POINTER: it returns the token, links it behind another one (`x->next = tok`, `x->origin = tok`), or hands it back through a `Token **`.
Whatever is put there stands at the place of a source token and must carry that token's position. Two structural facts are decided for
every such site of every unit, flow-insensitively over the definitions of the local variables involved:

  (1) the token does not come from an object that OUTLIVES THE CALL: a variable of static storage duration (function static, file-scope
      variable, an element or member of one) that is not assigned, on every path of this activation, before it is read. Such an object was
      made for the position of the token an EARLIER call worked on (maybe in another file): diagnostics on it name that stale position.
  (2) a token that is written by value over a token of the stream and that was made by a call (tokenize of a scratch buffer with a
      template: new_num_token, paste, tokenize_string_literal, copy_token, ...) was made FOR the overwritten token: the call receives the
      overwritten token as an argument, and it is made in the same iteration of every loop in which the overwritten token varies (a token
      made once before the loop and copied over every token the loop visits has the position of one of them at most).

Tokens reached through a pointer kept in a table (the body of a macro, the `#if` stack) are not judged here: they are copies by pointer
of tokens of a definition, whose position is their own."""
from .build import AnalysisBroken

MEMCPY = ('memcpy', 'memmove', '__builtin_memcpy', '__builtin_memmove', '__memcpy_chk', '__builtin___memcpy_chk', '__builtin___memmove_chk', 'mempcpy')
ALLOC = ('calloc', 'malloc', 'realloc', 'alloca', '__builtin_alloca')
LINK_FIELDS = ('next', 'origin')
LOOPS = ('ForStmt', 'WhileStmt', 'DoStmt')
MAX_DEPTH = 8


def _norm(t):
    return (t or '').replace('const ', '').replace('struct ', '').replace('volatile ', '').strip()


def _is_tok(t):
    return _norm(t) == 'Token'


def _is_tokptr(t):
    t = _norm(t)
    return t.endswith('*') and t[:-1].strip() == 'Token'


def _is_tokpp(t):
    t = _norm(t)
    return t.endswith('*') and _is_tokptr(t[:-1].strip())


def _ty(n):
    return n.dtype or n.type or ''


class Fn:
    """definitions of the variables of one function"""

    def __init__(self, u, fname, fd):
        self.u, self.fname, self.fd = u, fname, fd
        self.decls = {}
        for n in fd.walk():
            if n.kind in ('VarDecl', 'ParmVarDecl') and n.id:
                self.decls[n.id] = n
        self._defs = None

    def storage(self, ref):
        """'param' | 'auto' | 'static' (function static) | 'global' (file scope) of a DeclRefExpr to a variable"""
        if ref.ref_kind == 'ParmVarDecl':
            return 'param'
        d = self.decls.get(ref.ref_id)
        if d is None:
            return 'global'
        if d.kind == 'ParmVarDecl':
            return 'param'
        return 'static' if d.d.get('storageClass') in ('static', 'extern') else 'auto'

    def defs(self, vid):
        """[rhs node | None] of every definition of the variable in this function; None: a definition whose value is not visible
        (compound assignment, ++/--, address taken, an uninitialised declaration is no definition)"""
        if self._defs is None:
            self._defs = {}
            for n in self.fd.walk():
                if n.kind == 'VarDecl' and n.id:
                    init = [x for x in n.inner if x.kind not in ('FullComment',) and not x.kind.endswith('Attr')]
                    if init:
                        self._defs.setdefault(n.id, []).append((init[0], n))
                elif n.kind == 'BinaryOperator' and n.opcode == '=' and n.inner:
                    t = n.inner[0].strip()
                    if t.kind == 'DeclRefExpr' and t.ref_kind in ('VarDecl', 'ParmVarDecl'):
                        self._defs.setdefault(t.ref_id, []).append((n.inner[1], n))
                elif n.kind == 'CompoundAssignOperator' and n.inner:
                    t = n.inner[0].strip()
                    if t.kind == 'DeclRefExpr':
                        self._defs.setdefault(t.ref_id, []).append((None, n))
                elif n.kind == 'UnaryOperator' and n.opcode in ('++', '--', '&') and n.inner:
                    t = n.inner[0].strip()
                    if t.kind == 'DeclRefExpr' and t.ref_kind in ('VarDecl', 'ParmVarDecl'):
                        # &v of a record variable is how a list head is used (cur = &head): only the address of a POINTER variable hides definitions
                        if n.opcode != '&' or '*' in _ty(t):
                            self._defs.setdefault(t.ref_id, []).append((None, n))
        return self._defs.get(vid, [])

    def assigned_before(self, vid, use, lv=None):
        """right-hand sides of the plain assignment to the variable that is executed on every path of this activation before `use`:
        an expression statement `v = rhs` that is a direct child of a compound statement enclosing `use` and precedes the child that holds `use`
        (the nearest one). None when there is none: the variable may still hold what an earlier activation left."""
        chain = [use] + list(use.ancestors())
        best = None
        for i, a in enumerate(chain):
            if a.kind != 'CompoundStmt' or i == 0:
                continue
            holder = chain[i - 1]
            for s in a.inner:
                if s is holder:
                    break
                x = s
                if x.kind == 'BinaryOperator' and x.opcode == '=' and x.inner:
                    t = x.inner[0].strip()
                    if (lv is None and t.kind == 'DeclRefExpr' and t.ref_id == vid) or (lv is not None and t.kind in ('MemberExpr', 'ArraySubscriptExpr') and t.src() == lv):
                        best = x.inner[1]
            if best is not None:
                return best
            if a is self.fd or a.parent is self.fd:
                break
        return best


def _static_base(F, n):
    """the variable of static storage duration an lvalue designates a part of WITHOUT going through a pointer (`v`, `v.f`, `v[i]`, `v[i].f`), else None"""
    n = n.strip()
    for _ in range(12):
        if n.kind == 'MemberExpr' and n.inner:
            if n.d.get('isArrow'):
                return None
            n = n.inner[0].strip()
        elif n.kind == 'ArraySubscriptExpr' and n.inner:
            b = n.inner[0].strip()
            if b.kind == 'DeclRefExpr' and _ty(b).rstrip().endswith(']'):
                n = b
            elif b.kind in ('MemberExpr',) and _ty(b).rstrip().endswith(']'):
                n = b
            else:
                return None
        elif n.kind == 'DeclRefExpr' and n.ref_kind == 'VarDecl':
            return n if F.storage(n) in ('static', 'global') else None
        else:
            return None
    return None


def _address_taken(F, vid):
    """the function takes the address of the static object or of a part of it"""
    for x in F.fd.walk():
        if x.kind == 'UnaryOperator' and x.opcode == '&' and x.inner:
            sb = _static_base(F, x.inner[0])
            if sb is not None and sb.ref_id == vid:
                return True
    return False


def origins(F, e, use=None, seen=None, depth=0):
    """where the token a Token-valued or Token*-valued expression denotes comes from: a list of
    ('static', variable name) | ('call', CallExpr) | ('param', name) | ('mem', text) | ('local', name) | ('null',) | ('unknown', text)"""
    seen = seen if seen is not None else set()
    use = use if use is not None else e
    n = e.strip_all()
    if depth > MAX_DEPTH:
        return [('unknown', n.src())]
    k = n.kind
    if k == 'CallExpr':
        return [('call', n)]
    if k in ('IntegerLiteral', 'GNUNullExpr', 'ImplicitValueInitExpr', 'InitListExpr', 'CompoundLiteralExpr'):
        return [('null',)]
    if k == 'ConditionalOperator' and len(n.inner) == 3:
        return origins(F, n.inner[1], use, seen, depth + 1) + origins(F, n.inner[2], use, seen, depth + 1)
    if k == 'BinaryConditionalOperator' and n.inner:
        return [o for x in n.inner[-2:] for o in origins(F, x, use, seen, depth + 1)]
    if k == 'BinaryOperator' and n.opcode in (',', '=') and n.inner:
        return origins(F, n.inner[1], use, seen, depth + 1)
    if k == 'StmtExpr':
        return [('unknown', n.src())]
    if k == 'UnaryOperator' and n.opcode == '*' and n.inner:
        if _is_tok(_ty(n)):
            return origins(F, n.inner[0], use, seen, depth + 1)          # the Token a pointer designates
        return [('mem', n.src())]
    if k == 'UnaryOperator' and n.opcode == '&' and n.inner:
        x = n.inner[0].strip()
        if x.kind == 'UnaryOperator' and x.opcode == '*' and x.inner:
            return origins(F, x.inner[0], use, seen, depth + 1)
        sb = _static_base(F, x)
        if sb is not None:
            return [('static', sb.ref_name)]
        if x.kind == 'DeclRefExpr':
            return [('local', x.ref_name)]
        return [('mem', n.src())]
    if k in ('MemberExpr', 'ArraySubscriptExpr'):
        sb = _static_base(F, n)
        if sb is not None:
            if _address_taken(F, sb.ref_id):
                return [('static?', sb.ref_name)]       # the object is also reached through a pointer in this function (a list head used through a cursor): what is read may be of this activation
            rhs = F.assigned_before(None, use, lv=n.src())
            if rhs is not None:
                return origins(F, rhs, rhs, seen, depth + 1)
            return [('static', sb.ref_name)]
        return [('mem', n.src())]
    if k == 'DeclRefExpr' and n.ref_kind in ('VarDecl', 'ParmVarDecl'):
        st = F.storage(n)
        vid = n.ref_id
        if st in ('static', 'global'):
            rhs = F.assigned_before(vid, use)
            if rhs is None:
                return [('static', n.ref_name)]
            return origins(F, rhs, rhs, seen, depth + 1)
        if vid in seen:
            return []
        seen = seen | {vid}
        ds = F.defs(vid)
        out = []
        if st == 'param':
            out.append(('param', n.ref_name))
        elif not ds:
            if _is_tok(_ty(n)):
                return [('local', n.ref_name)]
            return [('unknown', n.src())]
        for rhs, dn in ds:
            if rhs is None:
                out.append(('unknown', n.ref_name))
            else:
                out += origins(F, rhs, rhs, seen, depth + 1)
        return out
    if k == 'BinaryOperator' and n.opcode in ('+', '-') and n.inner:
        return origins(F, n.inner[0], use, seen, depth + 1)
    return [('unknown', n.src())]


def canon(F, p, depth=0):
    """canonical text of a pointer expression: a local that is defined once, by its initialiser, stands for that initialiser"""
    n = p.strip_all()
    if n.kind == 'UnaryOperator' and n.opcode == '&' and n.inner:
        x = n.inner[0].strip()
        if x.kind == 'UnaryOperator' and x.opcode == '*' and x.inner:
            return canon(F, x.inner[0], depth + 1)
    if n.kind == 'DeclRefExpr' and n.ref_kind == 'VarDecl' and depth < 4 and F.storage(n) == 'auto':
        ds = F.defs(n.ref_id)
        if len(ds) == 1 and ds[0][0] is not None and ds[0][1].kind == 'VarDecl':
            r = ds[0][0].strip_all()
            if r.kind == 'DeclRefExpr' and r.ref_kind in ('VarDecl', 'ParmVarDecl'):
                return canon(F, r, depth + 1)
    return n.src()


def _root_var(p):
    """the variable a pointer expression starts from (`cur`, `cur->next` -> cur)"""
    n = p.strip_all()
    for _ in range(12):
        if n.kind == 'DeclRefExpr':
            return n
        if n.kind in ('MemberExpr', 'ArraySubscriptExpr', 'UnaryOperator') and n.inner:
            n = n.inner[0].strip_all()
        else:
            return None
    return None


def _varying_loops(F, site, dptr):
    """the loops around `site` in which the variable the overwritten token is reached from is assigned"""
    rv = _root_var(dptr)
    if rv is None:
        return []
    out = []
    for a in site.ancestors():
        if a.kind in LOOPS:
            for x in a.walk():
                if x.kind in ('BinaryOperator', 'CompoundAssignOperator', 'UnaryOperator') and x.inner and \
                        (x.kind != 'BinaryOperator' or x.opcode == '=') and (x.kind != 'UnaryOperator' or x.opcode in ('++', '--')):
                    t = x.inner[0].strip()
                    if t.kind == 'DeclRefExpr' and t.ref_id == rv.ref_id:
                        out.append(a)
                        break
                if x.kind == 'VarDecl' and x.id == rv.ref_id and x is not a:
                    # declared inside the loop (for-init or body): a new token per iteration
                    out.append(a)
                    break
    return out


def _inside(n, anc):
    return any(a is anc for a in n.ancestors())


# ---------------------------------------------------------------------------------------------- sites
def _value_sites(u, F):
    """(site node, D pointer expr | None, D lvalue | None, S expr) of every whole-Token write of the function"""
    out = []
    for n in F.fd.walk():
        if n.kind == 'BinaryOperator' and n.opcode == '=' and len(n.inner) == 2 and _is_tok(_ty(n)):
            lhs = n.inner[0].strip()
            dptr = lhs.inner[0] if (lhs.kind == 'UnaryOperator' and lhs.opcode == '*' and lhs.inner) else None
            out.append((n, dptr, lhs, n.inner[1]))
        elif n.kind == 'CallExpr' and n.callee() in MEMCPY and len(n.args()) >= 2:
            a0 = n.args()[0].strip_all()
            if _is_tokptr(_ty(a0)) or _is_tokptr(_ty(n.args()[1].strip_all())):
                out.append((n, n.args()[0], None, n.args()[1]))
    return out


def _copiers(P, units):
    """{(unit, function): (index of the Token* parameter written by value, index of the Token* parameter it is written from)}: a helper that overwrites
    one parameter's token with another parameter's; its call sites are the sites"""
    out = {}
    for un in units:
        u = P.unit(un)
        for fname, fd in u.functions.items():
            F = Fn(u, fname, fd)
            pn = [p.name for p in u.params(fname)]
            for site, dptr, lhs, s in _value_sites(u, F):
                if dptr is None:
                    continue
                do = origins(F, dptr, site)
                so = origins(F, s, site)
                if do and so and all(o[0] == 'param' for o in do) and all(o[0] == 'param' for o in so) and len(set(do)) == 1 and len(set(so)) == 1:
                    if do[0][1] in pn and so[0][1] in pn and do[0][1] != so[0][1]:
                        out[fname] = (pn.index(do[0][1]), pn.index(so[0][1]))
    return out


def _slug(s):
    return ''.join(ch if (ch.isalnum() or ch in '_') else '-' for ch in s)[:40].strip('-') or 'x'


def r1812(P, rep):
    rep.rule('R18.12', 'a token that stands in for a source token carries that token\'s position: whatever a function of the preprocessor or the tokenizer writes by value over a token '
             '(struct assignment, memcpy, a helper doing so), returns, links behind a token (next/origin) or hands back through a Token ** does not come from an object that outlives the call '
             '(a static or file-scope variable not assigned before on every path of this activation); a token made by a call and written by value over a token of the stream '
             'is made with the overwritten token as an argument, in the same iteration of every loop in which the overwritten token varies', floor=20)
    units = [un for un in ('preprocess.c', 'tokenize.c') if un in P.unit_names]
    if len(units) < 2:
        raise AnalysisBroken('units preprocess.c / tokenize.c vanished')
    copiers = _copiers(P, units)
    n_value = n_ptr = 0
    for un in units:
        u = P.unit(un)
        for fname, fd in sorted(u.functions.items()):
            F = Fn(u, fname, fd)
            base = '%s:%s' % (un, fname)
            ret_tok = _is_tokptr((fd.type or '').split('(', 1)[0])
            # ---- by value
            sites = list(_value_sites(u, F))
            for c in fd.walk():
                if c.kind == 'CallExpr' and c.callee() in copiers and c.callee() != fname:
                    i, j = copiers[c.callee()]
                    a = c.args()
                    if len(a) > max(i, j):
                        sites.append((c, a[i], None, a[j]))
            for site, dptr, lhs, s in sites:
                n_value += 1
                where = '%s:%d' % (un, site.line)
                so = origins(F, s, site)
                do = origins(F, dptr, site) if dptr is not None else [('local', lhs.src() if lhs is not None else '?')]
                into_fresh = bool(do) and all(o[0] == 'call' and o[1].callee() in ALLOC for o in do)
                into_local = bool(do) and all(o[0] == 'local' for o in do)
                judged = False
                for o in sorted(set(x for x in so if x[0] == 'static')):
                    judged = True
                    rep.ob('R18.12', '%s:overwrite/from-static-%s' % (base, _slug(o[1])), False,
                           '%s() writes a whole Token over `%s` from `%s`, an object of static storage duration that is not assigned on every path of this call before it is read: '
                           'the token was made for the position of whatever token an EARLIER call worked on (maybe in another file), and the copy keeps that file, line and loc -- '
                           'a diagnostic on the overwritten token names the stale position' % (fname, (lhs.src() if lhs is not None else dptr.src()), o[1]), where=where)
                unk = sorted(set(x[1] for x in so if x[0] in ('unknown', 'static?')))
                if unk and not judged:
                    rep.undecided('R18.12', '%s:overwrite/source-not-traced' % base, 'cannot tell where the token %s() writes over `%s` comes from (%s)' % (
                        fname, (lhs.src() if lhs is not None else dptr.src()), ', '.join(unk)), where=where)
                    continue
                calls = [x[1] for x in so if x[0] == 'call']
                if calls and not (into_fresh or into_local or dptr is None):
                    dc = canon(F, dptr)
                    loops = _varying_loops(F, site, dptr)
                    for c in calls:
                        cn = c.callee() or 'indirect-call'
                        if cn in ALLOC:
                            continue
                        judged = True
                        targs = [a for a in c.args() if _is_tokptr(_ty(a.strip_all()))]
                        hoisted = [l for l in loops if not _inside(c, l)]
                        if hoisted:
                            rep.ob('R18.12', '%s:overwrite/%s-made-outside-the-loop' % (base, _slug(cn)), False,
                                   '%s() writes the token %s() returned over `%s`, which varies in the loop at line %d, but the call is made outside that loop: one token, made for one position, '
                                   'is copied over every token the loop visits, so all but one of them carry the file, line and loc of another token' % (fname, cn, dptr.src(), hoisted[0].line), where=where)
                            continue
                        ok = any(canon(F, a) == dc for a in targs)
                        rep.ob('R18.12', '%s:overwrite/%s-made-for-the-overwritten-token' % (base, _slug(cn)), ok,
                               '%s() writes the token %s(%s) returned over `%s`, but the overwritten token is not among the arguments the token is made from: '
                               'it carries the position of %s, not of the token it replaces' % (fname, cn, ', '.join(a.src() for a in c.args()), dptr.src(),
                                                                                                ('`' + '`, `'.join(a.src() for a in targs) + '`') if targs else 'no token at all'), where=where)
                if not judged:
                    kinds = sorted(set(x[0] for x in so)) or ['nothing']
                    rep.ob('R18.12', '%s:overwrite/copy-of-%s' % (base, '+'.join(kinds)), True, '', where=where)
            # ---- by pointer
            sinks = []
            for n in fd.walk():
                if n.kind == 'ReturnStmt' and ret_tok and n.inner:
                    sinks.append(('return', n, n.inner[0]))
                elif n.kind == 'BinaryOperator' and n.opcode == '=' and len(n.inner) == 2 and _is_tokptr(_ty(n)):
                    t = n.inner[0].strip()
                    if t.kind == 'MemberExpr' and t.name in LINK_FIELDS and t.inner and 'Token' in _ty(t.inner[0]):
                        sinks.append(('link-' + t.name, n, n.inner[1]))
                    elif t.kind == 'UnaryOperator' and t.opcode == '*' and t.inner and _is_tokpp(_ty(t.inner[0].strip())):
                        sinks.append(('handed-back', n, n.inner[1]))
            per = {}
            for kind, n, e in sinks:
                so = origins(F, e, n)
                st = sorted(set(x[1] for x in so if x[0] == 'static'))
                for v in sorted(set(x[1] for x in so if x[0] == 'static?')):
                    rep.undecided('R18.12', '%s:%s/through-static-%s' % (base, kind, _slug(v)), '%s() takes a token from a part of `%s`, an object of static storage duration that it also reaches through a pointer: '
                                  'whether what is read was stored by this activation is not decided' % (fname, v), where='%s:%d' % (un, n.line))
                per.setdefault(kind, []).append((n, e, st))
            for kind, lst in sorted(per.items()):
                n_ptr += 1
                bad = [(n, e, st) for (n, e, st) in lst if st]
                for n, e, st in bad:
                    for v in st:
                        what = {'return': 'returns', 'handed-back': 'hands back through a Token **'}.get(kind, 'links as `%s` of a token' % kind.split('-', 1)[-1])
                        rep.ob('R18.12', '%s:%s/from-static-%s' % (base, kind, _slug(v)), False,
                               '%s() %s a token taken from `%s`, an object of static storage duration that is not assigned on every path of this call before it is read: '
                               'the token was made for the position an EARLIER call worked on, so the stream gets a token whose file, line and loc are those of another place '
                               '(and every later call shares and re-links the same object)' % (fname, what, v), where='%s:%d' % (un, n.line))
                if not bad:
                    rep.ob('R18.12', '%s:%s/not-from-static-storage' % (base, kind), True, '', where='%s:%d' % (un, lst[0][0].line))
    if n_value < 6:
        rep.undecided('R18.12', 'preprocess.c:whole-token-writes:liveness', 'only %d whole-Token writes found in the preprocessor and the tokenizer (expected at least 6)' % n_value)
    if n_ptr < 20:
        rep.undecided('R18.12', 'preprocess.c:token-pointer-sinks:liveness', 'only %d functions return or link tokens (expected at least 20)' % n_ptr)


# ---------------------------------------------------------------------------------------------- R18.2: passes that write computed bytes
def _scalar_t(t):
    t = _norm(t)
    return bool(t) and '*' not in t and '[' not in t and t not in ('void',)


def r182_computed(P, rep):
    """every pass tokenize_file() runs over the contents before tokenising keeps the number of new-lines (R18.1 / R18.2 decide the two passes that handle
    line ends byte by byte). A pass that hands a COMPUTED value to a callee that writes it into the buffer (the code point of `\\uXXXX` to encode_utf8) invents a
    new-line -- and shifts the line of every later token -- unless the conditions of the path exclude that the value is a new-line"""
    from .interp import Interp, Sym, Unsupported, is_opaque
    from .lib_c18 import may_be
    T = 'tokenize.c'
    tu = P.unit(T)
    fd = tu.fn('tokenize_file')
    W0 = '%s:%d' % (T, fd.line)
    passes = []
    for c in fd.walk():
        if c.kind == 'CallExpr' and c.callee() in tu.functions and c.callee() not in passes:
            ps = tu.params(c.callee())
            rt = (tu.fn(c.callee()).type or '').split('(', 1)[0].strip()
            if len(ps) >= 1 and _norm(ps[0].type) == 'char *' and rt == 'void':
                passes.append(c.callee())
    if len(passes) < 2:
        rep.undecided('R18.2', '%s:tokenize_file:passes-over-the-contents' % T, 'fewer than 2 in-place passes over the contents found in tokenize_file (%s)' % passes, where=W0)
        return
    n_sites = 0
    for fn in passes:
        pfd = tu.fn(fn)
        W = '%s:%d' % (T, pfd.line)
        base = '%s:%s' % (T, fn)
        writers = {}
        for c in pfd.walk():
            if c.kind != 'CallExpr' or not c.callee():
                continue
            d = tu.fdecls.get(c.callee()) or tu.functions.get(c.callee())
            if d is None:
                continue
            pts = [(p.dtype or p.type or '') for p in d.inner if p.kind == 'ParmVarDecl']
            wp = [i for i, t in enumerate(pts) if _norm(t) in ('char *', 'unsigned char *', 'uint8_t *')]      # a non-const byte pointer: the callee may write there
            sp = [i for i, t in enumerate(pts) if _scalar_t(t)]
            if wp and sp:
                writers[c.callee()] = sp
        if not writers:
            continue
        # a predicate over scalars defined in the unit (is_valid(c)) is followed: what it excludes is a fact of the path; everything else is opaque
        def _followed(name):
            d = tu.functions.get(name)
            return d is not None and name not in writers and tu.params(name) and all(_scalar_t(p.dtype or p.type) for p in tu.params(name))
        callees = sorted(set(c.callee() for c in pfd.walk() if c.kind == 'CallExpr' and c.callee() and not _followed(c.callee())))
        it = Interp(P, tu, {'opaque': callees, 'loop_limit': 1})
        try:
            paths = it.explore(fn, lambda ctx: [Sym('P', 'char *')], max_paths=3000)
        except (Unsupported, AnalysisBroken) as e:
            rep.undecided('R18.2', base + ':computed-bytes', 'cannot interpret %s: %s' % (fn, e), where=W)
            continue
        verdict = {}
        for ctx, out in paths:
            for e in ctx.events:
                if e[0] == 'call' and e[1] in writers:
                    for i in writers[e[1]]:
                        if i >= len(e[2]):
                            continue
                        v = e[2][i]
                        k = (e[1], e[3])
                        if isinstance(v, int) and not isinstance(v, bool):
                            bad = (v == 10)
                        elif is_opaque(v):
                            bad = may_be(ctx, v, 10)
                        else:
                            continue
                        cur = verdict.get(k)
                        if cur is None or bad:
                            verdict[k] = (bad, {'path': ctx.trail[-10:], 'value': repr(v)})
        per = {}
        for (callee, line), (bad, facts) in verdict.items():
            per.setdefault(callee, []).append((bad, line, facts))
        for callee, lst in sorted(per.items()):
            n_sites += 1
            bads = [x for x in lst if x[0]]
            rep.ob('R18.2', '%s:computed-byte-is-no-new-line/%s' % (base, callee), not bads,
                   '%s() hands a computed value to %s(), which writes it into the contents, on a path that does not exclude that the value is a new-line (10): the pass invents a new-line '
                   'that is not in the file (`/* \\u000a */` in a comment, where it is no universal character name at all; C11 6.4.3p2 forbids it elsewhere), so every later token of the '
                   'file is numbered one line too high' % (fn, callee), where='%s:%d' % (T, bads[0][1] if bads else lst[0][1]), facts=(bads[0][2] if bads else None))
    if n_sites < 1:
        rep.undecided('R18.2', '%s:tokenize_file:computed-bytes-liveness' % T, 'no pass over the contents hands a computed value to a callee that writes into the buffer (expected convert_universal_chars -> encode_utf8)', where=W0)
