"""C18 / R18.6: the line a `#line` directive ENDS on, judged on concrete directive tails.

`read_line_marker` is run by Engine I on concrete token lists over concrete file contents (a byte array; every pointer into it is a
reference to one of its elements).  The token list is produced here by a reference phase-3 scanner (C11 5.1.1.2: a `//` comment runs up to,
not including, the next new-line; a `/*` comment runs to the next `*/`; neither is recognised inside the other), so the physical line that
holds the new-line ending the directive is known independently of the code under test.  Whatever the handler does to find that line (a
scanning helper, a field the tokenizer left behind, ...) the delta it stores must be the delta a comment-free directive on THAT line gets.
"""
from .interp import Interp, Obj, Arr, Term, Sym, View, _Ref, ElemPlace, Unsupported, Infeasible
from .build import AnalysisBroken

PP = 'preprocess.c'
RULE = 'R18.6'
N = 100          # operand of the directive
LEAD = 2         # blank physical lines in front of the directive: the directive starts on line LEAD + 1

# (slug, text behind `#line 100`, i.e. the directive's tail and the lines that follow, what it exercises)
CASES = (
    ('no-comment', '\nx\n', 'nothing behind the operand'),
    ('line-comment', ' // c\nx\n', 'a // comment behind the operand'),
    ('line-comment-holding-a-block-opener', ' // a /* b\nx /* c */ y\nz\n', 'a /* inside a // comment opens nothing; a later line has */'),
    ('line-comment-holding-a-block-opener-no-closer', ' // a /* b\nx\ny\n', 'a /* inside a // comment opens nothing; no */ follows'),
    ('block-comment-on-one-line', ' /* a */\nx\n', 'a block comment without new-line'),
    ('block-comment-over-three-lines', ' /* a\nb\n */\nx\n', 'a block comment with two new-lines'),
    ('block-comment-then-line-comment', ' /* a\n */ // b /* c\nx */ y\n', 'a block comment with one new-line, then a // comment holding /*'),
    ('block-comment-holding-slashes', ' /* a // b\n */\nx\n', '// inside a block comment is no comment'),
    ('two-block-comments', ' /* a */ /* b\n */\nx\n', 'two block comments, the second with a new-line'),
    ('block-opener-slash', ' /*/ a\n */\nx\n', '/*/ does not close the comment it opens'),
    ('block-closer-stars', ' /* a **/\nx /* b\n */\n', '**/ closes; a comment on the next line is not part of the directive'),
    ('name-operand-then-block-comment', ' "f.c" /* a\n */\nx\n', 'the scan starts behind the LAST token of the directive'),
    ('name-operand-holding-a-block-opener', ' "a/*b"\nx */ y\n', 'comment characters inside the string operand are no comment'),
    ('line-comment-at-end-of-file', ' // c', 'the file ends inside the // comment'),
    ('block-comment-before-end-of-file', ' /* a\n b */', 'the file ends behind the block comment'),
)


def _scan(text):
    """reference phase-3 scanner: [(offset, spelling, physical line, at_bol, kind)] and, per physical line, nothing else.
    kind: 'num' | 'str' | 'ident' | 'punct'"""
    toks = []
    i, line, bol = 0, 1, True
    n = len(text)
    while i < n:
        c = text[i]
        if c == '\n':
            line += 1; bol = True; i += 1
        elif c in ' \t\r\f\v':
            i += 1
        elif text.startswith('//', i):
            while i < n and text[i] != '\n':
                i += 1
        elif text.startswith('/*', i):
            j = text.find('*/', i + 2)
            j = n if j < 0 else j + 2
            line += text.count('\n', i, j)
            i = j
        else:
            j = i + 1
            if c == '"':
                while text[j] != '"':
                    j += 1
                j += 1
                kind = 'str'
            elif c.isdigit():
                while j < n and (text[j].isalnum() or text[j] in '_.'):
                    j += 1
                kind = 'num'
            elif c.isalpha() or c == '_':
                while j < n and (text[j].isalnum() or text[j] == '_'):
                    j += 1
                kind = 'ident'
            else:
                kind = 'punct'
            toks.append((i, text[i:j], line, bol, kind))
            bol = False
            i = j
    return toks


class World:
    """file contents as a byte array + the token list over it"""

    def __init__(self, u, lead, tail, hash_line=True):
        self.text = '\n' * lead + ('#line %d' % N if hash_line else '# %d' % N) + tail
        self.buf = Arr([ord(c) for c in self.text] + [0], label='contents')
        self.file = Obj('File', lazy=False, label='file', fields={
            'name': 'f.c', 'file_no': 1, 'contents': _Ref(ElemPlace(self.buf, 0)), 'display_name': 'f.c', 'line_delta': 0})
        K = u.enums
        kinds = {'num': K['TK_PP_NUM'], 'str': K['TK_STR'], 'ident': K['TK_IDENT'], 'punct': K['TK_PUNCT']}
        sc = _scan(self.text)
        objs = []
        for (off, sp, line, bol, kind) in sc:
            f = {'kind': kinds[kind], 'next': 0, 'val': 0, 'loc': _Ref(ElemPlace(self.buf, off)), 'len': len(sp), 'ty': 0, 'str': 0,
                 'file': self.file, 'filename': 'f.c', 'line_no': line, 'line_delta': 0, 'at_bol': 1 if bol else 0, 'has_space': 0,
                 'hideset': 0, 'origin': 0}
            if kind == 'str':
                f['str'] = sp[1:-1]
            objs.append(Obj('Token', lazy=False, label='t%d:%s' % (len(objs), sp), fields=f))
        last_line = self.text.count('\n') + 1
        eof = Obj('Token', lazy=False, label='eof', fields={
            'kind': K['TK_EOF'], 'next': 0, 'val': 0, 'loc': _Ref(ElemPlace(self.buf, len(self.text))), 'len': 0, 'ty': 0, 'str': 0,
            'file': self.file, 'filename': 'f.c', 'line_no': last_line, 'line_delta': 0, 'at_bol': 1 if self.text.endswith('\n') else 0,
            'has_space': 0, 'hideset': 0, 'origin': 0})
        objs.append(eof)
        for a, b in zip(objs, objs[1:]):
            a.fields['next'] = b
        self.toks = objs
        # the directive: tokens from the `#` up to the next token at the beginning of a line
        h = [k for k, t in enumerate(sc) if t[1] == '#' and t[3]][0]
        self.hash = objs[h]
        self.operand = [o for o, t in zip(objs[h + 1:], sc[h + 1:]) if t[4] == 'num'][0]
        k = h + 1
        while k < len(sc) and not sc[k][3]:
            k += 1
        self.after = objs[k]                      # first token of the next line (or EOF)
        last = sc[k - 1]
        # the new-line that ends the directive is the first one behind its last token that is not inside a block comment
        self.end_line = self._end_line(last[0] + len(last[1]), last[2])
        self.first_line = sc[h][2]

    def _end_line(self, i, line):
        t = self.text
        while i < len(t) and t[i] != '\n':
            if t.startswith('//', i):
                while i < len(t) and t[i] != '\n':
                    i += 1
                break
            if t.startswith('/*', i):
                j = t.find('*/', i + 2)
                j = len(t) if j < 0 else j + 2
                line += t.count('\n', i, j)
                i = j
                continue
            i += 1
        return line


# ------------------------------------------------------------------------------ byte-buffer models of the libc the scan may use
def _bytes_at(v, k=None):
    """the bytes a char pointer value designates, up to the terminating NUL (or k of them); None if not concrete"""
    if isinstance(v, str):
        return v if k is None else v[:k]
    if isinstance(v, _Ref) and isinstance(v.place, ElemPlace) and isinstance(v.place.arr, Arr) and isinstance(v.place.i, int):
        out = []
        a, i = v.place.arr.elems, v.place.i
        while 0 <= i < len(a) and isinstance(a[i], int) and a[i] != 0 and (k is None or len(out) < k):
            out.append(chr(a[i])); i += 1
        if 0 <= i < len(a) and not isinstance(a[i], int):
            return None
        return ''.join(out)
    return None


def _m_strncmp(it, ctx, n, args):
    k = args[2]
    if not isinstance(k, int):
        return NotImplemented
    a, b = _bytes_at(args[0], k), _bytes_at(args[1], k)
    if a is None or b is None:
        return NotImplemented
    return (a > b) - (a < b)


def _m_strcmp(it, ctx, n, args):
    a, b = _bytes_at(args[0]), _bytes_at(args[1])
    if a is None or b is None:
        return NotImplemented
    return (a > b) - (a < b)


def _m_memcmp(it, ctx, n, args):
    k = args[2]
    if not isinstance(k, int):
        return NotImplemented
    a, b = _bytes_at(args[0], k), _bytes_at(args[1], k)
    if a is None or b is None or len(a) < k or len(b) < k:
        return NotImplemented
    return (a > b) - (a < b)


def _m_strlen(it, ctx, n, args):
    a = _bytes_at(args[0])
    return NotImplemented if a is None else len(a)


def _find(it, args, needle):
    a = _bytes_at(args[0])
    if a is None or needle is None:
        return NotImplemented
    j = a.find(needle)
    if j < 0:
        return 0
    v = args[0]
    return v[j:] if isinstance(v, str) else v.shift(j)


def _m_strstr(it, ctx, n, args):
    return _find(it, args, _bytes_at(args[1]))


def _m_strchr(it, ctx, n, args):
    c = args[1]
    if not isinstance(c, int):
        return NotImplemented
    if c == 0:
        a = _bytes_at(args[0])
        if a is None:
            return NotImplemented
        return args[0][len(a):] if isinstance(args[0], str) else args[0].shift(len(a))
    return _find(it, args, chr(c))


def _m_strto(it, ctx, n, args):
    a = _bytes_at(args[0])
    base = args[2] if len(args) > 2 else 10
    endp = args[1] if len(args) > 1 else 0
    if a is None or not isinstance(base, int) or not (isinstance(endp, _Ref) or (isinstance(endp, int) and endp == 0)):
        return NotImplemented
    ws = len(a) - len(a.lstrip(' \t\n'))
    d = ''
    for c in a[ws:]:
        if c.isdigit():
            d += c
        else:
            break
    if base == 0:
        base = 8 if d.startswith('0') and len(d) > 1 else 10
    if base not in (8, 10) or (base == 8 and any(c in '89' for c in d)):
        return NotImplemented
    if isinstance(endp, _Ref):
        k = ws + len(d) if d else 0
        endp.place.set(it, args[0][k:] if isinstance(args[0], str) else args[0].shift(k))
    return int(d, base) if d else 0


def _m_isdigit(it, ctx, n, args):
    c = args[0]
    return (1 if 48 <= c <= 57 else 0) if isinstance(c, int) else NotImplemented


def _m_isspace(it, ctx, n, args):
    c = args[0]
    return (1 if c in (32, 9, 10, 11, 12, 13) else 0) if isinstance(c, int) else NotImplemented


MODELS = {'strncmp': _m_strncmp, 'memcmp': _m_memcmp, 'strcmp': _m_strcmp, 'strlen': _m_strlen, 'strstr': _m_strstr, 'strchr': _m_strchr,
          'strtol': _m_strto, 'strtoul': _m_strto, 'strtoll': _m_strto, 'strtoull': _m_strto, 'atoi': _m_strto, 'atol': _m_strto,
          'isdigit': _m_isdigit, 'isspace': _m_isspace}


def _run(P, u, w, fn):
    """run fn(rest, operand token) on world w; -> ('delta', int) | ('undecided', why)"""
    K = u.enums

    def cut_copy_line(it, ctx, call, args):
        # the tokens of the rest of the line, copied, closed by an end marker (what copy_line is specified to hand over)
        t = args[1]
        out = []
        while isinstance(t, Obj) and not t.fields.get('at_bol') and t.fields.get('kind') != K['TK_EOF']:
            out.append(Obj('Token', lazy=False, label='copy:' + (t.label or ''), fields=dict(t.fields)))
            t = t.fields.get('next')
        tmpl = out[-1] if out else t
        e = Obj('Token', lazy=False, label='linetoks-eof', fields=dict(tmpl.fields))
        e.fields.update({'kind': K['TK_EOF'], 'len': 0, 'next': 0})
        out.append(e)
        for a, b in zip(out, out[1:]):
            a.fields['next'] = b
        r = args[0]
        if isinstance(r, _Ref):
            r.place.set(it, t)
        return out[0]

    def cut_expand(it, ctx, call, args):
        return args[0]          # the operands of the cases hold no macro

    def cut_convert(it, ctx, call, args):
        t = args[0]
        while isinstance(t, Obj) and t.fields.get('kind') != K['TK_EOF']:
            if t.fields.get('kind') == K['TK_PP_NUM']:
                s = _bytes_at(t.fields['loc'], t.fields['len'])
                if s and s.isdigit():
                    t.fields['kind'] = K['TK_NUM']
                    t.fields['val'] = int(s, 8) if s.startswith('0') and len(s) > 1 else int(s)
            t = t.fields.get('next')
        return None

    cuts = {}
    for name, h in (('copy_line', cut_copy_line), ('preprocess', cut_expand), ('preprocess2', cut_expand), ('convert_pp_tokens', cut_convert)):
        if name in u.functions or name in P.unit('tokenize.c').functions:
            cuts[name] = h
    it = Interp(P, u, {'cut': cuts, 'models': MODELS, 'track_stores': True, 'loop_limit': 1})
    rest = Arr([w.operand], label='rest')

    def mk(ctx):
        return [_Ref(ElemPlace(rest, 0)), w.operand]
    try:
        paths = list(it.explore(fn, mk, max_paths=64))
    except (Unsupported, AnalysisBroken) as e:
        return ('undecided', 'cannot interpret %s on the concrete directive: %s' % (fn, e))
    rets = [(ctx, out) for ctx, out in paths if out[0] == 'ret']
    if len(paths) != 1:
        return ('undecided', '%d paths on a concrete input (some value was not concrete)' % len(paths))
    if not rets:
        out = paths[0][1]
        return ('undecided', 'the concrete directive is rejected (%s at line %s)' % (out[1], out[3] if len(out) > 3 else '?'))
    ctx = rets[0][0]
    st = [e for e in ctx.events if e[0] == 'fstore' and e[2] == 'line_delta' and e[1] is w.file]
    if not st:
        return ('undecided', 'no store into line_delta of the directive\'s file')
    v = st[-1][4]
    while isinstance(v, Term) and v.op.startswith('cast:') and len(v.args) == 1:
        v = v.args[0]
    if isinstance(v, bool) or not isinstance(v, int):
        return ('undecided', 'the stored delta %r is not concrete' % (v,))
    return ('delta', v)


def r186_directive_end(P, u, rep):
    fn = 'read_line_marker'
    fd = u.fn(fn)
    W = '%s:%d' % (PP, fd.line)
    base = '%s:%s:ends-on-the-line-of-its-new-line' % (PP, fn)
    # calibration: comment-free directives on two different lines give the constant c of delta = N - L + c (that c is right is R18.6 next-line-is-N)
    cal = []
    for lead in (LEAD, LEAD + 3):
        w = World(u, lead, '\nx\n')
        r = _run(P, u, w, fn)
        if r[0] != 'delta':
            rep.undecided(RULE, base, 'comment-free directive on line %d: %s' % (w.first_line, r[1]), where=W)
            return
        cal.append(r[1] - N + w.first_line)
    if cal[0] != cal[1]:
        rep.undecided(RULE, base, 'the delta of a comment-free `#line %d` is not %d - L + c for the directive\'s line L (c = %d on line %d, %d on line %d)'
                      % (N, N, cal[0], LEAD + 1, cal[1], LEAD + 4), where=W)
        return
    c = cal[0]
    done = 0
    for hash_line in (True, False):
        for slug, tail, what in CASES:
            w = World(u, LEAD, tail, hash_line)
            key = '%s/%s%s' % (base, slug, '' if hash_line else '/gnu-marker')
            r = _run(P, u, w, fn)
            if r[0] != 'delta':
                rep.undecided(RULE, key, r[1], where=W)
                continue
            done += 1
            want = N - w.end_line + c
            got_line = N + c - r[1]
            rep.ob(RULE, key, r[1] == want,
                   '%s: `%s` starting on physical line %d ends on line %d (the line that holds its new-line, C11 5.1.1.2 phase 3: a // comment runs to the new-line and '
                   'nothing inside it opens a block comment, a /* comment runs to the next */), but %s takes line %d for it and stores delta %d instead of %d: '
                   'every line after the directive is numbered %+d off' % (what, w.text[LEAD:].replace('\n', '\\n'), w.first_line, w.end_line, fn, got_line, r[1], want, r[1] - want),
                   where=W, facts={'contents': w.text, 'stored': r[1], 'expected': want})
    if done < 20:
        rep.undecided(RULE, base + ':liveness', 'only %d of %d concrete directives decided' % (done, 2 * len(CASES)), where=W)


def multi_line_directive(P, u, fn='read_line_marker'):
    """does fn number from the line a directive ENDS on when a block comment behind the operand holds new-lines?
    True / False (it numbers from another line) / None (the concrete run is not conclusive)"""
    try:
        w0 = World(u, LEAD, '\nx\n')
        w1 = World(u, LEAD, ' /* a\nb\n */\nx\n')
        r0, r1 = _run(P, u, w0, fn), _run(P, u, w1, fn)
    except (Unsupported, AnalysisBroken, KeyError, TypeError, AttributeError, IndexError, ValueError):
        return None
    if r0[0] != 'delta' or r1[0] != 'delta':
        return None
    return r0[1] - r1[1] == w1.end_line - w0.end_line
